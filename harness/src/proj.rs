//! Projections between the real Push VM values and the vocabulary of spec/vm/*.tla.
//!
//! phi: i64 -> spec integer (window map, DESIGN 3.2); psi: f64 -> spec float (grid n/8 plus
//! NaN / +-Inf / -0).  Values outside the windows are `None`: the step is *cut*, never judged.

use ordered_float::OrderedFloat;
use push::{
    instruction::{
        printing::{Print, PrintLn, PrintString},
        variable_name::VariableName,
        BoolInstruction, ExecInstruction, FloatInstruction, IntInstruction, PushInstruction,
    },
    push_vm::{program::PushProgram, push_state::PushState, stack::Stack, HasStack},
};
use serde_json::{json, Value};
use strum::IntoEnumIterator;

use crate::util::{arr, i, s};

pub const M: i64 = (1 << 29) - 1; // spec IntMax at conformance width
pub const W: i64 = 1 << 26; // half-width of each window
pub const FMAX: i64 = 1 << 20; // float grid bound (in eighths)

pub fn phi(x: i64) -> Option<i64> {
    if x.unsigned_abs() <= W as u64 {
        Some(x)
    } else if x >= i64::MAX - W {
        Some(M - (i64::MAX - x))
    } else if x <= i64::MIN + W {
        Some(-M - 1 + (x - i64::MIN))
    } else {
        None
    }
}

pub fn phi_inv(v: i64) -> i64 {
    if v.abs() <= W {
        v
    } else if v >= M - W {
        i64::MAX - (M - v)
    } else if v <= -M - 1 + W {
        i64::MIN + (v - (-M - 1))
    } else {
        eprintln!("spec integer {v} is outside every window");
        std::process::exit(2)
    }
}

pub fn psi(x: f64) -> Option<Value> {
    let f = |k: &str, m: i64| Some(json!({"k": k, "m": m}));
    if x.is_nan() {
        f("nan", 0)
    } else if x == f64::INFINITY {
        f("pinf", 0)
    } else if x == f64::NEG_INFINITY {
        f("ninf", 0)
    } else if x == 0.0 {
        if x.is_sign_negative() {
            f("nzero", 0)
        } else {
            f("fin", 0)
        }
    } else {
        let n = x * 8.0;
        if n.fract() == 0.0 && n.abs() <= FMAX as f64 {
            f("fin", n as i64)
        } else {
            None
        }
    }
}

pub fn psi_inv(v: &Value) -> f64 {
    match s(&v["k"]) {
        "nan" => f64::NAN,
        "pinf" => f64::INFINITY,
        "ninf" => f64::NEG_INFINITY,
        "nzero" => -0.0,
        "fin" => i(&v["m"]) as f64 / 8.0,
        other => {
            eprintln!("spec float kind {other} has no real value");
            std::process::exit(2)
        }
    }
}

fn ins(f: &str, o: &str) -> Value {
    json!({"f": f, "o": o})
}

fn insv(f: &str, o: &str, v: Value) -> Value {
    json!({"f": f, "o": o, "v": v})
}

/// Real program item -> spec instruction record; `None` if it carries a number outside
/// the windows.
pub fn item_to_json(p: &PushProgram) -> Option<Value> {
    match p {
        PushProgram::Block(b) => {
            let items: Option<Vec<Value>> = b.iter().map(item_to_json).collect();
            Some(json!({"f": "block", "v": items?}))
        }
        PushProgram::Instruction(pi) => instr_to_json(pi),
    }
}

pub fn instr_to_json(pi: &PushInstruction) -> Option<Value> {
    Some(match pi {
        PushInstruction::InputVar(name) => ins("input", &name.to_string()),
        PushInstruction::PrintSpace(_) => ins("print", "space"),
        PushInstruction::PrintNewline(_) => ins("print", "newline"),
        PushInstruction::PrintPeriod(_) => ins("print", "period"),
        PushInstruction::PrintString(PrintString(st)) => insv("print", "string", json!(st)),
        PushInstruction::Exec(e) => match e {
            ExecInstruction::Pop(_) => ins("exec", "pop"),
            ExecInstruction::Push(b) => insv("exec", "push", item_to_json(&b.0)?),
            ExecInstruction::Dup(_) => ins("exec", "dup"),
            ExecInstruction::Swap(_) => ins("exec", "swap"),
            ExecInstruction::IsEmpty(_) => ins("exec", "is_empty"),
            ExecInstruction::StackDepth(_) => ins("exec", "stack_depth"),
            ExecInstruction::Flush(_) => ins("exec", "flush"),
            ExecInstruction::Noop(_) => ins("exec", "noop"),
            ExecInstruction::DupBlock(_) => ins("exec", "dup_block"),
            ExecInstruction::When(_) => ins("exec", "when"),
            ExecInstruction::Unless(_) => ins("exec", "unless"),
            ExecInstruction::IfElse(_) => ins("exec", "if_else"),
        },
        PushInstruction::BoolInstruction(b) => match b {
            BoolInstruction::Pop(_) => ins("bool", "pop"),
            BoolInstruction::Push(p) => insv("bool", "push", json!(p.0)),
            BoolInstruction::Dup(_) => ins("bool", "dup"),
            BoolInstruction::Swap(_) => ins("bool", "swap"),
            BoolInstruction::IsEmpty(_) => ins("bool", "is_empty"),
            BoolInstruction::StackDepth(_) => ins("bool", "stack_depth"),
            BoolInstruction::Flush(_) => ins("bool", "flush"),
            BoolInstruction::Print(_) => ins("bool", "print"),
            BoolInstruction::Println(_) => ins("bool", "println"),
            BoolInstruction::Not => ins("bool", "not"),
            BoolInstruction::Or => ins("bool", "or"),
            BoolInstruction::And => ins("bool", "and"),
            BoolInstruction::Xor => ins("bool", "xor"),
            BoolInstruction::Implies => ins("bool", "implies"),
            BoolInstruction::FromInt => ins("bool", "from_int"),
            _ => ins("unknown", "bool"),
        },
        PushInstruction::IntInstruction(x) => match x {
            IntInstruction::Pop(_) => ins("int", "pop"),
            IntInstruction::Push(p) => insv("int", "push", json!(phi(p.0)?)),
            IntInstruction::Dup(_) => ins("int", "dup"),
            IntInstruction::Swap(_) => ins("int", "swap"),
            IntInstruction::IsEmpty(_) => ins("int", "is_empty"),
            IntInstruction::StackDepth(_) => ins("int", "stack_depth"),
            IntInstruction::Flush(_) => ins("int", "flush"),
            IntInstruction::Print(_) => ins("int", "print"),
            IntInstruction::PrintLn(_) => ins("int", "println"),
            IntInstruction::Negate(_) => ins("int", "negate"),
            IntInstruction::Abs(_) => ins("int", "abs"),
            IntInstruction::Min => ins("int", "min"),
            IntInstruction::Max => ins("int", "max"),
            IntInstruction::Clamp(_) => ins("int", "clamp"),
            IntInstruction::Inc => ins("int", "inc"),
            IntInstruction::Dec => ins("int", "dec"),
            IntInstruction::Add => ins("int", "add"),
            IntInstruction::Subtract => ins("int", "subtract"),
            IntInstruction::Multiply => ins("int", "multiply"),
            IntInstruction::ProtectedDivide => ins("int", "protected_divide"),
            IntInstruction::Mod => ins("int", "mod"),
            IntInstruction::Power => ins("int", "power"),
            IntInstruction::Square => ins("int", "square"),
            IntInstruction::IsZero => ins("int", "is_zero"),
            IntInstruction::IsPositive => ins("int", "is_positive"),
            IntInstruction::IsNegative => ins("int", "is_negative"),
            IntInstruction::IsEven => ins("int", "is_even"),
            IntInstruction::IsOdd => ins("int", "is_odd"),
            IntInstruction::Equal => ins("int", "equal"),
            IntInstruction::NotEqual => ins("int", "not_equal"),
            IntInstruction::LessThan => ins("int", "less_than"),
            IntInstruction::LessThanEqual => ins("int", "less_than_equal"),
            IntInstruction::GreaterThan => ins("int", "greater_than"),
            IntInstruction::GreaterThanEqual => ins("int", "greater_than_equal"),
            IntInstruction::FromBoolean => ins("int", "from_boolean"),
            IntInstruction::FromFloatApprox => ins("int", "from_float_approx"),
            _ => ins("unknown", "int"),
        },
        PushInstruction::FloatInstruction(x) => match x {
            FloatInstruction::Pop(_) => ins("flt", "pop"),
            FloatInstruction::Push(p) => insv("flt", "push", psi(p.0 .0)?),
            FloatInstruction::Dup(_) => ins("flt", "dup"),
            FloatInstruction::Swap(_) => ins("flt", "swap"),
            FloatInstruction::IsEmpty(_) => ins("flt", "is_empty"),
            FloatInstruction::StackDepth(_) => ins("flt", "stack_depth"),
            FloatInstruction::Flush(_) => ins("flt", "flush"),
            FloatInstruction::Print(_) => ins("flt", "print"),
            FloatInstruction::PrintLn(_) => ins("flt", "println"),
            FloatInstruction::Add => ins("flt", "add"),
            FloatInstruction::Subtract => ins("flt", "subtract"),
            FloatInstruction::Multiply => ins("flt", "multiply"),
            FloatInstruction::ProtectedDivide => ins("flt", "protected_divide"),
            FloatInstruction::Equal => ins("flt", "equal"),
            FloatInstruction::NotEqual => ins("flt", "not_equal"),
            FloatInstruction::GreaterThan => ins("flt", "greater_than"),
            FloatInstruction::LessThan => ins("flt", "less_than"),
            FloatInstruction::GreaterThanOrEqual => ins("flt", "greater_than_or_equal"),
            FloatInstruction::LessThanOrEqual => ins("flt", "less_than_or_equal"),
            FloatInstruction::FromIntApprox => ins("flt", "from_int_approx"),
            _ => ins("unknown", "flt"),
        },
        _ => ins("unknown", "push"),
    })
}

/// Spec instruction record -> real program item.
pub fn item_from_json(v: &Value) -> PushProgram {
    let f = s(&v["f"]);
    if f == "block" {
        return PushProgram::Block(arr(&v["v"]).iter().map(item_from_json).collect());
    }
    PushProgram::Instruction(instr_from_json(v))
}

fn unknown(v: &Value) -> ! {
    eprintln!("no real instruction for spec instruction {v}");
    std::process::exit(2)
}

pub fn instr_from_json(v: &Value) -> PushInstruction {
    let f = s(&v["f"]);
    let o = s(&v["o"]);
    match f {
        "input" => VariableName::from(o).into(),
        "print" => match o {
            "space" => PushInstruction::PrintSpace(Default::default()),
            "newline" => PushInstruction::PrintNewline(Default::default()),
            "period" => PushInstruction::PrintPeriod(Default::default()),
            "string" => PushInstruction::PrintString(PrintString(s(&v["v"]).to_string())),
            _ => unknown(v),
        },
        "exec" => match o {
            "pop" => ExecInstruction::Pop(Default::default()),
            "push" => {
                // `PushValue` lives in a private module: start from the default literal the
                // crate's own `EnumIter` yields and set its public field.
                let mut e = ExecInstruction::iter()
                    .find(|e| matches!(e, ExecInstruction::Push(_)))
                    .expect("exec push variant");
                if let ExecInstruction::Push(b) = &mut e {
                    b.0 = item_from_json(&v["v"]);
                }
                e
            }
            "dup" => ExecInstruction::Dup(Default::default()),
            "swap" => ExecInstruction::Swap(Default::default()),
            "is_empty" => ExecInstruction::IsEmpty(Default::default()),
            "stack_depth" => ExecInstruction::StackDepth(Default::default()),
            "flush" => ExecInstruction::Flush(Default::default()),
            "noop" => ExecInstruction::noop(),
            "dup_block" => ExecInstruction::dup_block(),
            "when" => ExecInstruction::when(),
            "unless" => ExecInstruction::unless(),
            "if_else" => ExecInstruction::if_else(),
            _ => unknown(v),
        }
        .into(),
        "bool" => match o {
            "pop" => BoolInstruction::Pop(Default::default()),
            "push" => BoolInstruction::push(v["v"].as_bool().expect("bool literal")),
            "dup" => BoolInstruction::Dup(Default::default()),
            "swap" => BoolInstruction::Swap(Default::default()),
            "is_empty" => BoolInstruction::IsEmpty(Default::default()),
            "stack_depth" => BoolInstruction::StackDepth(Default::default()),
            "flush" => BoolInstruction::Flush(Default::default()),
            "print" => BoolInstruction::Print(Print::new()),
            "println" => BoolInstruction::Println(PrintLn::new()),
            "not" => BoolInstruction::Not,
            "or" => BoolInstruction::Or,
            "and" => BoolInstruction::And,
            "xor" => BoolInstruction::Xor,
            "implies" => BoolInstruction::Implies,
            "from_int" => BoolInstruction::FromInt,
            _ => unknown(v),
        }
        .into(),
        "int" => match o {
            "pop" => IntInstruction::pop(),
            "push" => IntInstruction::push(phi_inv(i(&v["v"]))),
            "dup" => IntInstruction::dup(),
            "swap" => IntInstruction::swap(),
            "is_empty" => IntInstruction::is_empty(),
            "stack_depth" => IntInstruction::stack_depth(),
            "flush" => IntInstruction::flush(),
            "print" => IntInstruction::Print(Print::new()),
            "println" => IntInstruction::PrintLn(PrintLn::new()),
            "negate" => IntInstruction::negate(),
            "abs" => IntInstruction::abs(),
            "min" => IntInstruction::Min,
            "max" => IntInstruction::Max,
            "clamp" => IntInstruction::clamp(),
            "inc" => IntInstruction::Inc,
            "dec" => IntInstruction::Dec,
            "add" => IntInstruction::Add,
            "subtract" => IntInstruction::Subtract,
            "multiply" => IntInstruction::Multiply,
            "protected_divide" => IntInstruction::ProtectedDivide,
            "mod" => IntInstruction::Mod,
            "power" => IntInstruction::Power,
            "square" => IntInstruction::Square,
            "is_zero" => IntInstruction::IsZero,
            "is_positive" => IntInstruction::IsPositive,
            "is_negative" => IntInstruction::IsNegative,
            "is_even" => IntInstruction::IsEven,
            "is_odd" => IntInstruction::IsOdd,
            "equal" => IntInstruction::Equal,
            "not_equal" => IntInstruction::NotEqual,
            "less_than" => IntInstruction::LessThan,
            "less_than_equal" => IntInstruction::LessThanEqual,
            "greater_than" => IntInstruction::GreaterThan,
            "greater_than_equal" => IntInstruction::GreaterThanEqual,
            "from_boolean" => IntInstruction::FromBoolean,
            "from_float_approx" => IntInstruction::FromFloatApprox,
            _ => unknown(v),
        }
        .into(),
        "flt" => match o {
            "pop" => FloatInstruction::pop(),
            "push" => FloatInstruction::push(psi_inv(&v["v"])),
            "dup" => FloatInstruction::dup(),
            "swap" => FloatInstruction::swap(),
            "is_empty" => FloatInstruction::is_empty(),
            "stack_depth" => FloatInstruction::stack_depth(),
            "flush" => FloatInstruction::flush(),
            "print" => FloatInstruction::Print(Print::new()),
            "println" => FloatInstruction::PrintLn(PrintLn::new()),
            "add" => FloatInstruction::Add,
            "subtract" => FloatInstruction::Subtract,
            "multiply" => FloatInstruction::Multiply,
            "protected_divide" => FloatInstruction::ProtectedDivide,
            "equal" => FloatInstruction::Equal,
            "not_equal" => FloatInstruction::NotEqual,
            "greater_than" => FloatInstruction::GreaterThan,
            "less_than" => FloatInstruction::LessThan,
            "greater_than_or_equal" => FloatInstruction::GreaterThanOrEqual,
            "less_than_or_equal" => FloatInstruction::LessThanOrEqual,
            "from_int_approx" => FloatInstruction::FromIntApprox,
            _ => unknown(v),
        }
        .into(),
        _ => unknown(v),
    }
}

/// Every instruction the crate's own `EnumIter` lists (literal pushes with default payload)
/// plus the printing instructions and an input variable.
pub fn all_instructions() -> Vec<PushInstruction> {
    let mut v: Vec<PushInstruction> = Vec::new();
    v.extend(ExecInstruction::iter().map(Into::into));
    v.extend(BoolInstruction::iter().map(Into::into));
    v.extend(IntInstruction::iter().map(Into::into));
    v.extend(FloatInstruction::iter().map(Into::into));
    v.push(PushInstruction::PrintSpace(Default::default()));
    v.push(PushInstruction::PrintNewline(Default::default()));
    v.push(PushInstruction::PrintPeriod(Default::default()));
    v.push(PushInstruction::PrintString(PrintString("s".to_string())));
    v.push(VariableName::from("x").into());
    v
}

fn stack_top_first<T: Clone>(st: &Stack<T>) -> Vec<T> {
    let mut c = st.clone();
    let mut out = Vec::new();
    while let Ok(v) = c.pop() {
        out.push(v);
    }
    out
}

/// The four stacks of a real state in spec vocabulary (top first); `None` = some number is
/// outside the windows.  The output buffer is projected separately (it needs lexing).
pub fn stacks_to_json(st: &PushState) -> Option<Value> {
    let exec: Option<Vec<Value>> = stack_top_first(st.stack::<PushProgram>())
        .iter()
        .map(item_to_json)
        .collect();
    let int: Option<Vec<Value>> = stack_top_first(st.stack::<i64>())
        .iter()
        .map(|x| phi(*x).map(|v| json!(v)))
        .collect();
    let flt: Option<Vec<Value>> = stack_top_first(st.stack::<OrderedFloat<f64>>())
        .iter()
        .map(|x| psi(x.0))
        .collect();
    let bool: Vec<bool> = stack_top_first(st.stack::<bool>());
    Some(json!({"exec": exec?, "int": int?, "flt": flt?, "bool": bool}))
}

pub fn maxes_to_json(st: &PushState) -> Value {
    json!({
        "exec": st.stack::<PushProgram>().max_stack_size(),
        "int": st.stack::<i64>().max_stack_size(),
        "flt": st.stack::<OrderedFloat<f64>>().max_stack_size(),
        "bool": st.stack::<bool>().max_stack_size(),
    })
}

/// Build a real state through the generated builder from spec vocabulary.
/// `sv` = {exec,int,flt,bool} top first, `max` = {exec,int,flt,bool}, `inputs` = name -> literal.
pub fn build_state(sv: &Value, max: &Value, inputs: &Value, limit: usize) -> Result<PushState, String> {
    build_state_ordered(sv, max, inputs, limit, 0)
}

/// ... declaring the inputs in the `rotation`-th rotation of their name order.
pub fn build_state_ordered(sv: &Value, max: &Value, inputs: &Value, limit: usize, rotation: usize) -> Result<PushState, String> {
    build_state_ordered_decoy(sv, max, inputs, limit, rotation, false)
}

/// `decoy`: every name is first bound to ANOTHER value and then to its real one (a later binding
/// of a name replaces the earlier one)
pub fn build_state_ordered_decoy(sv: &Value, max: &Value, inputs: &Value, limit: usize, rotation: usize, decoy: bool) -> Result<PushState, String> {
    let m = |k: &str| max[k].as_u64().expect("max") as usize;
    let exec: Vec<PushProgram> = arr(&sv["exec"]).iter().map(item_from_json).collect();
    let ints: Vec<i64> = arr(&sv["int"]).iter().map(|v| phi_inv(i(v))).collect();
    let flts: Vec<OrderedFloat<f64>> = arr(&sv["flt"]).iter().map(|v| OrderedFloat(psi_inv(v))).collect();
    let bools: Vec<bool> = arr(&sv["bool"]).iter().map(|v| v.as_bool().expect("bool")).collect();
    let e = |x: push::push_vm::stack::StackError| format!("builder refused the pre-state: {x}");
    let mut b = PushState::builder()
        .with_max_stack_size(m("exec"))
        .with_int_max_size(m("int"))
        .with_float_max_size(m("flt"))
        .with_bool_max_size(m("bool"))
        .with_program(exec)
        .map_err(e)?
        .with_int_values(ints)
        .map_err(e)?
        .with_float_values(flts)
        .map_err(e)?
        .with_bool_values(bools)
        .map_err(e)?
        .with_instruction_step_limit(limit);
    if let Some(obj) = inputs.as_object() {
        let mut names: Vec<(&String, &Value)> = obj.iter().collect();
        if !names.is_empty() {
            let k = rotation % names.len();
            names.rotate_left(k);
            if rotation >= names.len() {
                names.reverse();
            }
        }
        if decoy {
            for (name, lit) in &names {
                b = match s(&lit["f"]) {
                    "int" => b.with_int_input(name, phi_inv(i(&lit["v"])).wrapping_add(12_345)),
                    "flt" => b.with_float_input(name, OrderedFloat(psi_inv(&lit["v"]) + 77.0)),
                    "bool" => b.with_bool_input(name, !lit["v"].as_bool().expect("bool")),
                    _ => return Err(format!("unsupported input literal {lit}")),
                };
            }
        }
        for (name, lit) in names {
            b = match s(&lit["f"]) {
                "int" => b.with_int_input(name, phi_inv(i(&lit["v"]))),
                "flt" => b.with_float_input(name, OrderedFloat(psi_inv(&lit["v"]))),
                "bool" => b.with_bool_input(name, lit["v"].as_bool().expect("bool")),
                _ => return Err(format!("unsupported input literal {lit}")),
            };
        }
    }
    Ok(b.build())
}

/// Lex the bytes one instruction wrote into spec output tokens.  `ins` is the instruction
/// that ran (inputs already resolved).  Anything unexpected becomes a `raw` token, which no
/// specification action produces.
pub fn lex_output(ins: &Value, delta: &str) -> Option<Vec<Value>> {
    let tok = |t: &str, v: Value| json!({"t": t, "v": v});
    let f = ins["f"].as_str().unwrap_or("");
    let o = ins["o"].as_str().unwrap_or("");
    let raw = || Some(vec![tok("raw", json!(delta))]);
    if f == "print" {
        return match o {
            "string" => Some(vec![tok("str", json!(delta))]),
            _ => Some(vec![tok("chr", json!(delta))]),
        };
    }
    if o == "print" || o == "println" {
        if delta.is_empty() {
            return Some(vec![]); // nothing was printed (the instruction failed)
        }
        let (body, nl) = if o == "println" {
            match delta.strip_suffix('\n') {
                Some(b) => (b, true),
                None => return raw(),
            }
        } else {
            (delta, false)
        };
        let t = match f {
            "int" => match body.parse::<i64>() {
                Ok(x) => tok("int", json!(phi(x)?)),
                Err(_) => return raw(),
            },
            "flt" => match body.parse::<f64>() {
                Ok(x) => tok("flt", psi(x)?),
                Err(_) => return raw(),
            },
            "bool" => match body.parse::<bool>() {
                Ok(x) => tok("bool", json!(x)),
                Err(_) => return raw(),
            },
            _ => return raw(),
        };
        let mut v = vec![t];
        if nl {
            v.push(tok("chr", json!("\n")));
        }
        return Some(v);
    }
    if delta.is_empty() {
        Some(vec![])
    } else {
        raw()
    }
}

/// The one place where the window map does not commute with an instruction: `int.mod` with a
/// dividend in an extreme window and a small divisor (i64::MAX and the spec's IntMax have
/// different residues for most divisors).  Such a step is not compared (DESIGN 3.2).
pub fn mod_not_comparable(ins: &Value, stacks: &Value) -> bool {
    if !(ins["f"] == "int" && ins["o"] == "mod") {
        return false;
    }
    let ints = arr(&stacks["int"]);
    if ints.len() < 2 {
        return false;
    }
    let (xs, ys) = (i(&ints[0]), i(&ints[1]));
    if xs.abs() <= W || ys.abs() > W || ys == 0 {
        return false;
    }
    let (xr, yr) = (phi_inv(xs), phi_inv(ys));
    xr.wrapping_rem(yr) != xs.wrapping_rem(ys)
}
