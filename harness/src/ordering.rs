//! C15: Score / Error / TestResult / TestResults / EcIndividual against spec/ec/Ordering.tla.

use std::cell::RefCell;
use std::cmp::Ordering;

use ec_core::{
    individual::{
        ec::{EcIndividual, IndividualGenerator, WithScorer},
        scorer::FnScorer,
        Individual,
    },
    operator::{genome_scorer::GenomeScorer, Operator},
    test_results::{Error, Score, TestResult, TestResults},
};
use rand::{distr::Distribution, Rng};
use serde_json::{json, Value};

use crate::util::{arg_req, arg_u64, arr, guarded, i, read_ndjson, run_rng, s, Out};

/// order-isomorphic embedding of the spec's -2..2 into i64 including the extremes
fn big(v: i64) -> i64 {
    match v {
        -2 => i64::MIN,
        2 => i64::MAX,
        x => x,
    }
}
fn small(v: i64) -> i64 {
    match v {
        i64::MIN => -2,
        i64::MAX => 2,
        x => x,
    }
}

fn ord(o: Ordering) -> &'static str {
    match o {
        Ordering::Less => "lt",
        Ordering::Equal => "eq",
        Ordering::Greater => "gt",
    }
}
fn pord(o: Option<Ordering>) -> &'static str {
    o.map_or("none", ord)
}

fn full<T: Ord + Copy>(a: T, b: T, back: impl Fn(T) -> i64) -> Value {
    json!({"cmp": ord(a.cmp(&b)), "pcmp": pord(a.partial_cmp(&b)), "eq": a == b, "lt": a < b,
           "le": a <= b, "gt": a > b, "ge": a >= b, "max": back(a.max(b)), "min": back(a.min(b))})
}
fn partial<T: PartialOrd>(a: &T, b: &T) -> Value {
    json!({"pcmp": pord(a.partial_cmp(b)), "eq": a == b, "lt": a < b, "le": a <= b, "gt": a > b, "ge": a >= b})
}

fn restrict(exp: &Value, keys: &Value) -> Value {
    let mut m = serde_json::Map::new();
    for k in keys.as_object().expect("obj").keys() {
        m.insert(k.clone(), exp[k].clone());
    }
    Value::Object(m)
}

fn vec_i64(v: &Value) -> Vec<i64> {
    arr(v).iter().map(i).collect()
}

fn observe(case: &Value) -> Vec<(String, Value)> {
    let mut out = Vec::new();
    match s(&case["t"]) {
        "pair" => {
            let (a, b) = (big(i(&case["a"])), big(i(&case["b"])));
            if case["kind"] == "score" {
                out.push(("Score".into(), full(Score(a), Score(b), |x| small(x.0))));
                let (ta, tb): (TestResult<i64, i64>, TestResult<i64, i64>) =
                    (TestResult::Score(Score(a)), TestResult::Score(Score(b)));
                out.push(("TestResult::Score".into(), partial(&ta, &tb)));
            } else {
                out.push(("Error".into(), full(Error(a), Error(b), |x| small(x.0))));
                let (ta, tb): (TestResult<i64, i64>, TestResult<i64, i64>) =
                    (TestResult::Error(Error(a)), TestResult::Error(Error(b)));
                out.push(("TestResult::Error".into(), partial(&ta, &tb)));
            }
        }
        "cross" => {
            let (a, b) = (big(i(&case["a"])), big(i(&case["b"])));
            let (ta, tb): (TestResult<i64, i64>, TestResult<i64, i64>) =
                (TestResult::Score(Score(a)), TestResult::Error(Error(b)));
            out.push(("score-vs-error".into(), partial(&ta, &tb)));
            out.push(("error-vs-score".into(), partial(&tb, &ta)));
        }
        _ => {
            let (r, sv) = (vec_i64(&case["r"]), vec_i64(&case["s"]));
            macro_rules! vecs {
                ($K:ident, $name:expr) => {{
                    let tr: TestResults<$K<i64>> = r.clone().into();
                    let ts: TestResults<$K<i64>> = sv.iter().copied().collect();
                    let kept = tr.results.iter().map(|x| x.0).collect::<Vec<_>>() == r
                        && ts.results.iter().map(|x| x.0).collect::<Vec<_>>() == sv
                        && tr.len() == r.len();
                    let mut o = json!({"cmp": ord(tr.cmp(&ts)), "total_r": tr.total_result.0, "total_s": ts.total_result.0});
                    if !kept { o["results_not_kept_in_order"] = json!(true); }
                    if tr.partial_cmp(&ts) != Some(tr.cmp(&ts)) { o["partial_cmp_disagrees"] = json!(true); }
                    // every way of producing a copy yields the same collection: results AND total
                    // (clone, clone_from onto a populated value, the element-wise clone_from of a Vec,
                    // building from borrowed values, the sums of Score / Error by value and by reference)
                    let total_of = |t: &TestResults<$K<i64>>| -> i64 { t.results.iter().map(|x| x.0).sum() };
                    let mut c1 = tr.clone();
                    c1.clone_from(&ts);
                    let mut c2 = vec![tr.clone(), ts.clone()];
                    c2.clone_from(&vec![ts.clone(), tr.clone()]);
                    let c3: TestResults<$K<i64>> = sv.iter().map(|v| $K(*v)).collect();
                    let by_val: $K<i64> = ts.results.iter().copied().sum();
                    let by_ref: $K<i64> = ts.results.iter().sum();
                    // one value REFILLED again and again (a recycled buffer): long, short, long; empty in between
                    let long: TestResults<$K<i64>> = (1..=9i64).chain(r.iter().copied()).collect();
                    let mut c4 = long.clone();
                    c4.clone_from(&ts);
                    let step1 = c4 == ts && c4.total_result.0 == total_of(&c4) && c4.results.len() == ts.results.len();
                    c4.clone_from(&long);
                    let step2 = c4 == long && c4.total_result.0 == total_of(&c4) && c4.results.len() == long.results.len();
                    c4.clone_from(&TestResults::<$K<i64>>::from(Vec::<i64>::new()));
                    c4.clone_from(&tr);
                    let step3 = c4 == tr && c4.total_result.0 == total_of(&c4) && c4.results.len() == tr.results.len();
                    let copies_ok = step1 && step2 && step3 && c1 == ts && c1.total_result.0 == total_of(&c1)
                        && c2[0] == ts && c2[1] == tr && c2[0].total_result.0 == total_of(&c2[0]) && c2[1].total_result.0 == total_of(&c2[1])
                        && c3 == ts && ts.clone() == ts
                        && by_val.0 == total_of(&ts) && by_ref.0 == total_of(&ts);
                    if !copies_ok { o["a_copy_differs_from_its_source"] = json!(true); }
                    out.push((format!("TestResults<{}>", $name), o));
                    let ia = EcIndividual::new(7u8, tr.clone());
                    let ib = EcIndividual::new(9u8, ts.clone());
                    let mut o = json!({"cmp": ord(ia.cmp(&ib)), "total_r": ia.test_results().total_result.0,
                                       "total_s": ib.test_results().total_result.0});
                    if ia.partial_cmp(&ib) != Some(ia.cmp(&ib)) { o["partial_cmp_disagrees"] = json!(true); }
                    if *ia.genome() != 7 || *ib.genome() != 9 { o["genome_changed"] = json!(true); }
                    out.push((format!("EcIndividual<TestResults<{}>>", $name), o));
                    // ... and with EQUAL genomes: the genome must play no part in the comparison
                    let ic = EcIndividual::new(7u8, ts.clone());
                    let mut o = json!({"cmp": ord(ia.cmp(&ic)), "total_r": ia.test_results().total_result.0,
                                       "total_s": ic.test_results().total_result.0});
                    if ia.partial_cmp(&ic) != Some(ia.cmp(&ic)) { o["partial_cmp_disagrees"] = json!(true); }
                    out.push((format!("EcIndividual<TestResults<{}>> (same genome)", $name), o));
                }};
            }
            if case["kind"] == "score" {
                vecs!(Score, "Score");
            } else {
                vecs!(Error, "Error");
            }
        }
    }
    out
}

pub fn replay(args: &[String]) -> i32 {
    let cases = read_ndjson(arg_req(args, "--cases"));
    let mut out = Out::create(arg_req(args, "--out"));
    let (mut n, mut bad) = (0u64, 0u64);
    for c in &cases {
        match guarded(|| observe(&c["case"])) {
            Ok(obs) => {
                for (what, ob) in obs {
                    n += 1;
                    let clean = ob.as_object().expect("o").keys().all(|k| c["exp"].get(k).is_some());
                    if !clean || restrict(&c["exp"], &ob) != ob {
                        bad += 1;
                        out.line(&json!({"kind": "mismatch", "case": c, "on": what, "observed": ob}));
                    }
                }
            }
            Err(m) => {
                n += 1;
                bad += 1;
                out.line(&json!({"kind": "mismatch", "case": c, "on": "panic", "observed": {"panic": m}}));
            }
        }
    }
    // "the total always equals the sum of the per-case results kept in the order given" for LONG
    // vectors of EXTREME values: the values are drawn so that the in-order running sum never leaves
    // i64 (any regrouping of the additions may), and for floats so that the order of additions
    // matters (1e16 + 1 + 1 + ... ); the expected total is the in-order sum
    let mut rng = run_rng(0, 0xC15, 77);
    for k in 0..300u64 {
        let len = [8usize, 9, 10, 16, 17, 31, 33, 64, 65, 100][rng.random_range(0..10)];
        let mut run: i128 = 0;
        let vals: Vec<i64> = (0..len)
            .map(|_| {
                let (lo, hi) = (i128::from(i64::MIN) - run.min(0), i128::from(i64::MAX) - run.max(0));
                let v: i128 = match rng.random_range(0..10) {
                    0 | 1 => hi - i128::from(rng.random_range(0..3u8)),
                    2 | 3 => lo + i128::from(rng.random_range(0..3u8)),
                    _ => i128::from(rng.random_range(-9i64..10)),
                };
                let v = v.clamp(lo.max(i128::from(i64::MIN)), hi.min(i128::from(i64::MAX)));
                run += v;
                i64::try_from(v).expect("clamped")
            })
            .collect();
        let want = i64::try_from(run).expect("in range");
        let floats: Vec<f64> = (0..len).map(|j| if j % 11 == 0 { 1e16 } else if rng.random_range(0..4) == 0 { -1e16 } else { 1.0 }).collect();
        let fwant = floats.iter().fold(0.0f64, |a, x| a + x);
        let ob = guarded(|| {
            use ordered_float::OrderedFloat;
            let a: TestResults<Score<i64>> = vals.clone().into();
            let b: TestResults<Error<i64>> = vals.iter().copied().collect();
            let c: TestResults<Score<OrderedFloat<f64>>> = floats.iter().map(|x| OrderedFloat(*x)).collect();
            let d: TestResults<Error<OrderedFloat<f64>>> = floats.iter().map(|x| OrderedFloat(*x)).collect::<Vec<_>>().into();
            json!({"score_total": a.total_result.0, "error_total": b.total_result.0,
                   "float_score_total_bits": c.total_result.0 .0.to_bits().to_string(),
                   "float_error_total_bits": d.total_result.0 .0.to_bits().to_string()})
        })
        .unwrap_or_else(|m| json!({"panic": m}));
        let exp = json!({"score_total": want, "error_total": want, "float_score_total_bits": fwant.to_bits().to_string(),
                         "float_error_total_bits": fwant.to_bits().to_string()});
        n += 1;
        if ob != exp {
            bad += 1;
            out.line(&json!({"kind": "mismatch", "case": {"case": {"t": "long_total", "kind": "score", "r": vals, "floats": floats, "k": k}, "exp": exp},
                             "on": "TestResults total of a long vector", "observed": ob}));
        }
    }
    // "an individual compares as its result does" for results that are only PARTIALLY ordered (floats
    // with NaN): every pair, an individual with ITSELF (the same object) and with a copy of itself
    {
        let vals = [f64::NAN, 0.0, -0.0, 1.5, f64::INFINITY, f64::NEG_INFINITY];
        let inds: Vec<EcIndividual<u8, Score<f64>>> = vals.iter().enumerate().map(|(k, v)| EcIndividual::new(k as u8 % 2, Score(*v))).collect();
        let copies = inds.clone();
        for (a, ia) in inds.iter().enumerate() {
            for (b, ib) in inds.iter().enumerate().chain(copies.iter().enumerate()) {
                n += 1;
                let want = Score(vals[a]).partial_cmp(&Score(vals[b]));
                let ob = guarded(|| (ia.partial_cmp(ib), ia < ib, ia <= ib, ia > ib, ia >= ib));
                let exp = (want, want == Some(Ordering::Less), matches!(want, Some(Ordering::Less | Ordering::Equal)),
                           want == Some(Ordering::Greater), matches!(want, Some(Ordering::Greater | Ordering::Equal)));
                if ob.as_ref().ok() != Some(&exp) {
                    bad += 1;
                    out.line(&json!({"kind": "mismatch", "case": {"case": {"t": "float_individuals", "kind": "score", "a": format!("{}", vals[a]), "b": format!("{}", vals[b]),
                                     "same_object": std::ptr::eq(ia, ib)}, "exp": {"partial_cmp_lt_le_gt_ge": format!("{exp:?}")}},
                                     "on": "EcIndividual<Score<f64>> compared as its result", "observed": {"partial_cmp_lt_le_gt_ge": format!("{ob:?}")}}));
                }
            }
        }
    }
    // ... and for results whose TOTAL is not ordered although every single result is (no NaN among the results,
    // NaN as their sum: inf + -inf): an individual compares as its total does - against another individual, a
    // copy of itself (equal results!) and itself
    {
        let vecs: [&[f64]; 6] = [&[f64::INFINITY, 1.0, f64::NEG_INFINITY], &[f64::MAX, f64::MAX, f64::NEG_INFINITY],
                                 &[1.0, 2.0], &[3.0], &[f64::NEG_INFINITY, f64::INFINITY], &[f64::INFINITY, 1.0]];
        macro_rules! unordered {
            ($kind:expr, $ctor:expr, $R:ty) => {{
                let inds: Vec<EcIndividual<u8, TestResults<$R>>> = vecs.iter().map(|v| EcIndividual::new(0, v.iter().map(|x| $ctor(*x)).collect())).collect();
                let copies = inds.clone();
                for (a, ia) in inds.iter().enumerate() {
                    for (b, ib) in inds.iter().enumerate().chain(copies.iter().enumerate()) {
                        n += 1;
                        let want = ia.test_results.total_result.partial_cmp(&ib.test_results.total_result);
                        let ob = guarded(|| (ia.partial_cmp(ib), ia.test_results.partial_cmp(&ib.test_results), ia < ib, ia <= ib, ia > ib, ia >= ib));
                        let exp = (want, want, want == Some(Ordering::Less), matches!(want, Some(Ordering::Less | Ordering::Equal)),
                                   want == Some(Ordering::Greater), matches!(want, Some(Ordering::Greater | Ordering::Equal)));
                        if ob.as_ref().ok() != Some(&exp) {
                            bad += 1;
                            out.line(&json!({"kind": "mismatch", "case": {"case": {"t": "unordered_totals", "kind": $kind, "a": format!("{:?}", vecs[a]), "b": format!("{:?}", vecs[b]),
                                             "same_object": std::ptr::eq(ia, ib)}, "exp": {"ind_results_lt_le_gt_ge": format!("{exp:?}")}},
                                             "on": "EcIndividual<TestResults<f64>> whose total is NaN compared as its total", "observed": {"ind_results_lt_le_gt_ge": format!("{ob:?}")}}));
                        }
                    }
                }
            }};
        }
        unordered!("score", Score, Score<f64>);
        unordered!("error", Error, Error<f64>);
    }
    // ... and the bare results themselves: every comparison operator of Score<f64> and Error<f64> says
    // what partial_cmp says (a score orders as its value, an error the other way round; NaN is not
    // ordered against anything)
    {
        let vals = [f64::NAN, 0.0, -0.0, 1.5, f64::INFINITY, f64::NEG_INFINITY, f64::MIN_POSITIVE / 2.0];
        for kind in ["score", "error"] {
            for a in vals {
                for b in vals {
                    n += 1;
                    let want = if kind == "score" { a.partial_cmp(&b) } else { b.partial_cmp(&a) };
                    let ob = guarded(|| {
                        if kind == "score" {
                            let (x, y) = (Score(a), Score(b));
                            (x.partial_cmp(&y), x < y, x <= y, x > y, x >= y, x == y)
                        } else {
                            let (x, y) = (Error(a), Error(b));
                            (x.partial_cmp(&y), x < y, x <= y, x > y, x >= y, x == y)
                        }
                    });
                    let exp = (want, want == Some(Ordering::Less), matches!(want, Some(Ordering::Less | Ordering::Equal)),
                               want == Some(Ordering::Greater), matches!(want, Some(Ordering::Greater | Ordering::Equal)), want == Some(Ordering::Equal));
                    if ob.as_ref().ok() != Some(&exp) {
                        bad += 1;
                        out.line(&json!({"kind": "mismatch", "case": {"case": {"t": "float_results", "kind": kind, "a": format!("{a}"), "b": format!("{b}")},
                                         "exp": {"partial_cmp_lt_le_gt_ge_eq": format!("{exp:?}")}},
                                         "on": "float result compared", "observed": {"partial_cmp_lt_le_gt_ge_eq": format!("{ob:?}")}}));
                    }
                }
            }
        }
    }
    out.line(&json!({"kind": "summary", "cases": n, "mismatches": bad}));
    out.finish();
    0
}

/// genome distribution that records what it made
struct Maker<'a>(&'a RefCell<Vec<Vec<u8>>>);
impl Distribution<Vec<u8>> for Maker<'_> {
    fn sample<R: Rng + ?Sized>(&self, rng: &mut R) -> Vec<u8> {
        let n = rng.random_range(0..5);
        let g: Vec<u8> = (0..n).map(|_| rng.random_range(0..4)).collect();
        self.0.borrow_mut().push(g.clone());
        g
    }
}
/// makes a genome from a population of individuals that were scored EARLIER, by something else (their
/// results are stale): half of the time an exact copy of a member's genome, otherwise a varied one
struct MakerOp<'a>(&'a RefCell<Vec<Vec<u8>>>);
type ScoredPop = Vec<EcIndividual<Vec<u8>, i64>>;
impl ec_core::operator::Composable for MakerOp<'_> {}
impl<'p> Operator<&'p ScoredPop> for MakerOp<'_> {
    type Output = Vec<u8>;
    type Error = std::convert::Infallible;
    fn apply<R: Rng + ?Sized>(&self, pop: &'p ScoredPop, rng: &mut R) -> Result<Vec<u8>, Self::Error> {
        let mut g = pop[rng.random_range(0..pop.len())].genome.clone();
        if rng.random() {
            g.push(rng.random_range(0..4));
        }
        self.0.borrow_mut().push(g.clone());
        Ok(g)
    }
}

/// impl -> spec for the construction clause: what the genome maker made, what the scorer was
/// shown and returned, what the individual carries.
pub fn construct_trace(args: &[String]) -> i32 {
    let seed = arg_u64(args, "--seed", 0);
    let runs = arg_u64(args, "--runs", 100);
    let mut out = Out::create(arg_req(args, "--out"));
    for run in 0..runs {
        let mut rng = run_rng(seed, 0xC15, run);
        let made = RefCell::new(Vec::new());
        let scored: RefCell<Vec<(Vec<u8>, i64)>> = RefCell::new(Vec::new());
        let scorer = FnScorer(|g: &Vec<u8>| {
            let r: i64 = g.iter().map(|x| i64::from(*x)).sum::<i64>() * 10 + g.len() as i64;
            scored.borrow_mut().push((g.clone(), r));
            r
        });
        let via = if run % 2 == 0 { "IndividualGenerator" } else { "GenomeScorer" };
        let (ig, ir) = if run % 2 == 0 {
            let gen: IndividualGenerator<_, _> = Maker(&made).with_scorer(scorer);
            let ind: EcIndividual<Vec<u8>, i64> = gen.sample(&mut rng);
            (ind.genome, ind.test_results)
        } else {
            let op = GenomeScorer::new(MakerOp(&made), scorer);
            let pop: ScoredPop = vec![EcIndividual::new(vec![1, 2], -7), EcIndividual::new(vec![3], -8), EcIndividual::new(vec![], -9)];
            let Ok(ind) = op.apply(&pop, &mut rng);
            (ind.genome, ind.test_results)
        };
        let sc = scored.borrow();
        out.line(&json!({"ev": "built", "run": run, "via": via, "made": *made.borrow(),
                         "scored": sc.iter().map(|(g, _)| g.clone()).collect::<Vec<_>>(),
                         "scores": sc.iter().map(|(_, r)| *r).collect::<Vec<_>>(),
                         "ind_genome": ig, "ind_result": ir}));
    }
    out.finish();
    0
}
