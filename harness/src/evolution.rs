//! Whole evolutionary runs assembled like the repository's `count_ones` example, validated
//! against spec/ec/Evolution.tla (Trace_Evolution).
//!
//! Everything that decides anything is the repository's: `DynWeighted` over `Best`, `Lexicase`,
//! `Tournament::binary()`, `Random`; `Select::new(..).apply_twice()`; `then_map(GenomeExtractor)`;
//! `Recombine::new(TwoPointXo | UniformXo)`; `Mutate::new(WithOneOverLength | WithRate)`;
//! `.wrap::<GenomeScorer<_, _>>(scorer)`; `Generation::serial_next / par_next`. The harness adds
//! pass-through `Tap` operators between the stages (they log what flows by) and two carriers
//! that pick the crossover / mutation by configuration.

use std::cell::RefCell;
use std::convert::Infallible;
use std::sync::Mutex;

use ec_core::{
    generation::Generation,
    individual::{ec::EcIndividual, scorer::FnScorer},
    operator::{
        genome_extractor::GenomeExtractor,
        genome_scorer::GenomeScorer,
        mutator::{Mutate, Mutator},
        recombinator::{Recombinator, Recombine},
        selector::{best::Best, dyn_weighted::DynWeighted, lexicase::Lexicase, random::Random, tournament::Tournament, Select},
        Composable, Operator,
    },
    test_results::{Score, TestResults},
};
use ec_linear::{
    genome::bitstring::Bitstring,
    mutator::{with_one_over_length::WithOneOverLength, with_rate::WithRate},
    recombinator::{two_point_xo::TwoPointXo, uniform_xo::UniformXo},
};
use rand::Rng;
use serde_json::{json, Value};

use crate::util::{arg_req, arg_u64, guarded, run_rng, Out};

type Ind = EcIndividual<Bitstring, TestResults<Score<i64>>>;
type Pop = Vec<Ind>;

thread_local! {
    /// what the taps saw during the current application of the child maker (one thread, one child)
    static STAGES: RefCell<Vec<(&'static str, Value)>> = const { RefCell::new(Vec::new()) };
}
static EVENTS: Mutex<Vec<Value>> = Mutex::new(Vec::new());
static POP_ADDRS: Mutex<Vec<usize>> = Mutex::new(Vec::new());

fn bits_json(b: &Bitstring) -> Value {
    json!(b.bits.iter().map(|x| u8::from(*x)).collect::<Vec<_>>())
}

trait Show {
    fn show(&self) -> Value;
}
impl Show for [&Ind; 2] {
    /// which members of the population (1-based; 0 = not an element of it)
    fn show(&self) -> Value {
        let addrs = POP_ADDRS.lock().expect("lock");
        json!(self.iter().map(|r| {
            let a = std::ptr::from_ref::<Ind>(*r) as usize;
            addrs.iter().position(|x| *x == a).map_or(0, |k| k + 1)
        }).collect::<Vec<_>>())
    }
}
impl Show for [Bitstring; 2] {
    fn show(&self) -> Value {
        json!([bits_json(&self[0]), bits_json(&self[1])])
    }
}
impl Show for Bitstring {
    fn show(&self) -> Value {
        bits_json(self)
    }
}

/// pass-through operator: logs the value and hands it on untouched
struct Tap(&'static str);
impl Composable for Tap {}
impl<T: Show> Operator<T> for Tap {
    type Output = T;
    type Error = Infallible;
    fn apply<R: Rng + ?Sized>(&self, x: T, _: &mut R) -> Result<T, Infallible> {
        STAGES.with(|s| s.borrow_mut().push((self.0, x.show())));
        Ok(x)
    }
}

#[derive(Debug)]
struct VarErr(String);
impl std::fmt::Display for VarErr {
    fn fmt(&self, f: &mut std::fmt::Formatter<'_>) -> std::fmt::Result {
        f.write_str(&self.0)
    }
}
impl std::error::Error for VarErr {}

#[derive(Clone, Copy)]
enum XoKind { TwoPoint, Uniform, None }
struct XoCarrier(XoKind);
impl Recombinator<[Bitstring; 2]> for XoCarrier {
    type Output = Bitstring;
    type Error = VarErr;
    fn recombine<R: Rng + ?Sized>(&self, gs: [Bitstring; 2], rng: &mut R) -> Result<Bitstring, VarErr> {
        match self.0 {
            XoKind::TwoPoint => TwoPointXo.recombine(gs, rng).map_err(|e| VarErr(format!("{e:?}"))),
            XoKind::Uniform => UniformXo.recombine(gs, rng).map_err(|e| VarErr(format!("{e:?}"))),
            XoKind::None => { let [a, _] = gs; Ok(a) }
        }
    }
}
#[derive(Clone, Copy)]
enum MutKind { OneOverLength, Rate0, Rate1, None }
struct MutCarrier(MutKind);
impl Mutator<Bitstring> for MutCarrier {
    type Error = VarErr;
    fn mutate<R: Rng + ?Sized>(&self, g: Bitstring, rng: &mut R) -> Result<Bitstring, VarErr> {
        match self.0 {
            MutKind::OneOverLength => WithOneOverLength.mutate(g, rng).map_err(|e| VarErr(format!("{e:?}"))),
            MutKind::Rate0 => { let Ok(c) = WithRate::new(0.0).mutate(g, rng); Ok(c) }
            MutKind::Rate1 => { let Ok(c) = WithRate::new(1.0).mutate(g, rng); Ok(c) }
            MutKind::None => Ok(g),
        }
    }
}

fn count_ones(b: &Bitstring) -> TestResults<Score<i64>> {
    b.bits.iter().copied().map(i64::from).collect()
}

fn ind_json(i: &Ind) -> Value {
    json!({"g": bits_json(&i.genome), "res": i.test_results.results.iter().map(|s| s.0).collect::<Vec<_>>(),
           "total": i.test_results.total_result.0})
}

pub fn trace(args: &[String]) -> i32 {
    let seed = arg_u64(args, "--seed", 0);
    let runs = arg_u64(args, "--runs", 50);
    let first = arg_u64(args, "--first-run", 0);
    let mut out = Out::create(arg_req(args, "--out"));
    for run in first..first + runs {
        let mut rng = run_rng(seed, 0xE70, run);
        let n = match rng.random_range(0..12) { 0 => 0usize, 1 => 1, _ => rng.random_range(2..=6) };
        let l = match rng.random_range(0..10) { 0 => 0usize, 1 => 1, _ => rng.random_range(2..=5) };
        let serial = rng.random_range(0..3) == 0;
        let threads = [1usize, 2, 4, 8][rng.random_range(0..4)];
        let steps = rng.random_range(1..=3);
        // the weighted mix: each selector with weight 0 or positive, at least one positive; a binary
        // tournament needs two members
        let mut w = [0usize; 4];
        loop {
            for (k, x) in w.iter_mut().enumerate() {
                *x = [0usize, 0, 1, 3, 7][rng.random_range(0..5)];
                if k == 2 && n < 2 { *x = 0; }
            }
            if w.iter().any(|x| *x > 0) { break; }
        }
        let names = ["best", "lexicase", "tournament2", "random"];
        let sels: Vec<&str> = names.iter().zip(&w).filter(|(_, x)| **x > 0).map(|(s, _)| *s).collect();
        let (xo, xo_name) = [(XoKind::TwoPoint, "two_point"), (XoKind::TwoPoint, "two_point"), (XoKind::Uniform, "uniform"), (XoKind::None, "none")][rng.random_range(0..4)];
        let (mu, mu_name) = [(MutKind::OneOverLength, "one_over_length"), (MutKind::Rate0, "rate0"), (MutKind::Rate1, "rate1"), (MutKind::None, "none"), (MutKind::Rate0, "rate0")][rng.random_range(0..5)];
        let pop: Pop = (0..n).map(|_| {
            let g = Bitstring { bits: (0..l).map(|_| rng.random_range(0..3) == 0).collect() };
            let r = count_ones(&g);
            EcIndividual::new(g, r)
        }).collect();
        out.line(&json!({"ev": "reset", "run": run, "n": n, "l": l, "sels": sels, "xo": xo_name, "mut": mu_name,
                         "mode": if serial { "serial" } else { "par" }, "threads": threads,
                         "pop": pop.iter().map(|i| bits_json(&i.genome)).collect::<Vec<_>>()}));
        let res = guarded(|| {
            let selector = DynWeighted::new(Best, w[0])
                .with_selector(Lexicase::new(l), w[1])
                .with_selector(Tournament::binary(), w[2])
                .with_selector(Random, w[3]);
            let scorer = FnScorer(|g: &Bitstring| {
                let r = count_ones(g);
                // the last stage of one child: emit the event of this application
                let stages: Vec<(&'static str, Value)> = STAGES.with(|s| std::mem::take(&mut *s.borrow_mut()));
                let mut ev = json!({"ev": "child", "scored": {"g": bits_json(g), "res": r.results.iter().map(|s| s.0).collect::<Vec<_>>(),
                                    "total": r.total_result.0}, "stages": stages.len()});
                for (name, v) in stages {
                    ev[name] = v;
                }
                EVENTS.lock().expect("lock").push(ev);
                r
            });
            let maker = Select::new(selector)
                .apply_twice()
                .then(Tap("parents"))
                .then_map(GenomeExtractor)
                .then(Tap("extracted"))
                .then(Recombine::new(XoCarrier(xo)))
                .then(Tap("xo"))
                .then(Mutate::new(MutCarrier(mu)))
                .then(Tap("mut"))
                .wrap::<GenomeScorer<_, _>>(scorer);
            let pool = rayon::ThreadPoolBuilder::new().num_threads(threads).build().expect("pool");
            let mut g = Generation::new(maker, pop);
            let mut lines: Vec<Value> = Vec::new();
            for _ in 0..steps {
                *POP_ADDRS.lock().expect("lock") = g.population().iter().map(|p| std::ptr::from_ref::<Ind>(p) as usize).collect();
                EVENTS.lock().expect("lock").clear();
                let r = if serial { g.serial_next() } else { pool.install(|| g.par_next()) };
                for mut ev in std::mem::take(&mut *EVENTS.lock().expect("lock")) {
                    ev["run"] = json!(run);
                    lines.push(ev);
                }
                lines.push(json!({"ev": "return", "run": run, "ok": r.is_ok(), "err": r.err().map_or(String::new(), |e| format!("{e:?}")),
                                  "pop_after": g.population().iter().map(ind_json).collect::<Vec<_>>()}));
            }
            lines
        });
        match res {
            Ok(lines) => {
                for ln in lines {
                    out.line(&ln);
                }
            }
            Err(m) => out.line(&json!({"ev": "panic", "run": run, "msg": m})),
        }
    }
    out.finish();
    0
}
