//! The scoring pipeline of the `push` examples (examples/median and friends) end to end, against
//! spec/gp/PushGP.tla: `Vec::<PushProgram>::from(genome)`, the generated builder
//! (`with_max_stack_size`, `with_program`, `with_*_input`, `with_instruction_step_limit`),
//! `run_to_completion`, `|answer - expected|` or the penalty, `Cases` for the training cases,
//! `FnScorer` and `TestResults<Error<i128>>` for the individual.
//!
//! `trace`: random genomes over the crate's whole instruction list (impl -> spec);
//! `replay`: the genomes TLC enumerated with the outcomes PushGP allows (spec -> impl).

use std::cell::RefCell;

use ec_core::{
    individual::{
        ec::EcIndividual,
        scorer::{FnScorer, Scorer},
    },
    test_results::{self, TestResults},
};
use ordered_float::OrderedFloat;
use push::{
    evaluation::{Case, Cases},
    genome::plushy::{Plushy, PushGene},
    instruction::{NumOpens, PushInstruction},
    push_vm::{program::PushProgram, push_state::PushState, stack::StackError, HasStack, State},
};
use rand::{seq::IndexedRandom, Rng};
use serde_json::{json, Value};

use crate::proj::{instr_from_json, instr_to_json, item_to_json, phi, phi_inv, psi, psi_inv, W};
use crate::util::{arg_req, arg_u64, arr, guarded, i, read_ndjson, run_rng, s, Out};
use crate::vm::{instruction_pool, observe_steps, read_output};

/// the inputs of one training case, in the vocabulary of the specification (name -> literal)
#[derive(Clone)]
struct Inp(Value);

thread_local! {
    /// what each case printed / how it ended, in the order the scorer ran them
    static SIDE: RefCell<Vec<(String, &'static str)>> = const { RefCell::new(Vec::new()) };
}

fn build_state(program: &[PushProgram], Inp(inputs): &Inp, m: usize, limit: usize) -> Result<PushState, StackError> {
    let mut b = PushState::builder()
        .with_max_stack_size(m)
        .with_program(program.to_vec())?
        .with_instruction_step_limit(limit);
    for (name, lit) in inputs.as_object().expect("inputs") {
        b = match s(&lit["f"]) {
            "int" => b.with_int_input(name, phi_inv(i(&lit["v"]))),
            "flt" => b.with_float_input(name, OrderedFloat(psi_inv(&lit["v"]))),
            _ => b.with_bool_input(name, lit["v"].as_bool().expect("bool")),
        };
    }
    Ok(b.build())
}

/// as `run_case` / `compute_error` of examples/median
fn run_case(case: &Case<Inp, i64>, program: &[PushProgram], m: usize, limit: usize, penalty: i128) -> i128 {
    let Ok(start) = build_state(program, &case.input, m, limit) else {
        SIDE.with(|x| x.borrow_mut().push((String::new(), "unbuilt")));
        return penalty;
    };
    match start.run_to_completion() {
        Err(_) => {
            SIDE.with(|x| x.borrow_mut().push((String::new(), "fatal")));
            penalty
        }
        Ok(mut fin) => {
            let text = read_output(&mut fin);
            let e = fin
                .stack::<i64>()
                .top()
                .map_or(penalty, |a| i128::from(*a).saturating_sub(i128::from(case.output)).abs());
            let kind = if fin.stack::<i64>().top().is_ok_and(|a| a.unsigned_abs() > (W / 2) as u64) { "far" } else { "done" };
            SIDE.with(|x| x.borrow_mut().push((text, kind)));
            e
        }
    }
}

fn score_genome(g: &Plushy, cases: &Cases<Inp, i64>, m: usize, limit: usize, penalty: i128) -> TestResults<test_results::Error<i128>> {
    let program = Vec::<PushProgram>::from(g.clone());
    cases.iter().map(|c| run_case(c, &program, m, limit, penalty)).collect()
}

const SMALL_INTS: [i64; 12] = [0, 1, -1, 2, 3, -3, 7, 10, 63, 1 << 20, -4, 5];
const FLTS: [f64; 9] = [0.0, 1.0, -1.0, 0.5, 1.5, 2.0, -2.5, 8.0, 100.25];

fn random_gene<R: Rng>(rng: &mut R, pool: &[PushInstruction]) -> PushGene {
    match rng.random_range(0..100) {
        0..=15 => PushGene::Close,
        16..=33 => PushInstruction::push_int(*SMALL_INTS.choose(rng).expect("pool")).into(),
        34 => PushInstruction::push_int([i64::MAX, i64::MIN][rng.random_range(0..2)]).into(),
        35..=40 => PushInstruction::push_float(OrderedFloat(*FLTS.choose(rng).expect("pool"))).into(),
        41..=47 => PushInstruction::push_bool(rng.random()).into(),
        48..=57 => push::instruction::variable_name::VariableName::from(*["x", "y", "b", "X"].choose(rng).expect("names")).into(),
        _ => pool.choose(rng).expect("pool").clone().into(),
    }
}

fn gene_json(g: &PushGene) -> Option<Value> {
    Some(match g {
        PushGene::Close => json!({"c": true}),
        PushGene::Instruction(ins) => json!({"o": ins.num_opens(), "t": instr_to_json(ins)?}),
    })
}

/// Score `genes` on `cases` through the real pipeline; the events after `reset` (or one `cutrun`).
fn score_events(run: u64, genes: Vec<PushGene>, program_json: &[Value], cases_json: &[Value], m: usize, limit: usize, penalty: i128) -> Vec<Value> {
    // the training cases as a real `Cases` collection (built two ways)
    let pairs = cases_json.iter().map(|c| (Inp(c["inputs"].clone()), i(&c["expected"])));
    let training: Cases<Inp, i64> = if run % 2 == 0 {
        pairs.collect()
    } else {
        pairs.fold(Cases::new(), |acc, c| acc.with_case(c))
    };
    SIDE.with(|x| x.borrow_mut().clear());
    let scorer = FnScorer(|g: &Plushy| score_genome(g, &training, m, limit, penalty));
    let genome = Plushy::new(genes);
    let made = guarded(|| {
        let r = scorer.score(&genome);
        EcIndividual::new(genome.clone(), r)
    });
    let ind = match made {
        Ok(x) => x,
        Err(msg) => return vec![json!({"ev": "panic", "run": run, "msg": msg})],
    };
    let side: Vec<(String, &'static str)> = SIDE.with(|x| std::mem::take(&mut *x.borrow_mut()));
    let results: Vec<i128> = ind.test_results.results.iter().map(|e| e.0).collect();
    if side.len() != cases_json.len() || results.len() != cases_json.len() {
        return vec![json!({"ev": "scored", "run": run, "results": results.iter().map(ToString::to_string).collect::<Vec<_>>(),
                           "total": "wrong number of results", "ran": side.len()})];
    }
    let mut evs = Vec::new();
    let max = json!({"exec": m, "int": m, "flt": m, "bool": m});
    for (k, c) in cases_json.iter().enumerate() {
        let (text, kind) = &side[k];
        let out: Value = match *kind {
            "unbuilt" | "fatal" => json!([]),
            "far" => return vec![json!({"ev": "cutrun", "run": run, "why": "answer outside the small window"})],
            _ => {
                // the step-by-step observer tells whether a number left the windows on the way and
                // lexes the printed text into the specification's tokens
                let sv = json!({"exec": program_json, "int": [], "flt": [], "bool": []});
                let seq = observe_steps(&sv, &max, &c["inputs"], limit);
                if seq.cut {
                    return vec![json!({"ev": "cutrun", "run": run, "why": "a number left the windows"})];
                }
                let last_text = seq.obs.last().map_or("", |(o, _)| o.text.as_str());
                if last_text == text {
                    Value::Array(seq.obs.iter().flat_map(|(_, t)| t.clone()).collect())
                } else {
                    json!([{"t": "raw", "v": text}])
                }
            }
        };
        let Ok(e) = i64::try_from(results[k]) else {
            return vec![json!({"ev": "cutrun", "run": run, "why": "error beyond 64 bits"})];
        };
        if e.abs() > W {
            return vec![json!({"ev": "cutrun", "run": run, "why": "error outside the small window"})];
        }
        evs.push(json!({"ev": "case", "run": run, "k": k + 1, "e": e, "out": out, "ended": kind}));
    }
    let total = ind.test_results.total_result.0;
    evs.push(json!({"ev": "scored", "run": run, "results": results.iter().map(|e| *e as i64).collect::<Vec<_>>(),
                    "total": i64::try_from(total).unwrap_or(i64::MIN), "genome_kept": ind.genome == genome}));
    evs
}

pub fn trace(args: &[String]) -> i32 {
    let seed = arg_u64(args, "--seed", 0);
    let runs = arg_u64(args, "--runs", 50);
    let first = arg_u64(args, "--first-run", 0);
    let mut out = Out::create(arg_req(args, "--out"));
    let pool = instruction_pool();
    let (mut cuts, mut events) = (0u64, 0u64);
    for run in first..first + runs {
        let mut rng = run_rng(seed, 0x69, run);
        let ngenes = rng.random_range(0..=30);
        let genes: Vec<PushGene> = (0..ngenes).map(|_| random_gene(&mut rng, &pool)).collect();
        let toplen = guarded(|| Vec::<PushProgram>::from(Plushy::new(genes.clone())).len()).unwrap_or(0);
        let m = if rng.random_range(0..5) == 0 { rng.random_range(0..=6) } else { toplen + rng.random_range(0..=10) };
        let limit = rng.random_range(0..=50usize);
        let penalty: i128 = [1000, 7, 1][rng.random_range(0..3)];
        let cases_json: Vec<Value> = (0..rng.random_range(0..=3))
            .map(|_| {
                json!({"inputs": {
                    "x": {"f": "int", "o": "push", "v": phi(*SMALL_INTS.choose(&mut rng).expect("p")).expect("w")},
                    "y": {"f": "flt", "o": "push", "v": psi(*FLTS.choose(&mut rng).expect("p")).expect("g")},
                    "b": {"f": "bool", "o": "push", "v": rng.random::<bool>()},
                    "X": {"f": "int", "o": "push", "v": phi(*SMALL_INTS.choose(&mut rng).expect("p")).expect("w")},
                }, "expected": rng.random_range(-5..=5)})
            })
            .collect();
        let genes_json: Option<Vec<Value>> = genes.iter().map(gene_json).collect();
        let program: Result<Vec<PushProgram>, String> = guarded(|| Plushy::new(genes.clone()).into());
        let program_json: Option<Vec<Value>> = program.as_ref().ok().and_then(|p| p.iter().map(item_to_json).collect());
        let (Some(gj), Some(pj)) = (genes_json, program_json) else {
            cuts += 1;
            continue;
        };
        out.line(&json!({"ev": "reset", "run": run, "genes": gj, "program": pj, "m": m, "limit": limit,
                         "penalty": penalty as i64, "cases": cases_json}));
        events += 1;
        for ev in score_events(run, genes, &pj, &cases_json, m, limit, penalty) {
            if ev["ev"] == "cutrun" {
                cuts += 1;
            }
            out.line(&ev);
            events += 1;
        }
    }
    out.finish();
    println!("{}", json!({"cuts": cuts, "events": events, "runs": runs}));
    0
}

/// spec -> impl: every genome TLC enumerated, with the set of outcomes PushGP allows per case.
pub fn replay(args: &[String]) -> i32 {
    let cases = read_ndjson(arg_req(args, "--cases"));
    let mut out = Out::create(arg_req(args, "--out"));
    let (mut n, mut bad) = (0u64, 0u64);
    for c in &cases {
        n += 1;
        let genes: Vec<PushGene> = arr(&c["genes"])
            .iter()
            .map(|g| if g.get("c").is_some() { PushGene::Close } else { PushGene::Instruction(instr_from_json(&g["t"])) })
            .collect();
        let m = c["m"].as_u64().expect("m") as usize;
        let limit = c["limit"].as_u64().expect("limit") as usize;
        let penalty = i128::from(i(&c["penalty"]));
        let program: Result<Vec<PushProgram>, String> = guarded(|| Plushy::new(genes.clone()).into());
        let pj: Option<Vec<Value>> = program.as_ref().ok().and_then(|p| p.iter().map(item_to_json).collect());
        let mut why = None;
        let mut observed = json!(null);
        match pj {
            None => why = Some("translation".to_string()),
            Some(pj) => {
                if Value::Array(pj.clone()) != c["program"] {
                    why = Some("program".to_string());
                    observed = Value::Array(pj.clone());
                } else {
                    let evs = score_events(n, genes, &pj, arr(&c["cases"]), m, limit, penalty);
                    observed = Value::Array(evs.clone());
                    for ev in &evs {
                        match s(&ev["ev"]) {
                            "case" => {
                                let k = ev["k"].as_u64().expect("k") as usize;
                                let ok = arr(&c["allowed"][k - 1]).iter().any(|a| a["e"] == ev["e"] && a["out"] == ev["out"]);
                                if !ok && why.is_none() {
                                    why = Some(format!("case{k}"));
                                }
                            }
                            "scored" => {
                                let sum: i64 = arr(&ev["results"]).iter().map(i).sum();
                                if ev["total"] != json!(sum) || ev["genome_kept"] != json!(true) {
                                    why.get_or_insert("scored".to_string());
                                }
                            }
                            other => {
                                why.get_or_insert(other.to_string());
                            }
                        }
                    }
                    if evs.len() != arr(&c["cases"]).len() + 1 {
                        why.get_or_insert("events".to_string());
                    }
                }
            }
        }
        if let Some(w) = why {
            bad += 1;
            out.line(&json!({"kind": "mismatch", "case": c, "on": w, "observed": observed}));
        }
    }
    out.line(&json!({"kind": "summary", "cases": n, "mismatches": bad}));
    out.finish();
    0
}

// ------------------------------------------------------------------------------------------
// The GP loop of examples/median against spec/gp/PushEvolution.tla (Trace_PushEvolution)

mod evo {
    use std::cell::RefCell;
    use std::convert::Infallible;
    use std::sync::Mutex;

    use ec_core::{
        distributions::conversion::IntoDistribution,
        generation::Generation,
        individual::{ec::EcIndividual, scorer::FnScorer},
        operator::{
            genome_extractor::GenomeExtractor, genome_scorer::GenomeScorer, mutator::Mutate,
            selector::{lexicase::Lexicase, Select},
            Composable, Operator,
        },
        test_results::{self, TestResults},
    };
    use ec_linear::mutator::umad::Umad;
    use push::{
        evaluation::Cases,
        genome::plushy::{GeneGenerator, Plushy, PushGene},
        instruction::PushInstruction,
        push_vm::program::PushProgram,
    };
    use rand::{distr::Distribution, seq::IndexedRandom, Rng};
    use serde_json::{json, Value};

    use super::{gene_json, score_genome, Inp, SIDE, SMALL_INTS};
    use crate::proj::{instr_from_json, item_to_json, phi, W};
    use crate::util::{arg_req, arg_u64, guarded, i, run_rng, Out};
    use crate::vm::observe_steps;

    type GInd = EcIndividual<Plushy, TestResults<test_results::Error<i128>>>;

    thread_local! {
        static STAGES: RefCell<Vec<(&'static str, Value)>> = const { RefCell::new(Vec::new()) };
    }
    static EVENTS: Mutex<Vec<Value>> = Mutex::new(Vec::new());
    static POP_ADDRS: Mutex<Vec<usize>> = Mutex::new(Vec::new());

    fn genes_json(p: &Plushy) -> Value {
        p.get_genes().iter().map(gene_json).collect::<Option<Vec<Value>>>().map_or(Value::Null, Value::Array)
    }

    trait Show {
        fn show(&self) -> Value;
    }
    impl Show for &GInd {
        /// which member of the population (1-based; 0 = not an element of it)
        fn show(&self) -> Value {
            let a = std::ptr::from_ref::<GInd>(*self) as usize;
            json!(POP_ADDRS.lock().expect("lock").iter().position(|x| *x == a).map_or(0, |k| k + 1))
        }
    }
    impl Show for Plushy {
        fn show(&self) -> Value {
            genes_json(self)
        }
    }
    struct Tap(&'static str);
    impl Composable for Tap {}
    impl<T: Show> Operator<T> for Tap {
        type Output = T;
        type Error = Infallible;
        fn apply<R: Rng + ?Sized>(&self, x: T, _: &mut R) -> Result<T, Infallible> {
            STAGES.with(|s| s.borrow_mut().push((self.0, x.show())));
            Ok(x)
        }
    }

    fn ind_json(ind: &GInd) -> Value {
        json!({"genes": genes_json(&ind.genome),
               "results": ind.test_results.results.iter().map(|e| i64::try_from(e.0).unwrap_or(i64::MIN)).collect::<Vec<_>>(),
               "total": i64::try_from(ind.test_results.total_result.0).unwrap_or(i64::MIN)})
    }

    /// did a number leave the windows while `program` was scored on `cases`?
    fn scoring_cut(program: &[PushProgram], cases: &[Value], m: usize, limit: usize, ended: &[(String, &'static str)]) -> (bool, Value) {
        let Some(pj) = program.iter().map(item_to_json).collect::<Option<Vec<Value>>>() else {
            return (true, Value::Null);
        };
        let max = json!({"exec": m, "int": m, "flt": m, "bool": m});
        let mut cut = ended.iter().any(|(_, k)| *k == "far");
        if pj.len() <= m {
            for c in cases {
                let sv = json!({"exec": pj, "int": [], "flt": [], "bool": []});
                if observe_steps(&sv, &max, &c["inputs"], limit).cut {
                    cut = true;
                }
            }
        }
        (cut, Value::Array(pj))
    }

    pub fn trace(args: &[String]) -> i32 {
        let seed = arg_u64(args, "--seed", 0);
        let runs = arg_u64(args, "--runs", 50);
        let first = arg_u64(args, "--first-run", 0);
        let mut out = Out::create(arg_req(args, "--out"));
        let candidates: Vec<Value> = vec![
            json!({"f": "int", "o": "push", "v": 1}), json!({"f": "int", "o": "push", "v": 2}), json!({"f": "int", "o": "push", "v": -3}),
            json!({"f": "input", "o": "x"}), json!({"f": "input", "o": "X"}), json!({"f": "input", "o": "b"}),
            json!({"f": "int", "o": "add"}), json!({"f": "int", "o": "subtract"}), json!({"f": "int", "o": "multiply"}),
            json!({"f": "int", "o": "dup"}), json!({"f": "int", "o": "swap"}), json!({"f": "int", "o": "is_zero"}),
            json!({"f": "int", "o": "max"}), json!({"f": "int", "o": "min"}), json!({"f": "int", "o": "print"}),
            json!({"f": "bool", "o": "push", "v": true}), json!({"f": "bool", "o": "not"}), json!({"f": "int", "o": "less_than"}),
            json!({"f": "exec", "o": "when"}), json!({"f": "exec", "o": "unless"}), json!({"f": "exec", "o": "if_else"}),
            json!({"f": "exec", "o": "dup_block"}), json!({"f": "exec", "o": "noop"}), json!({"f": "int", "o": "pop"}),
        ];
        for run in first..first + runs {
            let mut rng = run_rng(seed, 0xE69, run);
            let n = match rng.random_range(0..10) { 0 => 1usize, _ => rng.random_range(2..=6) };
            let m = if rng.random_range(0..5) == 0 { rng.random_range(1..=5) } else { rng.random_range(6..=20) };
            let limit = rng.random_range(0..=40usize);
            let penalty: i128 = [1000, 7][rng.random_range(0..2)];
            let serial = rng.random_range(0..3) == 0;
            let threads = [1usize, 2, 4, 8][rng.random_range(0..4)];
            let steps = rng.random_range(1..=2);
            let (add, del): ((u32, u32), (u32, u32)) = [((0, 1), (0, 1)), ((0, 1), (1, 2)), ((1, 2), (0, 1)), ((1, 1), (0, 1)),
                ((3, 10), (3, 10)), ((1, 10), (1, 10)), ((0, 1), (1, 1)), ((1, 1), (1, 2))][rng.random_range(0..8)];
            let cases_json: Vec<Value> = (0..rng.random_range(0..=3))
                .map(|_| {
                    json!({"inputs": {
                        "x": {"f": "int", "o": "push", "v": phi(*SMALL_INTS.choose(&mut rng).expect("p")).expect("w")},
                        "b": {"f": "bool", "o": "push", "v": rng.random::<bool>()},
                        "X": {"f": "int", "o": "push", "v": phi(*SMALL_INTS.choose(&mut rng).expect("p")).expect("w")},
                    }, "expected": rng.random_range(-5..=5)})
                })
                .collect();
            let k = rng.random_range(2..=10usize);
            let instrs: Vec<PushInstruction> = candidates.choose_multiple(&mut rng, k).map(instr_from_json).collect();
            let alphabet: Vec<Value> = std::iter::once(PushGene::Close)
                .chain(instrs.iter().cloned().map(PushGene::Instruction))
                .map(|g| gene_json(&g).expect("candidates are representable"))
                .collect();
            let dist = IntoDistribution::<PushInstruction>::into_distribution(instrs).expect("non-empty");
            let generator = if rng.random() { GeneGenerator::with_uniform_close_probability(&dist) } else { GeneGenerator::new(0.3, &dist) };
            let training: Cases<Inp, i64> = cases_json.iter().map(|c| (Inp(c["inputs"].clone()), i(&c["expected"]))).collect();
            let scorer = FnScorer(|g: &Plushy| {
                SIDE.with(|x| x.borrow_mut().clear());
                let r = score_genome(g, &training, m, limit, penalty);
                let ended: Vec<(String, &'static str)> = SIDE.with(|x| std::mem::take(&mut *x.borrow_mut()));
                let program = Vec::<PushProgram>::from(g.clone());
                let (cut, pj) = scoring_cut(&program, &cases_json, m, limit, &ended);
                let results: Vec<i64> = r.results.iter().map(|e| i64::try_from(e.0).unwrap_or(i64::MIN)).collect();
                let cut = cut || results.iter().any(|e| e.abs() > W);
                let stages: Vec<(&'static str, Value)> = STAGES.with(|s| std::mem::take(&mut *s.borrow_mut()));
                let mut ev = json!({"ev": "child", "program": pj, "cut": cut, "results": results, "scored_genome": genes_json(g),
                                    "total": i64::try_from(r.total_result.0).unwrap_or(i64::MIN), "stages": stages.len()});
                for (name, v) in stages {
                    ev[name] = v;
                }
                EVENTS.lock().expect("lock").push(ev);
                r
            });
            // the initial population: random genomes scored by the same scorer (their events are dropped)
            let pop: Vec<GInd> = (0..n)
                .map(|_| loop {
                    let len = rng.random_range(0..=8);
                    let g = Plushy::new((0..len).map(|_| generator.sample(&mut rng)));
                    let r = ec_core::individual::scorer::Scorer::score(&scorer, &g);
                    // errors outside the small window cannot be compared by the specification
                    if r.results.iter().all(|e| e.0.abs() <= i128::from(W)) {
                        break EcIndividual::new(g, r);
                    }
                })
                .collect();
            EVENTS.lock().expect("lock").clear();
            STAGES.with(|s| s.borrow_mut().clear());
            out.line(&json!({"ev": "reset", "run": run, "m": m, "limit": limit, "penalty": penalty as i64, "cases": cases_json,
                             "alphabet": alphabet, "add": [add.0, add.1], "del": [del.0, del.1],
                             "mode": if serial { "serial" } else { "par" }, "threads": threads,
                             "pop": pop.iter().map(ind_json).collect::<Vec<_>>()}));
            let res = guarded(|| {
                let umad = Umad::new(f64::from(add.0) / f64::from(add.1), f64::from(del.0) / f64::from(del.1), &generator);
                let maker = Select::new(Lexicase::new(cases_json.len()))
                    .then(Tap("parent"))
                    .then(GenomeExtractor)
                    .then(Tap("extracted"))
                    .then(Mutate::new(umad))
                    .then(Tap("mutated"))
                    .wrap::<GenomeScorer<_, _>>(&scorer);
                let pool = rayon::ThreadPoolBuilder::new().num_threads(threads).build().expect("pool");
                let mut g = Generation::new(maker, pop);
                let mut lines: Vec<Value> = Vec::new();
                for _ in 0..steps {
                    *POP_ADDRS.lock().expect("lock") = g.population().iter().map(|p| std::ptr::from_ref::<GInd>(p) as usize).collect();
                    EVENTS.lock().expect("lock").clear();
                    let r = if serial { g.serial_next() } else { pool.install(|| g.par_next()) };
                    let evs = std::mem::take(&mut *EVENTS.lock().expect("lock"));
                    if evs.iter().any(|ev| ev["results"].as_array().is_some_and(|rs| rs.iter().any(|e| i(e).abs() > W))) {
                        lines.push(json!({"ev": "cutrun", "run": run, "why": "an error outside the small window"}));
                        break;
                    }
                    for mut ev in evs {
                        ev["run"] = json!(run);
                        lines.push(ev);
                    }
                    lines.push(json!({"ev": "return", "run": run, "ok": r.is_ok(), "err": r.err().map_or(String::new(), |e| format!("{e:?}")),
                                      "pop_after": g.population().iter().map(ind_json).collect::<Vec<_>>()}));
                }
                lines
            });
            match res {
                Ok(lines) => {
                    for ln in lines {
                        out.line(&ln);
                    }
                }
                Err(msg) => out.line(&json!({"ev": "panic", "run": run, "msg": msg})),
            }
        }
        out.finish();
        0
    }
}

pub use evo::trace as evo_trace;
