//! C10 / C11: crossover, exchange primitives, bit-flip mutation and UMAD of ec-linear against
//! spec/ec/Variation.tla.

use ec_core::operator::{mutator::Mutator, recombinator::Recombinator};
use ec_linear::{
    genome::{bitstring::Bitstring, vector::Vector},
    mutator::{umad::Umad, with_one_over_length::WithOneOverLength, with_rate::WithRate},
    recombinator::{
        crossover::Crossover, errors::CrossoverGeneError, two_point_xo::TwoPointXo,
        uniform_xo::UniformXo,
    },
};
use push::{
    genome::plushy::{Plushy, PushGene},
    instruction::{printing::PrintString, variable_name::VariableName, PushInstruction},
};
use rand::{distr::Distribution, rngs::SmallRng, Rng};
use serde_json::{json, Value};

use crate::util::{arg_req, arg_u64, arr, guarded, i, read_ndjson, run_rng, s, u, Out};

fn ints(v: &Value) -> Vec<i64> {
    arr(v).iter().map(i).collect()
}

fn bits(v: &Value) -> Bitstring {
    arr(v).iter().map(|x| i(x) != 0).collect()
}

fn bits_json(b: &Bitstring) -> Vec<i64> {
    b.bits.iter().map(|x| i64::from(*x)).collect()
}

fn difflen(l1: usize, l2: usize) -> Value {
    json!({"k": "difflen", "l1": l1, "l2": l2})
}

fn xo_err<E>(e: CrossoverGeneError<E>) -> Value {
    match e {
        CrossoverGeneError::DifferentGenomeLength(d) => difflen(d.0, d.1),
        CrossoverGeneError::Crossover(_) => json!({"k": "segment_error"}),
    }
}

/// One real crossover call in one of the four input forms; genes are integers (vector forms)
/// or 0/1 (bitstring forms).
pub fn crossover(op: &str, form: &str, p1: &Value, p2: &Value, rng: &mut dyn rand::RngCore) -> Value {
    let r = guarded(|| match (op, form) {
        ("two_point", "vec_arr") => TwoPointXo
            .recombine([ints(p1), ints(p2)], rng)
            .map(|c| json!(c))
            .unwrap_or_else(|d| difflen(d.0, d.1)),
        ("two_point", "vec_tup") => TwoPointXo
            .recombine((ints(p1), ints(p2)), rng)
            .map(|c| json!(c))
            .unwrap_or_else(|d| difflen(d.0, d.1)),
        ("uniform", "vec_arr") => UniformXo
            .recombine([ints(p1), ints(p2)], rng)
            .map(|c| json!(c))
            .unwrap_or_else(|d| difflen(d.0, d.1)),
        ("uniform", "vec_tup") => UniformXo
            .recombine((ints(p1), ints(p2)), rng)
            .map(|c| json!(c))
            .unwrap_or_else(|d| difflen(d.0, d.1)),
        ("two_point", "bits_arr") => TwoPointXo
            .recombine([bits(p1), bits(p2)], rng)
            .map(|c| json!(bits_json(&c)))
            .unwrap_or_else(xo_err),
        ("two_point", "bits_tup") => TwoPointXo
            .recombine((bits(p1), bits(p2)), rng)
            .map(|c| json!(bits_json(&c)))
            .unwrap_or_else(xo_err),
        ("uniform", "bits_arr") => UniformXo
            .recombine([bits(p1), bits(p2)], rng)
            .map(|c| json!(bits_json(&c)))
            .unwrap_or_else(xo_err),
        ("uniform", "bits_tup") => UniformXo
            .recombine((bits(p1), bits(p2)), rng)
            .map(|c| json!(bits_json(&c)))
            .unwrap_or_else(xo_err),
        _ => {
            eprintln!("unknown crossover {op}/{form}");
            std::process::exit(2)
        }
    });
    match r {
        Ok(v) if v.is_array() => json!({"k": "ok", "child": v}),
        Ok(v) => v,
        Err(m) => json!({"k": "panic", "msg": m}),
    }
}

fn exchange(case: &Value) -> Value {
    let r = guarded(|| {
        let mut a = bits(&case["a"]);
        let mut b = bits(&case["b"]);
        let ok = match s(&case["op"]) {
            "xgene" => a.crossover_gene(&mut b, u(&case["i"]) as usize).is_ok(),
            _ => {
                let (lo, hi) = (u(&case["lo"]) as usize, u(&case["hi"]) as usize);
                #[allow(clippy::reversed_empty_ranges)]
                a.crossover_segment(&mut b, lo..hi).is_ok()
            }
        };
        json!({"k": if ok { "ok" } else { "err" }, "a": bits_json(&a), "b": bits_json(&b)})
    });
    r.unwrap_or_else(|m| json!({"k": "panic", "msg": m}))
}

const FORMS: [&str; 4] = ["vec_arr", "vec_tup", "bits_arr", "bits_tup"];

/// spec -> impl: the deterministic cases of MC_Variation.
pub fn replay(args: &[String]) -> i32 {
    let cases = read_ndjson(arg_req(args, "--cases"));
    let mut out = Out::create(arg_req(args, "--out"));
    let (mut n, mut bad) = (0u64, 0u64);
    let mut rng = run_rng(0, 0xC10, 0);
    for c in &cases {
        let case = &c["case"];
        let op = s(&case["op"]);
        let observed: Vec<(String, Value)> = if op == "xgene" || op == "xsegment" {
            vec![(op.to_string(), exchange(case))]
        } else {
            // error path of crossover: all four input forms; bitstring forms get 0/1 genes
            FORMS
                .iter()
                .map(|f| {
                    let (p1, p2) = if f.starts_with("bits") {
                        (json!(vec![0; arr(&case["p1"]).len()]), json!(vec![1; arr(&case["p2"]).len()]))
                    } else {
                        (case["p1"].clone(), case["p2"].clone())
                    };
                    ((*f).to_string(), crossover(op, f, &p1, &p2, &mut rng))
                })
                .collect()
        };
        for (form, ob) in observed {
            n += 1;
            if !arr(&c["allowed"]).iter().any(|a| *a == ob) {
                bad += 1;
                out.line(&json!({"kind": "mismatch", "case": c, "form": form, "observed": ob}));
            }
        }
        // an exchange addressed outside either genome is an error however far outside: the refused
        // cases again with indices / range ends at the top of usize (both genomes must stay untouched)
        if (op == "xgene" || op == "xsegment") && arr(&c["allowed"]).len() == 1 && c["allowed"][0]["k"] == "err" {
            let mut a = bits(&case["a"]);
            let mut b = bits(&case["b"]);
            let far: Vec<(usize, usize)> = if op == "xgene" {
                vec![(usize::MAX, 0), (usize::MAX - 1, 0), (1 << 63, 0)]
            } else {
                let lo = u(&case["lo"]) as usize;
                vec![(lo, usize::MAX), (usize::MAX, usize::MAX), (usize::MAX - 1, usize::MAX), (usize::MAX, lo), (0, 1 << 63)]
            };
            for (x, y) in far {
                n += 1;
                let r = guarded(|| {
                    #[allow(clippy::reversed_empty_ranges)]
                    if op == "xgene" { a.crossover_gene(&mut b, x).is_ok() } else { a.crossover_segment(&mut b, x..y).is_ok() }
                });
                let untouched = json!(bits_json(&a)) == case["a"] && json!(bits_json(&b)) == case["b"];
                if r != Ok(false) || !untouched {
                    bad += 1;
                    let mut cc = c.clone();
                    cc["case"]["far"] = json!([x.to_string(), y.to_string()]);
                    out.line(&json!({"kind": "mismatch", "case": cc, "form": op, "observed": match r {
                        Ok(ok) => json!({"k": if ok { "ok" } else { "err" }, "a": bits_json(&a), "b": bits_json(&b)}),
                        Err(m) => json!({"k": "panic", "msg": m}),
                    }}));
                    break;
                }
            }
        }
    }
    out.line(&json!({"kind": "summary", "cases": n, "mismatches": bad}));
    out.finish();
    0
}

/// Generator of "new" genes for UMAD on integer-tagged genomes: 1000, 1001, 1002.
struct NewInt;
impl Distribution<i64> for NewInt {
    fn sample<R: Rng + ?Sized>(&self, rng: &mut R) -> i64 {
        1000 + rng.random_range(0..3)
    }
}
/// A gene generator that fails (panics) on its k-th use: a mutation that dies half way must leave
/// nothing behind for the next one.
struct PanicAfter(std::cell::Cell<u32>);
impl Distribution<PushGene> for PanicAfter {
    fn sample<R: Rng + ?Sized>(&self, _: &mut R) -> PushGene {
        let left = self.0.get();
        assert!(left > 0, "the gene generator failed");
        self.0.set(left - 1);
        PushGene::Instruction(VariableName::from("n0").into())
    }
}
/// ... and on Plushy genomes: input variables n0, n1, n2.
struct NewGene;
impl Distribution<PushGene> for NewGene {
    fn sample<R: Rng + ?Sized>(&self, rng: &mut R) -> PushGene {
        let k: u32 = rng.random_range(0..4);
        if k == 3 {
            return PushGene::Close;
        }
        PushGene::Instruction(VariableName::from(format!("n{k}").as_str()).into())
    }
}

/// gene codes: 0 = close marker, p > 0 = the instruction tagged p
fn plushy_parent(codes: &[i64]) -> Plushy {
    Plushy::new(codes.iter().map(|p| {
        if *p == 0 { PushGene::Close } else { PushGene::Instruction(PushInstruction::PrintString(PrintString(p.to_string()))) }
    }))
}

fn plushy_json(p: &Plushy) -> Vec<i64> {
    p.get_genes()
        .iter()
        .map(|g| match g {
            PushGene::Instruction(PushInstruction::PrintString(PrintString(t))) => t.parse().unwrap_or(-1),
            PushGene::Instruction(PushInstruction::InputVar(v)) => {
                1000 + v.to_string()[1..].parse::<i64>().unwrap_or(-1000)
            }
            PushGene::Close => 0,
            _ => -1,
        })
        .collect()
}

fn frac(rng: &mut SmallRng, opts: &[(u32, u32)]) -> (u32, u32) {
    opts[rng.random_range(0..opts.len())]
}

/// impl -> spec: random calls of every variation operator.
pub fn trace(args: &[String]) -> i32 {
    let seed = arg_u64(args, "--seed", 0);
    let runs = arg_u64(args, "--runs", 100);
    let first = arg_u64(args, "--first-run", 0);
    let mut out = Out::create(arg_req(args, "--out"));
    for run in first..first + runs {
        let mut rng = run_rng(seed, 0xC10, run);
        let kind = rng.random_range(0..10);
        // the stream the operator under test draws from: usually a seeded generator, sometimes one
        // of the two degenerate streams
        let stream = match rng.random_range(0..8) { 0 => "zeros", 1 => "ones", _ => "seeded" };
        let mut op_rng: Box<dyn rand::RngCore> = match stream {
            "zeros" => Box::new(crate::util::ConstRng(0)),
            "ones" => Box::new(crate::util::ConstRng(u64::MAX)),
            _ => Box::new(run_rng(seed, 0xC1F, run)),
        };
        let ev = match kind {
            // bit-flip mutation of LONG genomes (only scalars are logged): same length, no error; rate 0
            // changes nothing, rate >= 1 flips everything
            _ if run % 131 == 17 => {
                let len = [255usize, 256, 65_535, 65_536, 65_537, 1 << 20, (1 << 24) - 1, 1 << 24, (1 << 24) + 1][rng.random_range(0..9)];
                let bitsform = rng.random::<bool>();
                let ool = rng.random_range(0..2) == 0;
                let (num, den) = frac(&mut rng, &[(0, 1), (1, 2), (1, 1), (3, 2)]);
                let g: Vec<bool> = (0..len).map(|_| rng.random()).collect();
                let res = guarded(|| -> Result<Vec<bool>, String> {
                    let rate = num as f32 / den as f32;
                    match (bitsform, ool) {
                        (false, false) => { let Ok(c) = WithRate::new(rate).mutate(g.clone(), &mut *op_rng); Ok(c) }
                        (true, false) => { let Ok(c) = WithRate::new(rate).mutate(Bitstring { bits: g.clone() }, &mut *op_rng); Ok(c.bits) }
                        (false, true) => WithOneOverLength.mutate(g.clone(), &mut *op_rng).map_err(|e| format!("{e:?}")),
                        (true, true) => WithOneOverLength.mutate(Bitstring { bits: g.clone() }, &mut *op_rng).map(|c| c.bits).map_err(|e| format!("{e:?}")),
                    }
                });
                let res = match res {
                    Ok(Ok(c)) => json!({"k": "ok", "len": c.len(), "changed": c.iter().zip(&g).filter(|(a, b)| a != b).count()}),
                    Ok(Err(e)) => json!({"k": "error", "msg": e}),
                    Err(m) => json!({"k": "panic", "msg": m}),
                };
                json!({"ev": "mut", "run": run, "stream": stream, "op": "bigflip", "ool": ool, "form": if bitsform { "bits" } else { "vec" },
                       "num": num, "den": den, "len": len, "res": res})
            }
            0..=3 => {
                let op = if rng.random() { "two_point" } else { "uniform" };
                let form = FORMS[rng.random_range(0..4)];
                let n = rng.random_range(0..=9usize);
                let m = if rng.random_range(0..5) == 0 { rng.random_range(0..=9usize) } else { n };
                let (p1, p2): (Vec<i64>, Vec<i64>) = if form.starts_with("bits") {
                    if rng.random() {
                        (vec![0; n], vec![1; m])
                    } else {
                        let a: Vec<i64> = (0..n).map(|_| rng.random_range(0..2)).collect();
                        let b: Vec<i64> = (0..m).map(|k| if k < n { 1 - a[k] } else { 1 }).collect();
                        (a, b)
                    }
                } else {
                    ((1..=n as i64).collect(), (1..=m as i64).map(|k| 100 + k).collect())
                };
                let (p1, p2) = (json!(p1), json!(p2));
                let res = crossover(op, form, &p1, &p2, &mut *op_rng);
                json!({"ev": "xo", "run": run, "stream": stream, "op": op, "form": form, "p1": p1, "p2": p2, "res": res})
            }
            4 => {
                let a: Vec<i64> = (0..rng.random_range(0..=6)).map(|_| rng.random_range(0..2)).collect();
                let b: Vec<i64> = (0..rng.random_range(0..=6)).map(|_| rng.random_range(0..2)).collect();
                let case = if rng.random() {
                    json!({"op": "xgene", "a": a, "b": b, "i": rng.random_range(0..=8)})
                } else {
                    json!({"op": "xsegment", "a": a, "b": b, "lo": rng.random_range(0..=8), "hi": rng.random_range(0..=8)})
                };
                let res = exchange(&case);
                json!({"ev": "xch", "run": run, "case": case, "res": res})
            }
            5 | 6 => {
                let n = rng.random_range(0..=12usize);
                let g: Vec<i64> = (0..n).map(|_| rng.random_range(0..2)).collect();
                let bitsform = rng.random::<bool>();
                let ool = rng.random_range(0..3) == 0;
                let (num, den) = frac(&mut rng, &[(0, 1), (1, 4), (1, 2), (3, 4), (1, 1), (3, 2)]);
                let res = guarded(|| -> Vec<i64> {
                    let rate = num as f32 / den as f32;
                    match (bitsform, ool) {
                        (false, false) => {
                            let v: Vec<bool> = g.iter().map(|x| *x != 0).collect();
                            let Ok(c) = WithRate::new(rate).mutate(v, &mut *op_rng);
                            c.iter().map(|x| i64::from(*x)).collect()
                        }
                        (true, false) => {
                            let Ok(c) = WithRate::new(rate).mutate(bits(&json!(g)), &mut *op_rng);
                            bits_json(&c)
                        }
                        (false, true) => {
                            let v: Vec<bool> = g.iter().map(|x| *x != 0).collect();
                            let c = WithOneOverLength.mutate(v, &mut *op_rng).expect("size converts");
                            c.iter().map(|x| i64::from(*x)).collect()
                        }
                        (true, true) => bits_json(&WithOneOverLength.mutate(bits(&json!(g)), &mut *op_rng).expect("size converts")),
                    }
                });
                let res = match res {
                    Ok(c) => json!({"k": "ok", "child": c}),
                    Err(m) => json!({"k": "panic", "msg": m}),
                };
                let (num, den) = if ool { (1, n.max(1) as u32) } else { (num, den) };
                json!({"ev": "mut", "run": run, "stream": stream, "op": if ool { "ool" } else { "flip" },
                       "form": if bitsform { "bits" } else { "vec" }, "num": num, "den": den, "g": g, "res": res})
            }
            _ => {
                let n = if rng.random_range(0..4) == 0 { 0 } else { rng.random_range(0..=12usize) };
                let rates = [(0, 1), (1, 4), (1, 2), (3, 4), (1, 1)];
                let (an, ad) = frac(&mut rng, &rates);
                let (dn, dd) = frac(&mut rng, &rates);
                let (en, ed) = frac(&mut rng, &rates);
                let ctor = ["new", "with_empty", "without_empty"][rng.random_range(0..3)];
                let (add, del, emp) = (f64::from(an) / f64::from(ad), f64::from(dn) / f64::from(dd), f64::from(en) / f64::from(ed));
                let plushy = rng.random::<bool>();
                // Plushy parents contain close markers (code 0), also at the very end
                let codes: Vec<i64> = (1..=n as i64).map(|p| if plushy && (rng.random_range(0..4) == 0 || (p == n as i64 && rng.random())) { 0 } else { p }).collect();
                if plushy && rng.random_range(0..4) == 0 {
                    // an earlier UMAD on this thread died half way (its gene generator failed after a few genes)
                    let k = rng.random_range(1..4u32);
                    let _ = guarded(|| {
                        let mut scratch = run_rng(seed, 0xC1E, run);
                        let Ok(c) = Umad::new(1.0, 0.0, PanicAfter(std::cell::Cell::new(k))).mutate(plushy_parent(&[1, 2, 3, 4, 5, 6]), &mut scratch);
                        c
                    });
                }
                let res = guarded(|| -> Vec<i64> {
                    if plushy {
                        let u = match ctor {
                            "new" => Umad::new(add, del, NewGene),
                            "with_empty" => Umad::new_with_empty_rate(add, emp, del, NewGene),
                            _ => Umad::new_without_empty(add, del, NewGene),
                        };
                        let Ok(c) = u.mutate(plushy_parent(&codes), &mut *op_rng);
                        plushy_json(&c)
                    } else {
                        let u = match ctor {
                            "new" => Umad::new(add, del, NewInt),
                            "with_empty" => Umad::new_with_empty_rate(add, emp, del, NewInt),
                            _ => Umad::new_without_empty(add, del, NewInt),
                        };
                        let parent: Vector<i64> = (1..=n as i64).collect();
                        let Ok(c) = u.mutate(parent, &mut *op_rng);
                        c.genes
                    }
                });
                let res = match res {
                    Ok(c) => json!({"k": "ok", "child": c}),
                    Err(m) => json!({"k": "panic", "msg": m}),
                };
                let (ek, e_n, e_d) = match ctor {
                    "new" => ("rate", an, ad),
                    "with_empty" => ("rate", en, ed),
                    _ => ("none", 0, 1),
                };
                json!({"ev": "mut", "run": run, "stream": stream, "op": "umad", "form": if plushy { "plushy" } else { "vector" },
                       "ctor": ctor, "addN": an, "addD": ad, "delN": dn, "delD": dd, "ek": ek, "eN": e_n, "eD": e_d,
                       "new": if plushy { vec![0, 1000, 1001, 1002] } else { vec![1000, 1001, 1002] },
                       "g": codes, "res": res})
            }
        };
        out.line(&ev);
    }
    out.finish();
    0
}

/// Uniform crossover of long parents: for every pair of positions (i, i+d) the set of decision
/// pairs observed over `draws` children (coverage obligation PairsFree: all four must occur).
pub fn pairs(args: &[String]) -> i32 {
    let seed = arg_u64(args, "--seed", 0);
    let draws = arg_u64(args, "--draws", 400);
    let mut out = Out::create(arg_req(args, "--out"));
    for form in FORMS {
        // lengths at, just below and just above multiples of 64 (a decision source handed out in words)
        for n in [64usize, 65, 128, 130, 63, 193, 192] {
            let mut rng = run_rng(seed, 0x9A1, n as u64);
            let (p1, p2): (Vec<i64>, Vec<i64>) = if form.starts_with("bits") {
                (vec![0; n], vec![1; n])
            } else {
                ((1..=n as i64).collect(), (1..=n as i64).map(|k| 1000 + k).collect())
            };
            let mut masks: Vec<Vec<bool>> = Vec::new();
            let mut other = 0u64;
            for _ in 0..draws {
                let r = crossover("uniform", form, &json!(p1), &json!(p2), &mut rng);
                if r["k"] == "ok" && arr(&r["child"]).len() == n {
                    masks.push(ints(&r["child"]).iter().zip(&p2).map(|(c, b)| c == b).collect());
                } else {
                    other += 1;
                }
            }
            for d in [1usize, 2, 8, 16, 32, 64, 128] {
                if d >= n {
                    continue;
                }
                // the position pair with the fewest distinct decision pairs
                let mut worst = (4usize, 0usize);
                for i in 0..n - d {
                    let mut seen = [false; 4];
                    for m in &masks {
                        seen[usize::from(m[i]) * 2 + usize::from(m[i + d])] = true;
                    }
                    let k = seen.iter().filter(|x| **x).count();
                    if k < worst.0 {
                        worst = (k, i);
                    }
                }
                out.line(&json!({"form": form, "n": n, "d": d, "draws": draws, "not_ok": other,
                                 "fewest_pairs": worst.0, "at": worst.1}));
            }
        }
    }
    out.finish();
    0
}

/// Many two-point crossovers of tagged parents per length: the distinct children observed
/// (coverage obligation "every segment can occur").
pub fn segments(args: &[String]) -> i32 {
    let seed = arg_u64(args, "--seed", 0);
    let draws = arg_u64(args, "--draws", 10_000);
    let maxlen = arg_u64(args, "--maxlen", 6) as usize;
    let mut out = Out::create(arg_req(args, "--out"));
    for form in FORMS {
        for n in 0..=maxlen {
            let mut rng = run_rng(seed, 0x5E6, n as u64);
            let mut seen: std::collections::BTreeSet<Vec<i64>> = std::collections::BTreeSet::new();
            let mut other = 0u64;
            let (p1, p2): (Vec<i64>, Vec<i64>) = if form.starts_with("bits") {
                (vec![0; n], vec![1; n])
            } else {
                ((1..=n as i64).collect(), (1..=n as i64).map(|k| 100 + k).collect())
            };
            for _ in 0..draws {
                let r = crossover("two_point", form, &json!(p1), &json!(p2), &mut rng);
                if r["k"] == "ok" {
                    seen.insert(ints(&r["child"]));
                } else {
                    other += 1;
                }
            }
            out.line(&json!({"form": form, "n": n, "draws": draws, "children": seen.into_iter().collect::<Vec<_>>(), "not_ok": other}));
        }
    }
    out.finish();
    0
}
