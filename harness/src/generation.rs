//! C09: `Generation::serial_next` / `par_next` against spec/ec/Generation.tla.

use std::collections::{BTreeSet, HashMap};
use std::sync::atomic::{AtomicU64, Ordering};
use std::sync::Mutex;
use std::thread::ThreadId;

use ec_core::{generation::Generation, operator::{Composable, Operator}};
use rand::Rng;
use serde_json::{json, Value};

use crate::util::{arg_req, arg_u64, guarded, run_rng, Out};

#[derive(Debug)]
pub struct MakerErr(pub u64);

struct Shared {
    events: Mutex<Vec<Value>>,
    threads: Mutex<HashMap<ThreadId, u64>>,
    call: AtomicU64,
    next_id: AtomicU64,
}

/// The child-making operator handed to `Generation`: observes what it is shown and draws one
/// word from the generator it is given.
struct Maker<'a> {
    sh: &'a Shared,
    run: u64,
    fail_plan: Vec<BTreeSet<u64>>, // per step: the k-th started call of that step fails
    step: std::sync::atomic::AtomicUsize,
    delays: Vec<u8>,           // per call: 0 none, 1 yield, 2.. sleep (schedule perturbation)
    pop_addr: AtomicU64,       // address of the generation's own population object (0 = unknown)
}

impl Composable for Maker<'_> {}

impl Composable for &Maker<'_> {}
impl<'p> Operator<&'p Vec<u64>> for &Maker<'_> {
    type Output = u64;
    type Error = MakerErr;
    fn apply<R: Rng + ?Sized>(&self, pop: &'p Vec<u64>, rng: &mut R) -> Result<u64, MakerErr> {
        (**self).apply(pop, rng)
    }
}
impl<'p> Operator<&'p Vec<u64>> for Maker<'_> {
    type Output = u64;
    type Error = MakerErr;
    fn apply<R: Rng + ?Sized>(&self, pop: &'p Vec<u64>, rng: &mut R) -> Result<u64, MakerErr> {
        let tid = {
            let mut t = self.sh.threads.lock().expect("lock");
            let n = t.len() as u64 + 1;
            *t.entry(std::thread::current().id()).or_insert(n)
        };
        let addr = std::ptr::from_ref(pop) as u64;
        let call;
        {
            let mut ev = self.sh.events.lock().expect("lock");
            call = self.sh.call.fetch_add(1, Ordering::SeqCst) + 1;
            let first = self.pop_addr.compare_exchange(0, addr, Ordering::SeqCst, Ordering::SeqCst);
            let same = first.is_ok() || first == Err(addr);
            ev.push(json!({"ev": "start", "run": self.run, "call": call, "thread": tid,
                           "seen": pop.clone(), "same_object": same}));
        }
        let word: u64 = rng.next_u64();
        match self.delays.get(call as usize % self.delays.len().max(1)).copied().unwrap_or(0) {
            0 => {}
            1 => std::thread::yield_now(),
            d => std::thread::sleep(std::time::Duration::from_micros(u64::from(d) * 30)),
        }
        let mut ev = self.sh.events.lock().expect("lock");
        if self.fail_plan[self.step.load(Ordering::SeqCst)].contains(&call) {
            ev.push(json!({"ev": "end", "run": self.run, "call": call, "ok": false, "word": "", "child": 0}));
            Err(MakerErr(call))
        } else {
            let child = self.sh.next_id.fetch_add(1, Ordering::SeqCst);
            ev.push(json!({"ev": "end", "run": self.run, "call": call, "ok": true,
                           "word": format!("{word:016x}"), "child": child}));
            Ok(child)
        }
    }
}

pub fn trace(args: &[String]) -> i32 {
    let seed = arg_u64(args, "--seed", 0);
    let runs = arg_u64(args, "--runs", 50);
    let first = arg_u64(args, "--first-run", 0);
    let mut out = Out::create(arg_req(args, "--out"));
    for run in first..first + runs {
        let mut rng = run_rng(seed, 0xC09, run);
        let n = [0usize, 1, 2, 3, 8, 33][rng.random_range(0..6)];
        let serial = rng.random_range(0..3) == 0;
        let threads = [1usize, 2, 3, 4, 8, 16][rng.random_range(0..6)];
        let steps = rng.random_range(1..=2);
        let sh = Shared {
            events: Mutex::new(Vec::new()),
            threads: Mutex::new(HashMap::new()),
            call: AtomicU64::new(0),
            next_id: AtomicU64::new(1000),
        };
        let pop: Vec<u64> = (1..=n as u64).collect();
        out.line(&json!({"ev": "reset", "run": run, "mode": if serial { "serial" } else { "par" },
                         "n": n, "threads": threads, "pop": pop}));
        let mut fail_plan: Vec<BTreeSet<u64>> = Vec::new();
        for _ in 0..steps {
            let mut f = BTreeSet::new();
            if n > 0 && rng.random_range(0..2) == 0 {
                for _ in 0..rng.random_range(1..=2) {
                    f.insert(rng.random_range(1..=n as u64));
                }
            }
            fail_plan.push(f);
        }
        let delays: Vec<u8> = (0..7).map(|_| rng.random_range(0..5)).collect();
        let res = guarded(|| {
            let mut lines: Vec<Value> = Vec::new();
            let pool = rayon::ThreadPoolBuilder::new().num_threads(threads).build().expect("pool");
            // one Generation object per step sequence; the maker is rebuilt per step only through
            // its shared state (call numbers restart at each step)
            let maker = Maker { sh: &sh, run, fail_plan: fail_plan.clone(), step: std::sync::atomic::AtomicUsize::new(0),
                                delays: delays.clone(), pop_addr: AtomicU64::new(0) };
            // consecutive steps on ONE Generation object
            let mut g = Generation::new(&maker, pop.clone());
            for k in 0..fail_plan.len() {
                sh.call.store(0, Ordering::SeqCst);
                maker.step.store(k, Ordering::SeqCst);
                lines.push(json!({"ev": "begin", "run": run}));
                let r = if serial { g.serial_next() } else { pool.install(|| g.par_next()) };
                lines.append(&mut sh.events.lock().expect("lock"));
                let after = g.population().clone();
                lines.push(match r {
                    Ok(()) => json!({"ev": "return", "run": run, "ok": true, "err_call": 0, "pop_after": after}),
                    Err(MakerErr(c)) => json!({"ev": "return", "run": run, "ok": false, "err_call": c, "pop_after": after}),
                });
            }
            lines
        });
        match res {
            Ok(lines) => {
                for ln in lines {
                    out.line(&ln);
                }
            }
            Err(m) => out.line(&json!({"ev": "panic", "run": run, "msg": m})),
        }
    }
    out.finish();
    0
}
