//! C09: `Generation::serial_next` / `par_next` against spec/ec/Generation.tla.

use std::collections::{BTreeSet, HashMap, HashSet, LinkedList, VecDeque};
use std::sync::atomic::{AtomicU64, Ordering};
use std::sync::Mutex;
use std::thread::ThreadId;

use ec_core::{generation::Generation, operator::{Composable, Operator}};
use rand::Rng;
use serde_json::{json, Value};

use crate::util::{arg_req, arg_u64, guarded, run_rng, Out};

#[derive(Debug)]
pub struct MakerErr(pub u64);

/// An individual: `id` is its identity, `key` is what set-like populations identify it by
/// (equality, order and hash look at the key only).
#[derive(Clone, Copy, Debug)]
pub struct Ind {
    pub id: u64,
    pub key: u64,
}
impl PartialEq for Ind {
    fn eq(&self, o: &Self) -> bool {
        self.key == o.key
    }
}
impl Eq for Ind {}
impl PartialOrd for Ind {
    fn partial_cmp(&self, o: &Self) -> Option<std::cmp::Ordering> {
        Some(self.cmp(o))
    }
}
impl Ord for Ind {
    fn cmp(&self, o: &Self) -> std::cmp::Ordering {
        self.key.cmp(&o.key)
    }
}
impl std::hash::Hash for Ind {
    fn hash<H: std::hash::Hasher>(&self, h: &mut H) {
        self.key.hash(h);
    }
}

/// the collections the blanket `Population` impl is documented to support
pub trait Pop: Send + Sync + Clone + FromIterator<Ind> {
    const KIND: &'static str;
    const NAME: &'static str;
    fn ids(&self) -> Vec<u64>;
}
macro_rules! pop_impl {
    ($t:ty, $kind:expr, $name:expr) => {
        impl Pop for $t {
            const KIND: &'static str = $kind;
            const NAME: &'static str = $name;
            fn ids(&self) -> Vec<u64> {
                self.iter().map(|i| i.id).collect()
            }
        }
        impl<'p> Operator<&'p $t> for &Maker<'_> {
            type Output = Ind;
            type Error = MakerErr;
            fn apply<R: Rng + ?Sized>(&self, pop: &'p $t, rng: &mut R) -> Result<Ind, MakerErr> {
                self.make(|| pop.ids(), std::ptr::from_ref(pop) as u64, rng)
            }
        }
    };
}
pop_impl!(Vec<Ind>, "seq", "Vec");
pop_impl!(VecDeque<Ind>, "seq", "VecDeque");
pop_impl!(LinkedList<Ind>, "seq", "LinkedList");
pop_impl!(BTreeSet<Ind>, "set", "BTreeSet");
pop_impl!(HashSet<Ind>, "set", "HashSet");

struct Shared {
    events: Mutex<Vec<Value>>,
    threads: Mutex<HashMap<ThreadId, u64>>,
    call: AtomicU64,
    next_id: AtomicU64,
}

/// A schedule enumerated by TLC (spec/ec/MC_GenSchedule.tla), forced on the real step: every call of the
/// child maker is held at its entry until the events before its start in the schedule have happened and
/// at its exit until the events before its end have happened. Calls are numbered in start order, like in
/// the specification. A schedule the real step does not follow within `PATIENCE` of no progress (too few
/// threads awake, optional calls after a failure that rayon did not make) is given up: everything then runs
/// freely, the run is still recorded and validated, and it counts as "not realised" (never a verdict).
pub struct Gate {
    events: Vec<(u8, u64)>, // (0 start | 1 ok | 2 fail, call)
    st: Mutex<GateState>,
    cv: std::sync::Condvar,
}
struct GateState {
    entered: u64,
    ended: Vec<bool>,
    gave_up: bool,
}
const PATIENCE: std::time::Duration = std::time::Duration::from_millis(250);
impl Gate {
    fn new(events: Vec<(u8, u64)>) -> Self {
        let n = events.iter().map(|e| e.1).max().unwrap_or(0) as usize;
        Gate { events, st: Mutex::new(GateState { entered: 0, ended: vec![false; n + 2], gave_up: false }),
               cv: std::sync::Condvar::new() }
    }
    fn satisfied(&self, st: &GateState, upto: usize) -> bool {
        self.events[..upto].iter().all(|&(k, c)| if k == 0 { st.entered >= c } else { st.ended.get(c as usize).copied().unwrap_or(false) })
    }
    /// index of the event (kind class, call) in the schedule; the whole schedule for a call that is not in it
    fn index_of(&self, start: bool, call: u64) -> usize {
        self.events.iter().position(|&(k, c)| c == call && (k == 0) == start).unwrap_or(self.events.len())
    }
    fn wait<'g>(&'g self, mut st: std::sync::MutexGuard<'g, GateState>, start: bool, call_of: impl Fn(&GateState) -> u64)
        -> std::sync::MutexGuard<'g, GateState> {
        loop {
            let call = call_of(&st);
            if st.gave_up || self.satisfied(&st, self.index_of(start, call)) {
                return st;
            }
            let before = (st.entered, st.ended.iter().filter(|b| **b).count());
            // once a call has failed the step may legitimately make no further calls (L6): what the schedule
            // still wants to see started is then waited for only briefly
            let failed = self.events.iter().any(|&(k, c)| k == 2 && st.ended.get(c as usize).copied().unwrap_or(false));
            let (g, to) = self.cv.wait_timeout(st, if failed { PATIENCE / 16 } else { PATIENCE }).expect("gate lock");
            st = g;
            if to.timed_out() && before == (st.entered, st.ended.iter().filter(|b| **b).count()) {
                st.gave_up = true;
                self.cv.notify_all();
            }
        }
    }
    fn outcome_ok(&self, call: u64) -> bool {
        !self.events.iter().any(|&(k, c)| k == 2 && c == call)
    }
}

/// The child-making operator handed to `Generation`: observes what it is shown and draws one
/// word from the generator it is given.
struct Maker<'a> {
    sh: &'a Shared,
    run: u64,
    fail_plan: Vec<BTreeSet<u64>>, // per step: the k-th started call of that step fails
    step: std::sync::atomic::AtomicUsize,
    delays: Vec<u8>,           // per call: 0 none, 1 yield, 2.. sleep (schedule perturbation)
    pop_addr: AtomicU64,       // address of the generation's own population object (0 = unknown)
    key_mod: u64,              // children get key (word % key_mod): equal keys collapse in set-like populations
    gate: Option<Gate>,        // a forced schedule (gen-sched); None = free running (gen-trace)
}

impl Composable for Maker<'_> {}

impl Composable for &Maker<'_> {}
impl Maker<'_> {
    fn make<R: Rng + ?Sized>(&self, seen: impl FnOnce() -> Vec<u64>, addr: u64, rng: &mut R) -> Result<Ind, MakerErr> {
        let tid = {
            let mut t = self.sh.threads.lock().expect("lock");
            let n = t.len() as u64 + 1;
            *t.entry(std::thread::current().id()).or_insert(n)
        };
        let call;
        {
            // forced schedule: held here until this call - it will be call number `entered + 1` - may start
            let mut gate = self.gate.as_ref().map(|g| g.wait(g.st.lock().expect("gate lock"), true, |st| st.entered + 1));
            let seen = seen();
            let mut ev = self.sh.events.lock().expect("lock");
            call = self.sh.call.fetch_add(1, Ordering::SeqCst) + 1;
            if let (Some(st), Some(g)) = (gate.as_mut(), self.gate.as_ref()) {
                st.entered += 1;
                g.cv.notify_all();
            }
            let first = self.pop_addr.compare_exchange(0, addr, Ordering::SeqCst, Ordering::SeqCst);
            let same = first.is_ok() || first == Err(addr);
            ev.push(json!({"ev": "start", "run": self.run, "call": call, "thread": tid,
                           "seen": seen, "same_object": same}));
        }
        let word: u64 = rng.next_u64();
        match self.delays.get(call as usize % self.delays.len().max(1)).copied().unwrap_or(0) {
            0 => {}
            1 => std::thread::yield_now(),
            d => std::thread::sleep(std::time::Duration::from_micros(u64::from(d) * 30)),
        }
        // forced schedule: held here until this call may end; the end is logged and marked under the gate's lock
        let mut gate = self.gate.as_ref().map(|g| g.wait(g.st.lock().expect("gate lock"), false, |_| call));
        if let (Some(st), Some(g)) = (gate.as_mut(), self.gate.as_ref()) {
            if let Some(e) = st.ended.get_mut(call as usize) {
                *e = true;
            }
            g.cv.notify_all();
        }
        let fails = match &self.gate {
            Some(g) => !g.outcome_ok(call),
            None => self.fail_plan[self.step.load(Ordering::SeqCst)].contains(&call),
        };
        let mut ev = self.sh.events.lock().expect("lock");
        if fails {
            ev.push(json!({"ev": "end", "run": self.run, "call": call, "ok": false, "word": "", "child": 0, "key": 0}));
            Err(MakerErr(call))
        } else {
            let child = self.sh.next_id.fetch_add(1, Ordering::SeqCst);
            // keys of children live above the keys of the initial members (1..=n <= 40)
            let key = 100 + word % self.key_mod;
            ev.push(json!({"ev": "end", "run": self.run, "call": call, "ok": true,
                           "word": format!("{word:016x}"), "child": child, "key": key}));
            Ok(Ind { id: child, key })
        }
    }
}

fn gave_up(m: &Maker<'_>) -> bool {
    m.gate.as_ref().is_some_and(|g| g.st.lock().expect("gate lock").gave_up)
}

/// one run (1-3 consecutive steps on ONE `Generation` object) on population type `P`
#[allow(clippy::too_many_arguments)]
fn run_on<P>(sh: &Shared, run: u64, n: usize, serial: bool, threads: usize, fail_plan: &[BTreeSet<u64>],
             delays: &[u8], key_mod: u64, gate: Option<Gate>) -> Vec<Value>
where
    P: Pop + ec_core::population::Population<Individual = Ind> + rayon::iter::FromParallelIterator<Ind>,
    for<'m, 'a, 'p> &'m Maker<'a>: Operator<&'p P, Output = Ind, Error = MakerErr>,
{
    let mut lines: Vec<Value> = Vec::new();
    let pool = rayon::ThreadPoolBuilder::new().num_threads(threads).build().expect("pool");
    let maker = Maker { sh, run, fail_plan: fail_plan.to_vec(), step: std::sync::atomic::AtomicUsize::new(0),
                        delays: delays.to_vec(), pop_addr: AtomicU64::new(0), key_mod, gate };
    let pop: P = (1..=n as u64).map(|i| Ind { id: i, key: i }).collect();
    lines.push(json!({"ev": "reset", "run": run, "mode": if serial { "serial" } else { "par" }, "kind": P::KIND,
                      "collection": P::NAME, "n": n, "threads": threads, "pop": pop.ids()}));
    let mut g = Generation::new(&maker, pop);
    for k in 0..fail_plan.len() {
        sh.call.store(0, Ordering::SeqCst);
        maker.step.store(k, Ordering::SeqCst);
        lines.push(json!({"ev": "begin", "run": run}));
        let r = if serial { g.serial_next() } else { pool.install(|| g.par_next()) };
        lines.append(&mut sh.events.lock().expect("lock"));
        let after = g.population().ids();
        let (size, is_empty) = (ec_core::population::Population::size(g.population()), ec_core::population::Population::is_empty(g.population()));
        lines.push(match r {
            Ok(()) => json!({"ev": "return", "run": run, "ok": true, "err_call": 0, "pop_after": after, "size": size, "is_empty": is_empty, "gave_up": gave_up(&maker)}),
            Err(MakerErr(c)) => json!({"ev": "return", "run": run, "ok": false, "err_call": c, "pop_after": after, "size": size, "is_empty": is_empty, "gave_up": gave_up(&maker)}),
        });
    }
    lines
}

/// the same, with the child maker wrapped in the repository's `GenomeScorer` (the probe makes the
/// GENOME, a harness scorer scores it): a failure of the genome maker must surface as the step's
/// failure, and the maker must have been applied exactly once per member
type Scored = ec_core::individual::ec::EcIndividual<Ind, u64>;
impl<'p> Operator<&'p Vec<Scored>> for &Maker<'_> {
    type Output = Ind;
    type Error = MakerErr;
    fn apply<R: Rng + ?Sized>(&self, pop: &'p Vec<Scored>, rng: &mut R) -> Result<Ind, MakerErr> {
        self.make(|| pop.iter().map(|i| i.genome.id).collect(), std::ptr::from_ref(pop) as u64, rng)
    }
}
#[allow(clippy::too_many_arguments)]
fn run_scored(sh: &Shared, run: u64, n: usize, serial: bool, threads: usize, fail_plan: &[BTreeSet<u64>],
              delays: &[u8], key_mod: u64, gate: Option<Gate>) -> Vec<Value> {
    use ec_core::{individual::scorer::FnScorer, operator::genome_scorer::GenomeScorer};
    let mut lines: Vec<Value> = Vec::new();
    let pool = rayon::ThreadPoolBuilder::new().num_threads(threads).build().expect("pool");
    let maker = Maker { sh, run, fail_plan: fail_plan.to_vec(), step: std::sync::atomic::AtomicUsize::new(0),
                        delays: delays.to_vec(), pop_addr: AtomicU64::new(0), key_mod, gate };
    let pop: Vec<Scored> = (1..=n as u64).map(|i| Scored::new(Ind { id: i, key: i }, i)).collect();
    let ids = |p: &Vec<Scored>| -> Vec<u64> { p.iter().map(|i| i.genome.id).collect() };
    lines.push(json!({"ev": "reset", "run": run, "mode": if serial { "serial" } else { "par" }, "kind": "seq",
                      "collection": "Vec+GenomeScorer", "n": n, "threads": threads, "pop": ids(&pop)}));
    let scored_ok = std::sync::atomic::AtomicBool::new(true);
    let child_maker = GenomeScorer::new(&maker, FnScorer(|g: &Ind| g.id));
    let mut g = Generation::new(child_maker, pop);
    for k in 0..fail_plan.len() {
        sh.call.store(0, Ordering::SeqCst);
        maker.step.store(k, Ordering::SeqCst);
        lines.push(json!({"ev": "begin", "run": run}));
        let r = if serial { g.serial_next() } else { pool.install(|| g.par_next()) };
        lines.append(&mut sh.events.lock().expect("lock"));
        // every member carries the score of its own genome
        if g.population().iter().any(|i| i.test_results != i.genome.id) {
            scored_ok.store(false, Ordering::SeqCst);
        }
        let after = if scored_ok.load(Ordering::SeqCst) { ids(g.population()) } else { vec![0] };
        let (size, is_empty) = if scored_ok.load(Ordering::SeqCst) {
            (ec_core::population::Population::size(g.population()), ec_core::population::Population::is_empty(g.population()))
        } else {
            (1, false)
        };
        lines.push(match r {
            Ok(()) => json!({"ev": "return", "run": run, "ok": true, "err_call": 0, "pop_after": after, "size": size, "is_empty": is_empty, "gave_up": gave_up(&maker)}),
            Err(MakerErr(c)) => json!({"ev": "return", "run": run, "ok": false, "err_call": c, "pop_after": after, "size": size, "is_empty": is_empty, "gave_up": gave_up(&maker)}),
        });
    }
    lines
}

/// A population that says it has `usize::MAX` members (any collection whose borrowed iterator knows its
/// length is a population): a serial step on it whose FIRST child fails returns that error at once -
/// nothing is sized, reserved or made for the other members first.
/// NOT USED by the registered check (kept for reference): such a population lies about its size - no
/// honest population of non-zero-sized individuals has that many members - and a step that reserves
/// room for `size()` children up front (the behaviour-preserving rewrite neutral/C09-n1 does) panics
/// on it without breaking C09 for any population that can exist. Demanding this was a false alarm.
struct Endless;
struct EndlessIter<'a>(std::marker::PhantomData<&'a Ind>);
impl<'a> Iterator for EndlessIter<'a> {
    type Item = &'a Ind;
    fn next(&mut self) -> Option<&'a Ind> {
        None
    }
    fn size_hint(&self) -> (usize, Option<usize>) {
        (usize::MAX, Some(usize::MAX))
    }
}
impl ExactSizeIterator for EndlessIter<'_> {
    fn len(&self) -> usize {
        usize::MAX
    }
}
impl<'a> IntoIterator for &'a Endless {
    type Item = &'a Ind;
    type IntoIter = EndlessIter<'a>;
    fn into_iter(self) -> EndlessIter<'a> {
        EndlessIter(std::marker::PhantomData)
    }
}
impl IntoIterator for Endless {
    type Item = Ind;
    type IntoIter = std::iter::Empty<Ind>;
    fn into_iter(self) -> Self::IntoIter {
        std::iter::empty()
    }
}
impl FromIterator<Ind> for Endless {
    fn from_iter<T: IntoIterator<Item = Ind>>(it: T) -> Self {
        it.into_iter().for_each(drop);
        Endless
    }
}
struct FailFirst(AtomicU64);
impl Composable for FailFirst {}
impl<'p> Operator<&'p Endless> for FailFirst {
    type Output = Ind;
    type Error = MakerErr;
    fn apply<R: Rng + ?Sized>(&self, _: &'p Endless, _: &mut R) -> Result<Ind, MakerErr> {
        let call = self.0.fetch_add(1, Ordering::SeqCst) + 1;
        if call <= 1 { Err(MakerErr(call)) } else { Ok(Ind { id: call, key: call }) }
    }
}
#[allow(dead_code)]
fn endless_event(run: u64) -> Value {
    let r = guarded(|| {
        let mut g = Generation::new(FailFirst(AtomicU64::new(0)), Endless);
        let size = ec_core::population::Population::size(g.population());
        let r = g.serial_next();
        let calls = 1; // the maker fails its first call; a step that returns made at least that one
        (size == usize::MAX, r.err().map(|e| e.0), calls)
    });
    match r {
        Ok((huge, Some(c), _)) => json!({"ev": "endless", "run": run, "says_max": huge, "result": "error", "err_call": c}),
        Ok((huge, None, _)) => json!({"ev": "endless", "run": run, "says_max": huge, "result": "ok", "err_call": 0}),
        Err(m) => json!({"ev": "endless", "run": run, "says_max": true, "result": "panic", "err_call": 0, "msg": m}),
    }
}

pub fn trace(args: &[String]) -> i32 {
    let seed = arg_u64(args, "--seed", 0);
    let runs = arg_u64(args, "--runs", 50);
    let first = arg_u64(args, "--first-run", 0);
    let mut out = Out::create(arg_req(args, "--out"));
    for run in first..first + runs {
        let mut rng = run_rng(seed, 0xC09, run);
        let n = [0usize, 1, 2, 3, 8, 33][rng.random_range(0..6)];
        let serial = rng.random_range(0..3) == 0;
        let threads = [1usize, 2, 3, 4, 8, 16][rng.random_range(0..6)];
        let steps = rng.random_range(1..=3);
        let coll = rng.random_range(0..10u32);       // 0-3 Vec, 4 VecDeque, 5 LinkedList, 6 BTreeSet, 7 HashSet, 8-9 Vec + GenomeScorer
        let n = if coll == 6 || coll == 7 { n.min(12) } else { n };
        let key_mod = [1u64, 2, 3, 1 << 40][rng.random_range(0..4)];
        let sh = Shared {
            events: Mutex::new(Vec::new()),
            threads: Mutex::new(HashMap::new()),
            call: AtomicU64::new(0),
            next_id: AtomicU64::new(1000),
        };
        let mut fail_plan: Vec<BTreeSet<u64>> = Vec::new();
        for _ in 0..steps {
            let mut f = BTreeSet::new();
            if n > 0 && rng.random_range(0..3) == 0 {
                for _ in 0..rng.random_range(1..=2) {
                    f.insert(rng.random_range(1..=n as u64));
                }
            }
            fail_plan.push(f);
        }
        let delays: Vec<u8> = (0..7).map(|_| rng.random_range(0..5)).collect();
        let res = guarded(|| match coll {
            4 => run_on::<VecDeque<Ind>>(&sh, run, n, serial, threads, &fail_plan, &delays, key_mod, None),
            5 => run_on::<LinkedList<Ind>>(&sh, run, n, serial, threads, &fail_plan, &delays, key_mod, None),
            6 => run_on::<BTreeSet<Ind>>(&sh, run, n, serial, threads, &fail_plan, &delays, key_mod, None),
            7 => run_on::<HashSet<Ind>>(&sh, run, n, serial, threads, &fail_plan, &delays, key_mod, None),
            8 | 9 => run_scored(&sh, run, n, serial, threads, &fail_plan, &delays, key_mod, None),
            _ => run_on::<Vec<Ind>>(&sh, run, n, serial, threads, &fail_plan, &delays, key_mod, None),
        });
        match res {
            Ok(lines) => {
                for ln in lines {
                    out.line(&ln);
                }
            }
            Err(m) => out.line(&json!({"ev": "panic", "run": run, "msg": m})),
        }
    }
    out.finish();
    0
}

/// `gen-sched --schedules <ndjson from TLC> --out <trace>`: every schedule of MC_GenSchedule is forced on a real
/// step (see `Gate`), on pools of exactly as many threads as the schedule overlaps calls and of two more, on the
/// collections in turn; the recorded run is validated by Trace_Generation like any other.
pub fn sched(args: &[String]) -> i32 {
    let scheds = crate::util::read_ndjson(arg_req(args, "--schedules"));
    let mut out = Out::create(arg_req(args, "--out"));
    let mut run = arg_u64(args, "--first-run", 0);
    for (si, sc) in scheds.iter().enumerate() {
        let n = sc["n"].as_u64().expect("n") as usize;
        let serial = sc["mode"] == "serial";
        let overlap = sc["overlap"].as_u64().expect("overlap").max(1) as usize;
        let events: Vec<(u8, u64)> = sc["events"].as_array().expect("events").iter().map(|e| {
            let k = match e[0].as_str().expect("kind") { "c" => 0, "ok" => 1, _ => 2 };
            (k, e[1].as_u64().expect("call"))
        }).collect();
        for (vi, threads) in [overlap, overlap + 2].into_iter().enumerate() {
            if serial && vi == 1 {
                continue;
            }
            let sh = Shared {
                events: Mutex::new(Vec::new()),
                threads: Mutex::new(HashMap::new()),
                call: AtomicU64::new(0),
                next_id: AtomicU64::new(1000),
            };
            let fail_plan = vec![BTreeSet::new()];
            let gate = Some(Gate::new(events.clone()));
            let res = guarded(|| match (si + vi) % 6 {
                1 => run_on::<VecDeque<Ind>>(&sh, run, n, serial, threads, &fail_plan, &[0], 1 << 40, gate),
                2 => run_on::<LinkedList<Ind>>(&sh, run, n, serial, threads, &fail_plan, &[0], 1 << 40, gate),
                3 => run_scored(&sh, run, n, serial, threads, &fail_plan, &[0], 1 << 40, gate),
                _ => run_on::<Vec<Ind>>(&sh, run, n, serial, threads, &fail_plan, &[0], 1 << 40, gate),
            });
            match res {
                Ok(mut lines) => {
                    lines[0]["sched"] = json!(si);
                    for ln in lines {
                        out.line(&ln);
                    }
                }
                Err(m) => out.line(&json!({"ev": "panic", "run": run, "sched": si, "msg": m})),
            }
            run += 1;
        }
    }
    out.finish();
    0
}
