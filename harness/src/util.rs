use std::fs::File;
use std::io::{BufRead, BufReader, BufWriter, Write};
use std::panic::{catch_unwind, AssertUnwindSafe};

use serde_json::Value;

/// Panics of the code under test are data: keep them off stderr.
pub fn silence_panics() {
    std::panic::set_hook(Box::new(|_| {}));
}

/// Progress counter of the driver: every guarded call into the code under test and every output
/// line is a beat. The monitor thread (below) reports a HANG when the process has burnt more than
/// `VERIF_HANG_CPU` (default 600) seconds of CPU TIME without a beat - the longest legitimate single
/// call of any driver takes about 10 s; CPU time does not depend on how busy the machine is.
static BEATS: std::sync::atomic::AtomicU64 = std::sync::atomic::AtomicU64::new(0);
pub fn beat() {
    BEATS.fetch_add(1, std::sync::atomic::Ordering::Relaxed);
}
fn process_cpu_seconds() -> Option<f64> {
    let stat = std::fs::read_to_string("/proc/self/stat").ok()?;
    let after = stat.rsplit_once(')')?.1;
    let f: Vec<&str> = after.split_whitespace().collect();
    Some((f.get(11)?.parse::<u64>().ok()? + f.get(12)?.parse::<u64>().ok()?) as f64 / 100.0)
}
/// A call into the code under test that never returns is an observation too: print
/// `HANG-OBSERVED {..}` and exit with status 4 (the check turns that into a violation).
pub fn start_hang_monitor(driver: &str) {
    let driver = driver.to_string();
    let limit: f64 = std::env::var("VERIF_HANG_CPU").ok().and_then(|v| v.parse().ok()).unwrap_or(600.0);
    std::thread::spawn(move || {
        let mut last = BEATS.load(std::sync::atomic::Ordering::Relaxed);
        let mut cpu_at = process_cpu_seconds().unwrap_or(0.0);
        loop {
            std::thread::sleep(std::time::Duration::from_millis(1000));
            let Some(cpu) = process_cpu_seconds() else { return };
            let now = BEATS.load(std::sync::atomic::Ordering::Relaxed);
            if now != last {
                last = now;
                cpu_at = cpu;
            } else if cpu - cpu_at > limit {
                println!("HANG-OBSERVED {}", serde_json::json!({"subcommand": driver, "cpu_seconds_without_progress": cpu - cpu_at,
                                                                  "calls_completed_before": now}));
                let _ = std::io::stdout().flush();
                std::process::exit(4);
            }
        }
    });
}

/// Run `f`, turning a panic into `Err(message)`.
pub fn guarded<T>(f: impl FnOnce() -> T) -> Result<T, String> {
    beat();
    catch_unwind(AssertUnwindSafe(f)).map_err(|e| {
        if let Some(s) = e.downcast_ref::<&str>() {
            (*s).to_string()
        } else if let Some(s) = e.downcast_ref::<String>() {
            s.clone()
        } else {
            "panic".to_string()
        }
    })
}

pub fn read_ndjson(path: &str) -> Vec<Value> {
    let f = File::open(path).unwrap_or_else(|e| {
        eprintln!("cannot open {path}: {e}");
        std::process::exit(2)
    });
    BufReader::new(f)
        .lines()
        .map(|l| l.expect("read"))
        .filter(|l| !l.trim().is_empty())
        .map(|l| {
            serde_json::from_str(&l).unwrap_or_else(|e| {
                eprintln!("bad json line in {path}: {e}");
                std::process::exit(2)
            })
        })
        .collect()
}

pub struct Out {
    w: BufWriter<File>,
}

impl Out {
    pub fn create(path: &str) -> Self {
        let f = File::create(path).unwrap_or_else(|e| {
            eprintln!("cannot create {path}: {e}");
            std::process::exit(2)
        });
        Self { w: BufWriter::new(f) }
    }
    pub fn line(&mut self, v: &Value) {
        beat();
        serde_json::to_writer(&mut self.w, v).expect("write");
        self.w.write_all(b"\n").expect("write");
    }
    pub fn finish(mut self) {
        self.w.flush().expect("flush");
    }
}

/// `--key value` style argument lookup.
pub fn arg<'a>(args: &'a [String], key: &str) -> Option<&'a str> {
    args.iter()
        .position(|a| a == key)
        .and_then(|i| args.get(i + 1))
        .map(String::as_str)
}

pub fn arg_u64(args: &[String], key: &str, default: u64) -> u64 {
    arg(args, key)
        .map(|s| s.parse().expect("numeric argument"))
        .unwrap_or(default)
}

pub fn arg_req<'a>(args: &'a [String], key: &str) -> &'a str {
    arg(args, key).unwrap_or_else(|| {
        eprintln!("missing argument {key}");
        std::process::exit(2)
    })
}

pub fn u(v: &Value) -> u64 {
    v.as_u64().expect("expected unsigned integer")
}

pub fn i(v: &Value) -> i64 {
    v.as_i64().expect("expected integer")
}

pub fn s(v: &Value) -> &str {
    v.as_str().expect("expected string")
}

pub fn arr(v: &Value) -> &Vec<Value> {
    v.as_array().expect("expected array")
}

/// Independent generator for run `run` of driver `salt` under check seed `seed`, so that a
/// single run can be regenerated for a replay.
pub fn run_rng(seed: u64, salt: u64, run: u64) -> rand::rngs::SmallRng {
    use rand::SeedableRng;
    let mut z = seed
        .wrapping_mul(0x9E37_79B9_7F4A_7C15)
        .wrapping_add(salt.wrapping_mul(0xBF58_476D_1CE4_E5B9))
        .wrapping_add(run.wrapping_mul(0x94D0_49BB_1331_11EB));
    z ^= z >> 31;
    rand::rngs::SmallRng::seed_from_u64(z)
}

/// Degenerate random streams (all bits 0 / all bits 1): "for all random streams" includes them.
pub struct ConstRng(pub u64);
impl rand::RngCore for ConstRng {
    fn next_u32(&mut self) -> u32 {
        self.0 as u32
    }
    fn next_u64(&mut self) -> u64 {
        self.0
    }
    fn fill_bytes(&mut self, dst: &mut [u8]) {
        for b in dst {
            *b = self.0 as u8;
        }
    }
}
