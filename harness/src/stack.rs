//! C04: `push::push_vm::stack::Stack` against spec/stack/BoundedStack.tla.

use collectable::TryExtend;
use push::push_vm::stack::{Stack, StackError};
use rand::{rngs::SmallRng, Rng, SeedableRng};
use serde_json::{json, Value};

use crate::util::{arg_req, arg_u64, arr, guarded, read_ndjson, s, u, Out};

type S = Stack<u8>;

/// Contents top first, read without touching the object under test.
fn contents(st: &S) -> Vec<u8> {
    let mut c = st.clone();
    let mut out = Vec::new();
    while let Ok(v) = c.pop() {
        out.push(v);
    }
    out
}

fn res(k: &str, v: Vec<u8>, n: u64, req: u64, have: u64) -> Value {
    json!({"k": k, "v": v, "n": n, "req": req, "have": have})
}

fn ok(v: Vec<u8>) -> Value {
    res("ok", v, 0, 0, 0)
}

fn okn(n: u64) -> Value {
    res("ok", vec![], n, 0, 0)
}

fn err(e: &StackError) -> Value {
    match e {
        StackError::Underflow {
            num_requested,
            num_present,
        } => res(
            "underflow",
            vec![],
            0,
            *num_requested as u64,
            *num_present as u64,
        ),
        StackError::Overflow { .. } => res("overflow", vec![], 0, 0, 0),
    }
}

fn unit(r: Result<(), StackError>) -> Value {
    match r {
        Ok(()) => ok(vec![]),
        Err(e) => err(&e),
    }
}

/// A plain iterator: neither `ExactSizeIterator` nor `DoubleEndedIterator`,
/// and its `size_hint` tells nothing.
struct Plain(std::vec::IntoIter<u8>);
impl Iterator for Plain {
    type Item = u8;
    fn next(&mut self) -> Option<u8> {
        self.0.next()
    }
}

fn bytes(v: &Value) -> Vec<u8> {
    arr(v).iter().map(|x| u(x) as u8).collect()
}

/// Perform one spec operation on the real stack; the projection of its result.
fn apply(st: &mut S, op: &Value) -> Value {
    match s(&op["name"]) {
        "push" => unit(st.push(u(&op["v"]) as u8)),
        "pop" => match st.pop() {
            Ok(a) => ok(vec![a]),
            Err(e) => err(&e),
        },
        "pop2" => match st.pop2() {
            Ok((a, b)) => ok(vec![a, b]),
            Err(e) => err(&e),
        },
        "pop3" => match st.pop3() {
            Ok((a, b, c)) => ok(vec![a, b, c]),
            Err(e) => err(&e),
        },
        "top" => match st.top() {
            Ok(a) => ok(vec![*a]),
            Err(e) => err(&e),
        },
        "top2" => match st.top2() {
            Ok((a, b)) => ok(vec![*a, *b]),
            Err(e) => err(&e),
        },
        "top3" => match st.top3() {
            Ok((a, b, c)) => ok(vec![*a, *b, *c]),
            Err(e) => err(&e),
        },
        "discard" => unit(st.discard(u(&op["n"]) as usize)),
        "push_many" => unit(st.push_many(bytes(&op["s"]))),
        "try_extend" => {
            let mut it = Plain(bytes(&op["s"]).into_iter());
            unit(st.try_extend(&mut it))
        }
        "set_max" => {
            st.set_max_stack_size(u(&op["n"]) as usize);
            ok(vec![])
        }
        "size" => okn(st.size() as u64),
        "is_empty" => okn(u64::from(st.is_empty())),
        "is_full" => okn(u64::from(st.is_full())),
        "max_size" => okn(st.max_stack_size() as u64),
        other => {
            eprintln!("unknown stack op {other}");
            std::process::exit(2)
        }
    }
}

/// Build a real stack holding `vals` (top first) with maximum `max`, through
/// the public API only.  `max` may be below the number of values.
fn build(vals: &[u8], max: usize) -> S {
    let mut st = S::default();
    for v in vals.iter().rev() {
        st.push(*v).expect("unbounded push");
    }
    st.set_max_stack_size(max);
    st
}

fn observe(st: &S, ret: Value) -> Value {
    json!({"ret": ret, "vals": contents(st), "max": st.max_stack_size() as u64})
}

/// spec -> impl: one real call per emitted (state, operation) case.
pub fn replay(args: &[String]) -> i32 {
    let cases = read_ndjson(arg_req(args, "--cases"));
    let mut out = Out::create(arg_req(args, "--out"));
    let (mut n, mut bad) = (0u64, 0u64);
    for case in &cases {
        n += 1;
        let vals = bytes(&case["vals"]);
        let max = u(&case["max"]) as usize;
        let observed = guarded(|| {
            let mut st = build(&vals, max);
            let r = apply(&mut st, &case["op"]);
            observe(&st, r)
        })
        .unwrap_or_else(|m| json!({"panic": m}));
        if !arr(&case["allowed"]).iter().any(|a| *a == observed) {
            bad += 1;
            out.line(&json!({"kind": "mismatch", "case": case, "observed": observed}));
        }
        // a plain-iterator bulk insertion that does not fit is refused also when the iterator never ends
        // (and says so in its size hint): Overflow, contents untouched, and the call returns
        if case["op"]["name"] == "try_extend" && !arr(&case["op"]["s"]).is_empty()
            && vals.len() + arr(&case["op"]["s"]).len() > max
        {
            let first = u(&case["op"]["s"][0]) as u8;
            for kind in ["repeat", "counting", "cycle"] {
                n += 1;
                let observed = guarded(|| {
                    let mut st = build(&vals, max);
                    let r = match kind {
                        "repeat" => st.try_extend(&mut std::iter::repeat(first)),
                        "counting" => st.try_extend(&mut (0u64..).map(|k| (k % 251) as u8)),
                        _ => st.try_extend(&mut [first, 1, 2].into_iter().cycle()),
                    };
                    json!({"ret": match r { Ok(()) => json!({"k": "ok"}), Err(e) => err(&e) }, "vals": contents(&st)})
                })
                .unwrap_or_else(|m| json!({"panic": m}));
                if observed["ret"]["k"] != "overflow" || observed["vals"] != case["vals"] {
                    bad += 1;
                    let mut c2 = case.clone();
                    c2["huge"] = json!({"endless_iterator": kind});
                    out.line(&json!({"kind": "mismatch", "case": c2, "observed": observed}));
                    break;
                }
            }
        }
        // discarding more than there is reports the counts and removes nothing, however many are asked for
        if case["op"]["name"] == "discard" && u(&case["op"]["n"]) as usize > vals.len() {
            for far in [usize::MAX, usize::MAX - 1, 1usize << 63, 1 << 32] {
                n += 1;
                let observed = guarded(|| {
                    let mut st = build(&vals, max);
                    let r = st.discard(far);
                    let payload_ok = matches!(r, Err(StackError::Underflow { num_requested, num_present }) if num_requested == far && num_present == vals.len());
                    json!({"payload_ok": payload_ok, "vals": contents(&st)})
                })
                .unwrap_or_else(|m| json!({"panic": m}));
                if observed["payload_ok"] != true || observed["vals"] != case["vals"] {
                    bad += 1;
                    let mut c2 = case.clone();
                    c2["huge"] = json!({"discard": far.to_string()});
                    out.line(&json!({"kind": "mismatch", "case": c2, "observed": observed}));
                    break;
                }
            }
        }
        // A bulk insertion that does not fit is refused whatever the magnitudes: the same case with
        // the maximum at the top of usize and an exact-size iterator whose announced length exceeds
        // the room by the same amount (n + k - m); only Overflow with untouched contents is allowed.
        let k = arr(&case["op"]["s"]).len();
        if case["op"]["name"] == "push_many" && k > 0 && vals.len() + k > max && vals.len() <= max {
            for big_max in [usize::MAX, usize::MAX - 1, usize::MAX / 2 + 1] {
                let excess = vals.len() + k - max;
                // announced length = room + excess; only if such a length exists in usize
                let Some(huge_len) = (big_max - vals.len()).checked_add(excess) else { continue };
                n += 1;
                let observed = guarded(|| {
                    let mut st = build(&vals, big_max);
                    let r = match st.push_many((0..huge_len).map(|_| 7u8)) {
                        Ok(()) => json!({"k": "ok"}),
                        Err(e) => err(&e),
                    };
                    json!({"ret": r, "vals": contents(&st), "max": "huge"})
                })
                .unwrap_or_else(|m| json!({"panic": m}));
                let ok = observed["ret"]["k"] == "overflow" && observed["vals"] == case["vals"];
                if !ok {
                    bad += 1;
                    let mut c2 = case.clone();
                    c2["huge"] = json!({"max": big_max.to_string(), "announced_len": huge_len.to_string()});
                    out.line(&json!({"kind": "mismatch", "case": c2, "observed": observed}));
                    break;
                }
            }
        }
    }
    out.line(&json!({"kind": "summary", "cases": n, "mismatches": bad}));
    out.finish();
    0
}

fn random_op(rng: &mut SmallRng, size: usize) -> Value {
    let v: u8 = rng.random();
    let bulk = |rng: &mut SmallRng| -> Vec<u8> {
        let n = rng.random_range(0..5);
        (0..n).map(|_| rng.random()).collect()
    };
    let op = |name: &str, v: u8, sq: Vec<u8>, n: usize| json!({"name": name, "v": v, "s": sq, "n": n});
    match rng.random_range(0..100) {
        0..=24 => op("push", v, vec![], 0),
        25..=32 => op("pop", 0, vec![], 0),
        33..=37 => op("pop2", 0, vec![], 0),
        38..=42 => op("pop3", 0, vec![], 0),
        43..=46 => op("top", 0, vec![], 0),
        47..=50 => op("top2", 0, vec![], 0),
        51..=54 => op("top3", 0, vec![], 0),
        55..=60 => op("discard", 0, vec![], rng.random_range(0..=size + 1).min(9)),
        61..=70 => {
            let b = bulk(rng);
            op("push_many", 0, b, 0)
        }
        71..=80 => {
            let b = bulk(rng);
            op("try_extend", 0, b, 0)
        }
        81..=88 => op("set_max", 0, vec![], rng.random_range(0..=8)),
        89..=91 => op("size", 0, vec![], 0),
        92..=94 => op("is_empty", 0, vec![], 0),
        95..=97 => op("is_full", 0, vec![], 0),
        _ => op("max_size", 0, vec![], 0),
    }
}

/// impl -> spec: random histories on ONE real stack object per run; every
/// event carries the operation, its projected result and the contents after.
pub fn trace(args: &[String]) -> i32 {
    let seed = arg_u64(args, "--seed", 0);
    let runs = arg_u64(args, "--runs", 10);
    let len = arg_u64(args, "--len", 100);
    let mut out = Out::create(arg_req(args, "--out"));
    let first = arg_u64(args, "--first-run", 0);
    for run in first..first + runs {
        let mut rng = crate::util::run_rng(seed, 0xC04, run);
        let max = rng.random_range(0..=6usize);
        let mut st = S::default();
        st.set_max_stack_size(max);
        out.line(&json!({"ev": "reset", "run": run, "max": max}));
        for _ in 0..len {
            let op = random_op(&mut rng, st.size());
            match guarded(|| {
                let r = apply(&mut st, &op);
                (r, contents(&st), st.max_stack_size() as u64)
            }) {
                Ok((ret, vals, max)) => {
                    out.line(&json!({"ev": "op", "run": run, "op": op, "ret": ret, "vals": vals, "max": max}));
                }
                Err(m) => {
                    out.line(&json!({"ev": "panic", "run": run, "op": op, "msg": m}));
                    break;
                }
            }
        }
    }
    out.finish();
    0
}
