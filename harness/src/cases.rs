//! push::evaluation::Cases against spec/eval/Cases.tla: random histories on ONE real
//! `Cases<i64, i64>` object; every event carries the collection afterwards and what the call
//! returned. The different views (by reference, by mutable reference, consuming) rotate.

use push::evaluation::{Case, Cases, WithTargetFn};
use rand::Rng;
use serde_json::{json, Value};

use crate::util::{arg_req, arg_u64, guarded, run_rng, Out};

fn target(i: &i64) -> i64 {
    2 * i + 1
}
fn pairs(c: &Cases<i64, i64>) -> Vec<Value> {
    c.iter().map(|k| json!({"i": k.input, "o": k.output})).collect()
}

pub fn trace(args: &[String]) -> i32 {
    let seed = arg_u64(args, "--seed", 0);
    let runs = arg_u64(args, "--runs", 50);
    let first = arg_u64(args, "--first-run", 0);
    let len = arg_u64(args, "--len", 40);
    let mut out = Out::create(arg_req(args, "--out"));
    for run in first..first + runs {
        let mut rng = run_rng(seed, 0xCA5, run);
        out.line(&json!({"ev": "reset", "run": run}));
        let mut c: Cases<i64, i64> = if rng.random() { Cases::new() } else { Cases::default() };
        for step in 0..len {
            let flavour = rng.random_range(0..3u32);
            let r = guarded(|| -> (Value, Value, Value, Value) {
                match rng.random_range(0..12u32) {
                    0 => {
                        let ins: Vec<i64> = (0..rng.random_range(0..6)).map(|_| rng.random_range(-20..20)).collect();
                        c = match flavour {
                            0 => Cases::from_inputs(ins.clone(), target),
                            1 => ins.clone().with_target_fn(target),
                            _ => ins.iter().copied().with_target_fn(|x| target(x)),
                        };
                        (json!("from_inputs"), json!(ins), json!(0), json!([]))
                    }
                    1 => {
                        let ps: Vec<(i64, i64)> = (0..rng.random_range(0..3)).map(|_| (rng.random_range(-9..9), rng.random_range(-9..9))).collect();
                        c = match flavour {
                            0 => ps.iter().copied().collect(),
                            1 => ps.iter().map(|(i, o)| Case::new(*i, *o)).collect(),
                            _ => ps.iter().map(|p| Case::from(*p)).collect(),
                        };
                        (json!("from_pairs"), json!(ps.iter().map(|(i, o)| json!({"i": i, "o": o})).collect::<Vec<_>>()), json!(0), json!([]))
                    }
                    2 | 3 => {
                        let (i, o) = (rng.random_range(-9..9), rng.random_range(-9..9));
                        match flavour {
                            0 => c.add_case((i, o)),
                            1 => c.add_case(Case::new(i, o)),
                            _ => c = std::mem::take(&mut c).with_case((i, o)),
                        }
                        (json!("add_case"), json!([i, o]), json!(0), json!([]))
                    }
                    4 => {
                        let d = rng.random_range(-3..4);
                        c.outputs_mut().for_each(|o| *o += d);
                        (json!("outputs_mut"), json!([]), json!(d), json!([]))
                    }
                    5 => {
                        let d = rng.random_range(-3..4);
                        c.inputs_mut().for_each(|i| *i += d);
                        (json!("inputs_mut"), json!([]), json!(d), json!([]))
                    }
                    6 => {
                        let d = rng.random_range(-3..4);
                        if flavour == 0 {
                            c.iter_mut().for_each(|k| { k.input += d; k.output -= d; });
                        } else {
                            for k in &mut c { k.input += d; k.output -= d; }
                        }
                        (json!("iter_mut"), json!([]), json!(d), json!([]))
                    }
                    7 => (json!("len"), json!([]), json!(0), json!([c.len()])),
                    8 => (json!("is_empty"), json!([]), json!(0), json!([u8::from(c.is_empty())])),
                    9 => {
                        let v: Vec<i64> = if flavour == 0 { c.inputs().copied().collect() } else {
                            // consuming view of a rebuilt copy
                            pairs_to_cases(&c).into_inputs().collect()
                        };
                        (json!("inputs"), json!([]), json!(0), json!(v))
                    }
                    10 => {
                        let v: Vec<i64> = if flavour == 0 { c.outputs().copied().collect() } else { pairs_to_cases(&c).into_outputs().collect() };
                        (json!("outputs"), json!([]), json!(0), json!(v))
                    }
                    _ => {
                        let v: Vec<Value> = match flavour {
                            0 => pairs(&c),
                            1 => (&c).into_iter().map(|k| json!({"i": k.input, "o": k.output})).collect(),
                            _ => pairs_to_cases(&c).into_iter().map(|k| { let (i, o): (i64, i64) = k.into(); json!({"i": i, "o": o}) }).collect(),
                        };
                        (json!("iter"), json!([]), json!(0), json!(v))
                    }
                }
            });
            match r {
                Ok((name, xs, n, ret)) => out.line(&json!({"ev": "op", "run": run, "step": step, "name": name, "xs": xs, "n": n,
                                                           "ret": ret, "after": pairs(&c)})),
                Err(m) => {
                    out.line(&json!({"ev": "panic", "run": run, "step": step, "msg": m}));
                    break;
                }
            }
        }
    }
    out.finish();
    0
}

fn pairs_to_cases(c: &Cases<i64, i64>) -> Cases<i64, i64> {
    c.iter().map(|k| (k.input, k.output)).collect()
}
