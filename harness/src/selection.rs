//! C06 / C07 / C08: the real selectors against spec/ec/Selection.tla.
//!
//! Populations are made of *probe* individuals: `Ord::cmp` of an individual, and of each of
//! its per-case results, logs who was compared with whom - that is how the subset a tournament
//! drew and the case order lexicase visited are observed without a hook in the library.

use std::cell::RefCell;
use std::cmp::Ordering;
use std::collections::BTreeSet;
#[cfg(feature = "optional_flavours")]
use std::collections::VecDeque;
use std::num::NonZeroUsize;

use ec_core::{
    individual::Individual,
    operator::selector::{
        best::Best, lexicase::{Lexicase, LexicaseError}, random::Random, tournament::Tournament, worst::Worst,
        Selector,
    },
    test_results::TestResults,
};
use rand::{rngs::SmallRng, Rng};
use serde_json::{json, Value};

use crate::util::{arg_req, arg_u64, arr, guarded, i, read_ndjson, run_rng, s, u, Out};

thread_local! {
    static IND_CMPS: RefCell<Vec<(usize, usize)>> = const { RefCell::new(Vec::new()) };
    static RES_CMPS: RefCell<Vec<(usize, usize, usize)>> = const { RefCell::new(Vec::new()) };
}

#[derive(Debug, Clone)]
pub struct PRes {
    owner: usize,
    case: usize,
    v: i64,
    error_polarity: bool,
}
impl PartialEq for PRes {
    fn eq(&self, o: &Self) -> bool {
        self.cmp(o) == Ordering::Equal
    }
}
impl Eq for PRes {}
impl PartialOrd for PRes {
    fn partial_cmp(&self, o: &Self) -> Option<Ordering> {
        Some(self.cmp(o))
    }
}
/// A selection that has made this many comparisons is not going to finish (the largest
/// population is 16 500; sorting it takes ~250 000): the probe then panics, which turns
/// non-termination into an observed outcome instead of a hung (and memory-eating) check.
const CMP_BUDGET: usize = 20_000_000;

impl Ord for PRes {
    fn cmp(&self, o: &Self) -> Ordering {
        RES_CMPS.with(|l| {
            let mut l = l.borrow_mut();
            assert!(l.len() < CMP_BUDGET, "selection made more than {CMP_BUDGET} comparisons of results: it does not terminate");
            l.push((self.owner, o.owner, self.case));
        });
        // exactly the orders of Score / Error
        if self.error_polarity {
            ec_core::test_results::Error(self.v).cmp(&ec_core::test_results::Error(o.v))
        } else {
            ec_core::test_results::Score(self.v).cmp(&ec_core::test_results::Score(o.v))
        }
    }
}

#[derive(Debug, Clone)]
pub struct Probe {
    pub id: usize,
    score: i64,
    tr: TestResults<PRes>,
}
impl PartialEq for Probe {
    fn eq(&self, o: &Self) -> bool {
        self.score == o.score
    }
}
impl Eq for Probe {}
impl PartialOrd for Probe {
    fn partial_cmp(&self, o: &Self) -> Option<Ordering> {
        Some(self.cmp(o))
    }
}
impl Ord for Probe {
    fn cmp(&self, o: &Self) -> Ordering {
        IND_CMPS.with(|l| {
            let mut l = l.borrow_mut();
            assert!(l.len() < CMP_BUDGET, "selection made more than {CMP_BUDGET} comparisons of individuals: it does not terminate");
            l.push((self.id, o.id));
        });
        self.score.cmp(&o.score)
    }
}
impl Individual for Probe {
    type Genome = usize;
    type TestResults = TestResults<PRes>;
    fn genome(&self) -> &usize {
        &self.id
    }
    fn test_results(&self) -> &TestResults<PRes> {
        &self.tr
    }
}

/// spec population (sequence of {score, res}) -> probe individuals with ids 1..n
pub fn make_pop(pop: &Value, error_polarity: bool) -> Vec<Probe> {
    arr(pop)
        .iter()
        .enumerate()
        .map(|(k, ind)| {
            let id = k + 1;
            let results: Vec<PRes> = arr(&ind["res"])
                .iter()
                .enumerate()
                .map(|(case, v)| PRes { owner: id, case, v: i(v), error_polarity })
                .collect();
            Probe {
                id,
                score: i(&ind["score"]),
                tr: TestResults { results, total_result: PRes { owner: id, case: usize::MAX, v: 0, error_polarity } },
            }
        })
        .collect()
}

fn clear_logs() {
    IND_CMPS.with(|l| l.borrow_mut().clear());
    RES_CMPS.with(|l| l.borrow_mut().clear());
}

/// Which element of `pop` is `r`?  By address: a reference into a copy is "foreign".
fn locate<'a>(pop: impl Iterator<Item = &'a Probe>, r: &Probe) -> Value {
    for (k, p) in pop.enumerate() {
        if std::ptr::eq(p, r) {
            return json!({"k": "member", "i": k + 1});
        }
    }
    json!({"k": "foreign", "id": r.id})
}

fn lex_err(e: &LexicaseError) -> Value {
    match e {
        LexicaseError::EmptyPopulation(_) => json!({"k": "empty_population"}),
        LexicaseError::MissingTestCase { total_cases, current_index } => {
            json!({"k": "missing_test_case", "total": total_cases, "idx": current_index})
        }
    }
}

/// `TournamentSizeError` has private fields but a public constructor and `==`: the payload is
/// checked against the error the configuration calls for, whatever its rendering
fn tsize_err(e: &ec_core::operator::selector::tournament::TournamentSizeError, k: usize, n: usize) -> Value {
    use ec_core::operator::selector::tournament::TournamentSizeError;
    if NonZeroUsize::new(k).is_some_and(|nz| *e == TournamentSizeError::new(nz, n)) {
        json!({"k": "tournament_size", "size": k, "pop": n})
    } else {
        json!({"k": "tournament_size", "size": "other", "pop": "other", "debug": format!("{e:?}")})
    }
}

/// Container flavours a selector is exercised on.
pub const CONTAINERS: [&str; 4] = ["vec", "deque", "array", "ec"];

/// the repository's own individual type: `EcIndividual` with a genome SHARED by every other
/// member (equal genomes must not make individuals compare equal) and real `TestResults` of
/// `Score` / `Error` values; located by address like the probes
/// `select_on_ec_inner` on a worker thread with a deadline: the repository's individuals carry
/// no probe that could bound a runaway selection, so one that has used 20 s of CPU time without returning is
/// reported as the outcome "hang" (the process exits after its output is written).
pub static HUNG: std::sync::atomic::AtomicBool = std::sync::atomic::AtomicBool::new(false);
fn select_on_ec(case: &Value, rng: &mut SmallRng) -> Value {
    use rand::SeedableRng;
    if HUNG.load(std::sync::atomic::Ordering::SeqCst) {
        // one runaway selection is enough: later ones on this flavour are not started
        return json!({"k": "hang", "msg": "not started: an earlier selection did not return"});
    }
    let case = case.clone();
    let mut own = SmallRng::seed_from_u64(rng.random());
    let (tx, rx) = std::sync::mpsc::channel();
    let (tid_tx, tid_rx) = std::sync::mpsc::channel();
    std::thread::spawn(move || {
        let tid = std::fs::read_link("/proc/thread-self").ok().and_then(|p| p.file_name().and_then(|n| n.to_str().and_then(|t| t.parse::<u64>().ok())));
        let _ = tid_tx.send(tid);
        let _ = tx.send(select_on_ec_inner(&case, &mut own));
    });
    // the deadline counts the CPU TIME the selection itself has used (a runaway selection burns it;
    // a busy machine does not make a healthy one slow in that measure)
    let tid = tid_rx.recv().ok().flatten();
    let started = std::time::Instant::now();
    loop {
        match rx.recv_timeout(std::time::Duration::from_secs(1)) {
            Ok(v) => return v,
            Err(std::sync::mpsc::RecvTimeoutError::Disconnected) => {
                return json!({"k": "panic", "msg": "the selection thread ended without a result"});
            }
            Err(std::sync::mpsc::RecvTimeoutError::Timeout) => {
                let used = tid.and_then(thread_cpu_seconds);
                let over = match used {
                    Some(sec) => sec >= 20.0,
                    None => started.elapsed().as_secs() >= 1800, // no /proc: a very generous wall clock
                };
                if over {
                    HUNG.store(true, std::sync::atomic::Ordering::SeqCst);
                    return json!({"k": "hang", "msg": "selection did not return within 20 s of its own CPU time"});
                }
            }
        }
    }
}
/// CPU seconds (user + system) used so far by thread `tid` of this process
fn thread_cpu_seconds(tid: u64) -> Option<f64> {
    let stat = std::fs::read_to_string(format!("/proc/self/task/{tid}/stat")).ok()?;
    let after = stat.rsplit_once(')')?.1;
    let f: Vec<&str> = after.split_whitespace().collect();
    let ticks = f.get(11)?.parse::<u64>().ok()? + f.get(12)?.parse::<u64>().ok()?;
    Some(ticks as f64 / 100.0)
}
fn select_on_ec_inner(case: &Value, rng: &mut SmallRng) -> Value {
    use ec_core::individual::ec::EcIndividual;
    use ec_core::test_results::{Error, Score};
    let sel = s(&case["sel"]);
    let error_pol = case.get("pol").is_some_and(|p| p == "error");
    macro_rules! run {
        ($wrap:expr, $ty:ty) => {{
            let pop: Vec<EcIndividual<u8, TestResults<$ty>>> = arr(&case["pop"])
                .iter()
                .enumerate()
                .map(|(k, ind)| {
                    // non-lexicase: result vectors of DIFFERENT lengths whose total is the score (an
                    // individual compares as its total does, however many cases it was scored on)
                    let vals: Vec<i64> = if sel == "lexicase" {
                        arr(&ind["res"]).iter().map(i).collect()
                    } else {
                        let mut v = vec![i(&ind["score"])];
                        v.extend(std::iter::repeat_n(0, k % 3));
                        v
                    };
                    EcIndividual::new((k % 2) as u8, vals.into_iter().map($wrap).collect::<TestResults<$ty>>())
                })
                .collect();
            let loc = |r: &EcIndividual<u8, TestResults<$ty>>| {
                pop.iter().position(|p| std::ptr::eq(p, r)).map_or(json!({"k": "foreign"}), |k| json!({"k": "member", "i": k + 1}))
            };
            let empty = |_e| json!({"k": "empty_population"});
            match sel {
                "best" => Best.select(&pop, rng).map_or_else(empty, loc),
                "worst" => Worst.select(&pop, rng).map_or_else(empty, loc),
                "random" => Random.select(&pop, rng).map_or_else(empty, loc),
                "tournament" => {
                    let k = case.get("k_real").map_or(u(&case["k"]), u) as usize;
                    Tournament::new(NonZeroUsize::new(k).expect("k >= 1")).select(&pop, rng).map_or_else(|e| tsize_err(&e, k, pop.len()), loc)
                }
                _ => Lexicase::new(u(&case["c"]) as usize).select(&pop, rng).map_or_else(|e| lex_err(&e), loc),
            }
        }};
    }
    guarded(|| if error_pol { run!(Error, Error<i64>) } else { run!(Score, Score<i64>) })
        .unwrap_or_else(|m| json!({"k": "panic", "msg": m}))
}

/// One real selection.  Returns {res, touched, cmps}.
/// Long-lived objects: a selector is a value a run keeps and applies to one population after the
/// other (growing, shrinking, failing in between), and a generational loop refills the SAME vector
/// (`clear()` + `extend()`: same address, often same length, other members). Half of all selections
/// go through these instead of freshly built ones; what a selection may return is the same.
#[derive(Default)]
struct Registry {
    tournaments: std::collections::HashMap<usize, Tournament>,
    lexicases: std::collections::HashMap<usize, Lexicase>,
    pop: Vec<Probe>,
}
thread_local! {
    static REG: RefCell<Registry> = RefCell::new(Registry::default());
}

pub fn select_once(case: &Value, container: &str, rng: &mut SmallRng) -> Value {
    if container == "ec" {
        return json!({"res": select_on_ec(case, rng), "touched": [], "cmps": []});
    }
    let sel = s(&case["sel"]);
    let error_pol = case.get("pol").is_some_and(|p| p == "error");
    let persistent = rng.random::<bool>();
    let mut reg = if persistent { REG.with(|r| std::mem::take(&mut *r.borrow_mut())) } else { Registry::default() };
    let pop = if persistent {
        let mut buf = std::mem::take(&mut reg.pop);
        if buf.capacity() < 20_000 {
            buf.reserve(20_000);
        }
        buf.clear();
        buf.extend(make_pop(&case["pop"], error_pol));
        buf
    } else {
        make_pop(&case["pop"], error_pol)
    };
    let out = guarded(|| {
        clear_logs();
        macro_rules! on_iterable {
            ($selector:expr, $err:expr) => {{
                match container {
                    #[cfg(feature = "optional_flavours")]
                    "deque" => {
                        let p: VecDeque<Probe> = pop.iter().cloned().collect();
                        match $selector.select(&p, rng) { Ok(r) => locate(p.iter(), r), Err(e) => $err(e) }
                    }
                    "array" if pop.len() == 3 => {
                        let p: [Probe; 3] = [pop[0].clone(), pop[1].clone(), pop[2].clone()];
                        match $selector.select(&p, rng) { Ok(r) => locate(p.iter(), r), Err(e) => $err(e) }
                    }
                    _ => match $selector.select(&pop, rng) { Ok(r) => locate(pop.iter(), r), Err(e) => $err(e) },
                }
            }};
        }
        macro_rules! on_slice {
            ($selector:expr, $err:expr) => {{
                match container {
                    "array" if pop.len() == 3 => {
                        let p: [Probe; 3] = [pop[0].clone(), pop[1].clone(), pop[2].clone()];
                        match $selector.select(&p, rng) { Ok(r) => locate(p.iter(), r), Err(e) => $err(e) }
                    }
                    _ => match $selector.select(&pop, rng) { Ok(r) => locate(pop.iter(), r), Err(e) => $err(e) },
                }
            }};
        }
        let empty = |_e| json!({"k": "empty_population"});
        match sel {
            "best" => on_iterable!(Best, empty),
            "worst" => on_iterable!(Worst, empty),
            "random" => on_slice!(Random, empty),
            "tournament" => {
                // `k_real`: a tournament larger than the population stands for ANY larger size
                let k = case.get("k_real").map_or(u(&case["k"]), u) as usize;
                let n = pop.len();
                // the three ways of building a tournament of size k rotate
                let t = match (k, if persistent && reg.tournaments.contains_key(&k) { 9 } else { rng.random_range(0..2u32) }) {
                    (_, 9) => reg.tournaments.remove(&k).expect("present"),
                    (1, 0) => Tournament::of_size::<1>(),
                    (2, 0) => Tournament::binary(),
                    (2, _) if n % 2 == 0 => Tournament::of_size::<2>(),
                    (3, 0) => Tournament::of_size::<3>(),
                    (4, 0) => Tournament::of_size::<4>(),
                    (5, 0) => Tournament::of_size::<5>(),
                    (6, 0) => Tournament::of_size::<6>(),
                    _ => Tournament::new(NonZeroUsize::new(k).expect("k >= 1")),
                };
                let r = on_slice!(&t, |e| tsize_err(&e, k, n));
                if persistent {
                    reg.tournaments.insert(k, t);
                }
                r
            }
            "lexicase" => {
                let c = u(&case["c"]) as usize;
                let l = if persistent { reg.lexicases.remove(&c) } else { None }.unwrap_or_else(|| Lexicase::new(c));
                let r = on_iterable!(&l, |e: LexicaseError| lex_err(&e));
                if persistent {
                    reg.lexicases.insert(c, l);
                }
                r
            }
            other => {
                eprintln!("unknown selector {other}");
                std::process::exit(2)
            }
        }
    });
    let mut res = out.unwrap_or_else(|m| json!({"k": "panic", "msg": m}));
    // what the population says about itself (the `Population` trait the selectors are written against):
    // its size is its number of members and it is empty exactly when that is zero
    {
        use ec_core::population::Population;
        let (size, empty) = (Population::size(&pop), Population::is_empty(&pop));
        if size != pop.len() || empty != pop.is_empty() {
            res = json!({"k": "population_inconsistent", "members": pop.len(), "size": size, "is_empty": empty});
        }
    }
    if persistent {
        reg.pop = pop;
        REG.with(|r| *r.borrow_mut() = reg);
    }
    let touched: BTreeSet<usize> = IND_CMPS.with(|l| l.borrow().iter().flat_map(|(a, b)| [*a, *b]).collect());
    let cmps: Vec<Value> = RES_CMPS.with(|l| l.borrow().iter().map(|(a, b, c)| json!([a, b, c])).collect());
    json!({"res": res, "touched": touched.into_iter().collect::<Vec<_>>(), "cmps": cmps})
}

/// spec -> impl: every configuration TLC explored, `reps` selections each on every container
/// flavour; the result must lie in the allowed set (the support).
pub fn replay(args: &[String]) -> i32 {
    let cases = read_ndjson(arg_req(args, "--cases"));
    let reps = arg_u64(args, "--reps", 8);
    let seed = arg_u64(args, "--seed", 0);
    let mut out = Out::create(arg_req(args, "--out"));
    let (mut n, mut bad) = (0u64, 0u64);
    for (ci, c) in cases.iter().enumerate() {
        let mut rng = run_rng(seed, 0xC06, ci as u64);
        let deterministic = matches!(s(&c["case"]["sel"]), "best" | "worst") || arr(&c["allowed"]).len() == 1;
        for container in CONTAINERS {
            for _ in 0..(if deterministic { 1 } else { reps }) {
                n += 1;
                let ob = select_once(&c["case"], container, &mut rng);
                if !arr(&c["allowed"]).iter().any(|a| *a == ob["res"]) {
                    bad += 1;
                    out.line(&json!({"kind": "mismatch", "case": c, "container": container, "observed": ob["res"]}));
                    break;
                }
            }
        }
        // a tournament larger than the population is refused whatever its size: the same case with
        // sizes up to usize::MAX
        if c["case"]["sel"] == "tournament" && u(&c["case"]["k"]) as usize > arr(&c["case"]["pop"]).len() {
            let npop = arr(&c["case"]["pop"]).len();
            for k_real in [1usize << 20, 1 << 32, usize::MAX / 4, usize::MAX / 2 + 1, usize::MAX] {
                n += 1;
                let mut case = c["case"].clone();
                case["k_real"] = json!(k_real);
                let ob = select_once(&case, "vec", &mut rng);
                if ob["res"] != json!({"k": "tournament_size", "size": k_real, "pop": npop}) {
                    bad += 1;
                    let mut cc = c.clone();
                    cc["case"] = case;
                    cc["allowed"] = json!([{"k": "tournament_size", "size": k_real, "pop": npop}]);
                    out.line(&json!({"kind": "mismatch", "case": cc, "container": "vec", "observed": ob["res"]}));
                    break;
                }
            }
        }
    }
    out.line(&json!({"kind": "summary", "cases": n, "mismatches": bad}));
    out.finish();
    0
}

/// Empirical law: N selections per LAW case; counts per member index, plus (tournament) counts
/// per drawn subset and (lexicase) counts per first-visited case.
pub fn law(args: &[String]) -> i32 {
    let cases = read_ndjson(arg_req(args, "--cases"));
    let n = arg_u64(args, "--n", 100_000);
    let seed = arg_u64(args, "--seed", 0);
    let mut out = Out::create(arg_req(args, "--out"));
    for (ci, c) in cases.iter().enumerate() {
        let case = &c["case"];
        let mut rng = run_rng(seed, 0x1A3, ci as u64);
        let size = arr(&case["pop"]).len();
        let mut counts = vec![0u64; size];
        let mut other = 0u64;
        let mut subsets: std::collections::BTreeMap<Vec<usize>, u64> = std::collections::BTreeMap::new();
        let mut first_case: std::collections::BTreeMap<u64, u64> = std::collections::BTreeMap::new();
        for _ in 0..n {
            let ob = select_once(case, "vec", &mut rng);
            if ob["res"]["k"] == "member" {
                counts[u(&ob["res"]["i"]) as usize - 1] += 1;
            } else {
                other += 1;
            }
            if case["sel"] == "tournament" && u(&case["k"]) >= 2 {
                let t: Vec<usize> = arr(&ob["touched"]).iter().map(|x| u(x) as usize).collect();
                *subsets.entry(t).or_insert(0) += 1;
            }
            if case["sel"] == "lexicase" {
                if let Some(f) = arr(&ob["cmps"]).first() {
                    *first_case.entry(u(&f[2])).or_insert(0) += 1;
                }
            }
        }
        out.line(&json!({"law": c, "n": n, "counts": counts, "other": other,
                         "subsets": subsets.into_iter().map(|(k, v)| json!([k, v])).collect::<Vec<_>>(),
                         "first_case": first_case.into_iter().map(|(k, v)| json!([k, v])).collect::<Vec<_>>()}));
    }
    out.finish();
    0
}

fn random_pop(rng: &mut SmallRng, nmax: usize, cmax: usize) -> (Value, usize) {
    let n = match rng.random_range(0..10) { 0 => 0, 1 => 1, _ => rng.random_range(2..=nmax) };
    let m = rng.random_range(0..=cmax);
    let ragged = rng.random_range(0..6) == 0;
    let flavour = rng.random_range(0..3); // 0: few distinct values (ties), 1: all equal, 2: spread
    let pop: Vec<Value> = (0..n)
        .map(|_| {
            let len = if ragged { rng.random_range(0..=cmax) } else { m };
            let val = |rng: &mut SmallRng| -> i64 {
                match flavour { 0 => rng.random_range(0..3), 1 => 1, _ => rng.random_range(-50..50) }
            };
            json!({"score": val(rng), "res": (0..len).map(|_| val(rng)).collect::<Vec<_>>()})
        })
        .collect();
    (Value::Array(pop), m)
}

/// impl -> spec: random populations and configurations on their edges.
pub fn trace(args: &[String]) -> i32 {
    let seed = arg_u64(args, "--seed", 0);
    let runs = arg_u64(args, "--runs", 100);
    let first = arg_u64(args, "--first-run", 0);
    let mut out = Out::create(arg_req(args, "--out"));
    for run in first..first + runs {
        let mut rng = run_rng(seed, 0xC06, run);
        if run % 360 == 7 || run % 360 == 8 || run % 360 == 9 {
            // a LARGE population whose only extreme members sit at a chosen position (first, last,
            // around 256 / 1024): best, worst, whole-population and small tournaments; three in a row of
            // the same size (the extreme members move)
            let n = [257usize, 1000, 1024, 1030, 1279, 4097, 5000, 8200, 16_500][run_rng(seed, 0xC06A, run / 360).random_range(0..9)];
            let spots = [0usize, 1, 255, 256, 511, n / 2, n - 2, n - 1];
            let (hi, mut lo) = (spots[rng.random_range(0..8)].min(n - 1), spots[rng.random_range(0..8)].min(n - 1));
            if lo == hi {
                lo = (hi + 1) % n;
            }
            let pop: Vec<Value> = (0..n).map(|i| json!({"score": if i == hi { 9 } else if i == lo { -9 } else { rng.random_range(0..3) }, "res": []})).collect();
            let case = match rng.random_range(0..4) {
                0 => json!({"sel": "best", "pop": pop}),
                1 => json!({"sel": "worst", "pop": pop}),
                2 => json!({"sel": "tournament", "k": n, "pop": pop}),
                _ => {
                    let k = if rng.random() { 2 } else { n - 1 };
                    json!({"sel": "tournament", "k": k, "pop": pop})
                }
            };
            let ob = select_once(&case, "vec", &mut rng);
            out.line(&json!({"ev": "select", "run": run, "case": case, "container": "vec",
                             "res": ob["res"], "touched": ob["touched"], "cmps": ob["cmps"]}));
            continue;
        }
        let (pop, m) = random_pop(&mut rng, 9, 5);
        let n = arr(&pop).len();
        let case = match rng.random_range(0..10) {
            0 => json!({"sel": "best", "pop": pop}),
            1 => json!({"sel": "worst", "pop": pop}),
            2 => json!({"sel": "random", "pop": pop}),
            3..=5 => {
                let k = match rng.random_range(0..4) {
                    0 => n.max(1), 1 => n + 1, 2 => n.saturating_sub(1).max(1), _ => rng.random_range(1..=n.max(1)),
                };
                json!({"sel": "tournament", "k": k, "pop": pop})
            }
            _ => {
                let c = match rng.random_range(0..5) { 0 => m + 1, 1 => m.saturating_sub(1), 2 => 0, _ => m };
                let pol = if rng.random() { "score" } else { "error" };
                json!({"sel": "lexicase", "pol": pol, "c": c, "pop": pop})
            }
        };
        let container = CONTAINERS[rng.random_range(0..3)];
        let ob = select_once(&case, container, &mut rng);
        out.line(&json!({"ev": "select", "run": run, "case": case, "container": container,
                         "res": ob["res"], "touched": ob["touched"], "cmps": ob["cmps"]}));
    }
    out.finish();
    0
}
