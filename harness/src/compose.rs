//! C14: the real operator combinators against spec/ec/Compose.tla.
//!
//! Compositions are statically typed in the library, but replay cases are data: `DynOp` is a
//! dynamic carrier whose variants hold the REAL `Then`, `And`, `Map`, `RepeatWith`, `Identity`,
//! `Constant`, `Mutate`, `Recombine`, `Select`, `GenomeExtractor`, `GenomeScorer`; it only
//! forwards and converts values / error types.

use std::cell::{Cell, RefCell};

use ec_core::{
    individual::{ec::EcIndividual, scorer::FnScorer},
    operator::{
        constant::Constant,
        genome_extractor::GenomeExtractor,
        genome_scorer::GenomeScorer,
        identity::Identity,
        mutator::{Mutate, Mutator},
        recombinator::{Recombinator, Recombine},
        selector::{Select, Selector},
        Composable, Operator,
    },
};
use rand::{Rng, RngCore};
use serde_json::{json, Value};

use crate::util::{arg_req, arg_u64, arr, guarded, i, read_ndjson, run_rng, s, u, Out};

#[derive(Clone, Debug, PartialEq)]
pub enum Val {
    I(i64),
    O { id: u64, inp: Box<Val>, at: u64 },
    P(Box<Val>, Box<Val>),
    L(Vec<Val>),
    Ind(Box<Val>, i64),
}

/// the scorer of Compose.tla (`ScoreOf`): a deterministic, order-sensitive digest
fn score_of(v: &Val) -> i64 {
    match v {
        Val::I(x) => x + 1,
        Val::O { id, inp, at } => 1 + *id as i64 + *at as i64 + score_of(inp),
        Val::P(a, b) => 2 + score_of(a) + 2 * score_of(b),
        Val::L(xs) => 3 + xs.iter().enumerate().map(|(i, x)| (i as i64 + 1) * score_of(x)).sum::<i64>(),
        Val::Ind(g, r) => 5 + score_of(g) + r,
    }
}

fn val_from(v: &Value) -> Val {
    match s(&v["k"]) {
        "i" => Val::I(i(&v["v"])),
        "o" => Val::O { id: u(&v["id"]), inp: Box::new(val_from(&v["inp"])), at: u(&v["at"]) },
        "p" => Val::P(Box::new(val_from(&v["a"])), Box::new(val_from(&v["b"]))),
        "ind" => Val::Ind(Box::new(val_from(&v["g"])), i(&v["r"])),
        _ => Val::L(arr(&v["xs"]).iter().map(val_from).collect()),
    }
}
fn val_to(v: &Val) -> Value {
    match v {
        Val::I(x) => json!({"k": "i", "v": x}),
        Val::O { id, inp, at } => json!({"k": "o", "id": id, "inp": val_to(inp), "at": at}),
        Val::P(a, b) => json!({"k": "p", "a": val_to(a), "b": val_to(b)}),
        Val::L(xs) => json!({"k": "l", "xs": xs.iter().map(val_to).collect::<Vec<_>>()}),
        Val::Ind(g, r) => json!({"k": "ind", "g": val_to(g), "r": r}),
    }
}

thread_local! {
    static WORDS: Cell<u64> = const { Cell::new(0) };
    static CALLS: Cell<u64> = const { Cell::new(0) };
    static FAIL_AT: Cell<u64> = const { Cell::new(0) };
    static LOG: RefCell<Vec<Value>> = const { RefCell::new(Vec::new()) };
    static SCORED: RefCell<Vec<Value>> = const { RefCell::new(Vec::new()) };
}

/// counts every word drawn from the shared stream
struct CountingRng<R>(R);
impl<R: RngCore> RngCore for CountingRng<R> {
    fn next_u32(&mut self) -> u32 {
        WORDS.with(|w| w.set(w.get() + 1));
        self.0.next_u32()
    }
    fn next_u64(&mut self) -> u64 {
        WORDS.with(|w| w.set(w.get() + 1));
        self.0.next_u64()
    }
    fn fill_bytes(&mut self, d: &mut [u8]) {
        WORDS.with(|w| w.set(w.get() + 1));
        self.0.fill_bytes(d);
    }
}

pub enum DynErr {
    Leaf(u64),
    Path(Vec<Value>),
}
// renders without any digit, so that the only number in a combinator error's text is the one
// the combinator put there (the element index of a map error)
impl std::fmt::Debug for DynErr {
    fn fmt(&self, f: &mut std::fmt::Formatter<'_>) -> std::fmt::Result {
        f.write_str("DynErr")
    }
}
impl std::fmt::Display for DynErr {
    fn fmt(&self, f: &mut std::fmt::Formatter<'_>) -> std::fmt::Result {
        f.write_str("component failed")
    }
}
impl std::error::Error for DynErr {}

fn path_of(e: DynErr) -> Vec<Value> {
    match e {
        DynErr::Leaf(id) => vec![json!({"s": "leaf", "i": id})],
        DynErr::Path(p) => p,
    }
}
/// the component operator: draws one word, logs (id, input, stream position), maybe fails
#[derive(Clone)]
struct Probe(u64);
impl Probe {
    fn run<R: Rng + ?Sized>(&self, x: Val, rng: &mut R) -> Result<Val, DynErr> {
        let at = WORDS.with(Cell::get);
        let _word = rng.next_u64();
        let call = CALLS.with(|c| {
            c.set(c.get() + 1);
            c.get()
        });
        LOG.with(|l| l.borrow_mut().push(json!({"id": self.0, "inp": val_to(&x), "at": at})));
        if call == FAIL_AT.with(Cell::get) {
            Err(DynErr::Leaf(self.0))
        } else {
            Ok(Val::O { id: self.0, inp: Box::new(x), at })
        }
    }
}
impl Composable for Probe {}
impl Operator<Val> for Probe {
    type Output = Val;
    type Error = DynErr;
    fn apply<R: Rng + ?Sized>(&self, x: Val, rng: &mut R) -> Result<Val, DynErr> {
        self.run(x, rng)
    }
}
impl Mutator<Val> for Probe {
    type Error = DynErr;
    fn mutate<R: Rng + ?Sized>(&self, g: Val, rng: &mut R) -> Result<Val, DynErr> {
        self.run(g, rng)
    }
}
impl Recombinator<Val> for Probe {
    type Output = Val;
    type Error = DynErr;
    fn recombine<R: Rng + ?Sized>(&self, g: Val, rng: &mut R) -> Result<Val, DynErr> {
        self.run(g, rng)
    }
}

/// the component selector: draws one word, logs like `Probe`, maybe fails, otherwise returns
/// the member at (stream position mod size) of the population it was given - by reference
impl Selector<Vec<Val>> for Probe {
    type Error = DynErr;
    fn select<'pop, R: Rng + ?Sized>(&self, pop: &'pop Vec<Val>, rng: &mut R) -> Result<&'pop Val, DynErr> {
        let at = WORDS.with(Cell::get);
        let _word = rng.next_u64();
        let call = CALLS.with(|c| {
            c.set(c.get() + 1);
            c.get()
        });
        LOG.with(|l| l.borrow_mut().push(json!({"id": self.0, "inp": val_to(&Val::L(pop.clone())), "at": at})));
        if call == FAIL_AT.with(Cell::get) || pop.is_empty() {
            // nothing to select from: the selector says so itself
            Err(DynErr::Leaf(self.0))
        } else {
            Ok(&pop[(at as usize) % pop.len()])
        }
    }
}

/// `GenomeScorer` needs a genome maker over `&population`; this adapter hands the population
/// (as a list value) to an arbitrary composition
struct OnPopulation(DynOp);
impl Composable for OnPopulation {}
impl<'pop> Operator<&'pop Vec<Val>> for OnPopulation {
    type Output = Val;
    type Error = DynErr;
    fn apply<R: Rng + ?Sized>(&self, pop: &'pop Vec<Val>, rng: &mut R) -> Result<Val, DynErr> {
        self.0.apply(Val::L(pop.clone()), rng)
    }
}

fn as_individual(x: Val) -> EcIndividual<Val, i64> {
    match x {
        Val::Ind(g, r) => EcIndividual::new(*g, r),
        other => panic!("individual expected, got {other:?}"),
    }
}

/// The combinator types (`Then`, `And`, `Map`, `RepeatWith`) and their error types live in
/// private modules of ec-core and cannot be named: compositions are built through the public
/// `Composable` methods and kept behind a closure.
pub struct DynOp(Box<dyn Fn(Val, &mut dyn RngCore) -> Result<Val, DynErr>>);
impl Composable for DynOp {}
impl Operator<Val> for DynOp {
    type Output = Val;
    type Error = DynErr;
    fn apply<R: Rng + ?Sized>(&self, x: Val, mut rng: &mut R) -> Result<Val, DynErr> {
        (self.0)(x, &mut rng)
    }
}

/// the integers written in a text
fn numbers_in(text: &str) -> Vec<u64> {
    text.split(|c: char| !c.is_ascii_digit()).filter(|t| !t.is_empty()).filter_map(|t| t.parse().ok()).collect()
}

/// One level of a combinator error -> the step it names. The enums live in private modules and
/// cannot be matched on from outside the crate, so the step is read from what the error says
/// about itself: a then / and error names its part ("First" / "Second", from its `Debug` variant
/// name or, failing that, the wording of `Display`); a map error carries exactly one number -
/// the element index - in its `Display` (or `Debug`) text, whatever the wording. The cause is its
/// `source()`.
fn step_json(e: &(dyn std::error::Error + 'static), combinator: &str) -> Value {
    let mut dbg = format!("{e:?}");
    let mut msg = e.to_string();
    if let Some(src) = e.source() {
        // what the cause says about itself is not what this level says
        msg = msg.replace(&src.to_string(), "");
        dbg = dbg.replace(&format!("{src:?}"), "");
    }
    if combinator == "map" {
        let mut nums = numbers_in(&msg);
        if nums.is_empty() {
            nums = numbers_in(&dbg);
        }
        nums.dedup();
        match nums.as_slice() {
            [idx] => json!({"s": "elem", "i": idx}),
            _ => json!({"s": "elem", "i": "unreadable", "display": msg, "debug": dbg}),
        }
    } else {
        let lower = msg.to_lowercase();
        let (f, g) = (dbg.starts_with("First"), dbg.starts_with("Second"));
        let (f, g) = if f || g { (f, g) } else { (lower.contains("first"), lower.contains("second")) };
        match (f, g) {
            (true, false) => json!({"s": "first", "i": 0}),
            (false, true) => json!({"s": "second", "i": 0}),
            _ => json!({"s": "unknown", "i": 0, "display": msg, "debug": dbg}),
        }
    }
}

fn step_of<E: std::error::Error + 'static>(e: &E, combinator: &str) -> DynErr {
    let step = step_json(e, combinator);
    let inner = e.source().and_then(|s| s.downcast_ref::<DynErr>()).map_or_else(
        || vec![json!({"s": "lost", "i": 0})],
        |d| match d {
            DynErr::Leaf(id) => vec![json!({"s": "leaf", "i": id})],
            DynErr::Path(p) => p.clone(),
        },
    );
    let mut p = vec![step];
    p.extend(inner);
    DynErr::Path(p)
}

/// The error of a composition whose parts are nested DIRECTLY (the repository's combinator types inside one
/// another, no harness closure in between): one step per level; the expression says which combinator each level
/// is (a repetition adds no level: its error is its part's error).
fn nested_path(e: &(dyn std::error::Error + 'static), expr: &Value) -> Vec<Value> {
    if let Some(d) = e.downcast_ref::<DynErr>() {
        return match d {
            DynErr::Leaf(id) => vec![json!({"s": "leaf", "i": id})],
            DynErr::Path(p) => p.clone(),
        };
    }
    let op = expr["op"].as_str().unwrap_or("");
    if op == "rep" {
        return nested_path(e, &expr["a"]);
    }
    let step = step_json(e, if op.starts_with("map") { "map" } else { "bin" });
    let child = match step["s"].as_str() {
        Some("first" | "elem") => &expr["a"],
        Some("second") => &expr["b"],
        _ => &Value::Null,
    };
    let mut p = vec![step.clone()];
    match e.source() {
        Some(src) if !child.is_null() => p.extend(nested_path(src, child)),
        _ => p.push(json!({"s": "lost", "i": 0})),
    }
    p
}

fn pair(a: Val, b: Val) -> Val {
    Val::P(Box::new(a), Box::new(b))
}

/// `GenomeScorer` applied to a population whose members are NOT individuals of the type it makes
/// (any population type is accepted) is an optional flavour: without it such cases are skipped.
#[allow(dead_code)]
const UNSUPPORTED: &str = "flavour not built: GenomeScorer on a foreign population";
pub const LEAF_KINDS: [&str; 7] = ["probe", "mutate", "mutate_ref", "recombine", "recombine_ref", "mutate_dyn", "recombine_dyn"];

fn build(e: &Value, kind: &str) -> DynOp {
    match s(&e["op"]) {
        "leaf" => {
            let p = Probe(u(&e["id"]));
            match kind {
                "mutate" => { let m = Mutate::new(p); DynOp(Box::new(move |x, mut r| m.apply(x, &mut r))) }
                "mutate_ref" => DynOp(Box::new(move |x, mut r| Mutate::new(&p).apply(x, &mut r))),
                "recombine" => { let m = Recombine::new(p); DynOp(Box::new(move |x, mut r| m.apply(x, &mut r))) }
                "recombine_ref" => DynOp(Box::new(move |x, mut r| Recombine::new(&p).apply(x, &mut r))),
                // ... the wrapped part held as a trait object
                "mutate_dyn" => {
                    let b: Box<dyn ec_core::operator::mutator::DynMutator<Val, DynErr>> = Box::new(p);
                    let m = Mutate::new(b);
                    DynOp(Box::new(move |x, mut r| m.apply(x, &mut r)))
                }
                "recombine_dyn" => {
                    let b: Box<dyn ec_core::operator::recombinator::DynRecombinator<Val, DynErr, Output = Val>> = Box::new(p);
                    let m = Recombine::new(b);
                    DynOp(Box::new(move |x, mut r| m.apply(x, &mut r)))
                }
                _ => DynOp(Box::new(move |x, mut r| p.apply(x, &mut r))),
            }
        }
        "id" => DynOp(Box::new(|x, mut r| Identity.apply(x, &mut r).map_err(|e| match e {}))),
        "const" => {
            let c = Constant::new(val_from(&e["v"]));
            DynOp(Box::new(move |x, mut r| c.apply(x, &mut r).map_err(|e| match e {})))
        }
        "sel" => {
            let p = Probe(u(&e["id"]));
            if kind.ends_with("_ref") {
                DynOp(Box::new(move |x, mut r| match x {
                    Val::L(xs) => Select::new(&p).apply(&xs, &mut r).cloned(),
                    other => panic!("select applied to {other:?}"),
                }))
            } else {
                let sel = Select::new(p);
                DynOp(Box::new(move |x, mut r| match x {
                    Val::L(xs) => sel.apply(&xs, &mut r).cloned(),
                    other => panic!("select applied to {other:?}"),
                }))
            }
        }
        "ext" => DynOp(Box::new(|x, mut r| {
            let ind = as_individual(x);
            GenomeExtractor.apply(&ind, &mut r).map_err(|e| match e {})
        })),
        #[cfg(not(feature = "optional_flavours"))]
        "scorer" => panic!("{UNSUPPORTED}"),
        #[cfg(feature = "optional_flavours")]
        "scorer" => {
            let scorer = FnScorer(|g: &Val| {
                SCORED.with(|l| l.borrow_mut().push(val_to(g)));
                score_of(g)
            });
            let maker = OnPopulation(build(&e["a"], kind));
            if kind.ends_with("_ref") {
                // built through the public `wrap` as the examples do
                let gs: GenomeScorer<_, _> = maker.wrap::<GenomeScorer<_, _>>(scorer);
                DynOp(Box::new(move |x, mut r| match x {
                    Val::L(xs) => gs.apply(&xs, &mut r).map(|ind| Val::Ind(Box::new(ind.genome), ind.test_results)),
                    other => panic!("genome scorer applied to {other:?}"),
                }))
            } else {
                let gs = GenomeScorer::new(maker, scorer);
                DynOp(Box::new(move |x, mut r| match x {
                    Val::L(xs) => gs.apply(&xs, &mut r).map(|ind| Val::Ind(Box::new(ind.genome), ind.test_results)),
                    other => panic!("genome scorer applied to {other:?}"),
                }))
            }
        }
        // DIRECT nestings (the repository's combinator types inside one another, as in a user's pipeline; every
        // other sub-expression sits behind a harness closure): then / and / map / repetition around a `then`,
        // `then` around a repetition or an `and`
        "then" if e["a"]["op"] == "then" => {
            let (t, ex) = (build(&e["a"]["a"], kind).then(build(&e["a"]["b"], kind)).then(build(&e["b"], kind)), e.clone());
            DynOp(Box::new(move |x, mut r| t.apply(x, &mut r).map_err(|er| DynErr::Path(nested_path(&er, &ex)))))
        }
        "then" if e["b"]["op"] == "then" => {
            let (t, ex) = (build(&e["a"], kind).then(build(&e["b"]["a"], kind).then(build(&e["b"]["b"], kind))), e.clone());
            DynOp(Box::new(move |x, mut r| t.apply(x, &mut r).map_err(|er| DynErr::Path(nested_path(&er, &ex)))))
        }
        "then" if e["b"]["op"] == "and" => {
            let (t, ex) = (build(&e["a"], kind).then(build(&e["b"]["a"], kind).and(build(&e["b"]["b"], kind))), e.clone());
            DynOp(Box::new(move |x, mut r| t.apply(x, &mut r).map(|(a, b)| pair(a, b)).map_err(|er| DynErr::Path(nested_path(&er, &ex)))))
        }
        "then" if e["b"]["op"] == "rep" && e["b"]["a"]["op"] != "then" && e["b"]["a"]["op"] != "and" => {
            let ex = e.clone();
            macro_rules! direct {
                ($n:literal) => {{
                    let t = build(&e["a"], kind).then(build(&e["b"]["a"], kind).apply_n_times::<$n>());
                    DynOp(Box::new(move |x, mut r| t.apply(x, &mut r).map(|v| Val::L(v.to_vec())).map_err(|er| DynErr::Path(nested_path(&er, &ex)))))
                }};
            }
            match u(&e["b"]["n"]) {
                0 => direct!(0),
                1 => direct!(1),
                2 => direct!(2),
                _ => direct!(3),
            }
        }
        "and" if e["a"]["op"] == "then" => {
            let (t, ex) = (build(&e["a"]["a"], kind).then(build(&e["a"]["b"], kind)).and(build(&e["b"], kind)), e.clone());
            DynOp(Box::new(move |x, mut r| t.apply(x, &mut r).map(|(a, b)| pair(a, b)).map_err(|er| DynErr::Path(nested_path(&er, &ex)))))
        }
        "and" if e["b"]["op"] == "then" => {
            let (t, ex) = (build(&e["a"], kind).and(build(&e["b"]["a"], kind).then(build(&e["b"]["b"], kind))), e.clone());
            DynOp(Box::new(move |x, mut r| t.apply(x, &mut r).map(|(a, b)| pair(a, b)).map_err(|er| DynErr::Path(nested_path(&er, &ex)))))
        }
        "map_t" if e["a"]["op"] == "then" => {
            let (m, ex) = (Identity.map(build(&e["a"]["a"], kind).then(build(&e["a"]["b"], kind))), e.clone());
            DynOp(Box::new(move |x, mut r| match x {
                Val::P(a, b) => m.apply((*a, *b), &mut r).map(|(a, b)| pair(a, b)).map_err(|er| DynErr::Path(nested_path(&er, &ex))),
                other => panic!("map over a pair applied to {other:?}"),
            }))
        }
        "map_a" if e["a"]["op"] == "then" => {
            let (m, ex) = (Identity.map(build(&e["a"]["a"], kind).then(build(&e["a"]["b"], kind))), e.clone());
            DynOp(Box::new(move |x, mut r| match x {
                Val::P(a, b) => m.apply([*a, *b], &mut r).map(|[a, b]| pair(a, b)).map_err(|er| DynErr::Path(nested_path(&er, &ex))),
                other => panic!("map over an array applied to {other:?}"),
            }))
        }
        "map_v" if e["a"]["op"] == "then" => {
            let (m, ex) = (Identity.map(build(&e["a"]["a"], kind).then(build(&e["a"]["b"], kind))), e.clone());
            DynOp(Box::new(move |x, mut r| match x {
                Val::L(xs) => m.apply(xs, &mut r).map(Val::L).map_err(|er| DynErr::Path(nested_path(&er, &ex))),
                other => panic!("map over a vector applied to {other:?}"),
            }))
        }
        "then" => {
            let t = build(&e["a"], kind).then(build(&e["b"], kind));
            DynOp(Box::new(move |x, mut r| t.apply(x, &mut r).map_err(|e| step_of(&e, "bin"))))
        }
        "and" => {
            let t = build(&e["a"], kind).and(build(&e["b"], kind));
            DynOp(Box::new(move |x, mut r| t.apply(x, &mut r).map(|(a, b)| pair(a, b)).map_err(|e| step_of(&e, "bin"))))
        }
        "map_t" => {
            let m = Identity.map(build(&e["a"], kind));
            DynOp(Box::new(move |x, mut r| match x {
                Val::P(a, b) => m.apply((*a, *b), &mut r).map(|(a, b)| pair(a, b)).map_err(|e| step_of(&e, "map")),
                other => panic!("map over a pair applied to {other:?}"),
            }))
        }
        "map_a" => {
            let m = Identity.map(build(&e["a"], kind));
            DynOp(Box::new(move |x, mut r| match x {
                Val::P(a, b) => m.apply([*a, *b], &mut r).map(|[a, b]| pair(a, b)).map_err(|e| step_of(&e, "map")),
                other => panic!("map over an array applied to {other:?}"),
            }))
        }
        "map_v" => {
            let m = Identity.map(build(&e["a"], kind));
            DynOp(Box::new(move |x, mut r| match x {
                Val::L(xs) => m.apply(xs, &mut r).map(Val::L).map_err(|e| step_of(&e, "map")),
                other => panic!("map over a vector applied to {other:?}"),
            }))
        }
        // a repetition DIRECTLY around a `then` / `and` of the repository (no harness closure in between: the
        // repository's combinators see each other's concrete types, as they do in a user's pipeline)
        "rep" if e["a"]["op"] == "then" => {
            let a = build(&e["a"]["a"], kind).then(build(&e["a"]["b"], kind));
            macro_rules! direct {
                ($t:expr) => {{ let t = $t; DynOp(Box::new(move |x, mut r| t.apply(x, &mut r).map(|v| Val::L(v.to_vec())).map_err(|e| step_of(&e, "bin")))) }};
            }
            match u(&e["n"]) {
                0 => direct!(a.apply_n_times::<0>()),
                1 => direct!(a.apply_n_times::<1>()),
                2 => direct!(a.apply_twice()),
                _ => direct!(a.apply_n_times::<3>()),
            }
        }
        "rep" if e["a"]["op"] == "and" => {
            let a = build(&e["a"]["a"], kind).and(build(&e["a"]["b"], kind));
            macro_rules! direct {
                ($t:expr) => {{ let t = $t; DynOp(Box::new(move |x, mut r| t.apply(x, &mut r).map(|v| Val::L(v.into_iter().map(|(a, b)| pair(a, b)).collect())).map_err(|e| step_of(&e, "bin")))) }};
            }
            match u(&e["n"]) {
                0 => direct!(a.apply_n_times::<0>()),
                1 => direct!(a.apply_n_times::<1>()),
                2 => direct!(a.apply_twice()),
                _ => direct!(a.apply_n_times::<3>()),
            }
        }
        "rep" => {
            let a = build(&e["a"], kind);
            match u(&e["n"]) {
                0 => { let t = a.apply_n_times::<0>(); DynOp(Box::new(move |x, mut r| t.apply(x, &mut r).map(|v| Val::L(v.to_vec())))) }
                1 => { let t = a.apply_n_times::<1>(); DynOp(Box::new(move |x, mut r| t.apply(x, &mut r).map(|v| Val::L(v.to_vec())))) }
                2 => { let t = a.apply_twice(); DynOp(Box::new(move |x, mut r| t.apply(x, &mut r).map(|v| Val::L(v.to_vec())))) }
                _ => { let t = a.apply_n_times::<3>(); DynOp(Box::new(move |x, mut r| t.apply(x, &mut r).map(|v| Val::L(v.to_vec())))) }
            }
        }
        other => {
            eprintln!("unknown expression {other}");
            std::process::exit(2)
        }
    }
}

/// run one case with one leaf kind: {ok, v, path, log, words}
pub fn run_case(case: &Value, kind: &str, seed: u64) -> Value {
    let r = guarded(|| {
        WORDS.with(|w| w.set(0));
        CALLS.with(|c| c.set(0));
        FAIL_AT.with(|f| f.set(u(&case["failAt"])));
        LOG.with(|l| l.borrow_mut().clear());
        SCORED.with(|l| l.borrow_mut().clear());
        let op = build(&case["e"], kind);
        // the SAME composition object has a history: it was applied before - without a failure, then with a
        // component failing early, then with one failing late (so the last thing that happened to it may be a failure). What it does now is a function of
        // the expression, the input and the generator, not of what happened to it earlier.
        if seed % 2 == 1 {
            for warm in [0, 1 + seed % 3, 4 + seed % 5] {
                FAIL_AT.with(|f| f.set(warm));
                CALLS.with(|c| c.set(0));
                let mut scratch = CountingRng(run_rng(seed, 0xC14, 2 + warm));
                let _ = op.apply(val_from(&case["x"]), &mut scratch);
            }
            WORDS.with(|w| w.set(0));
            CALLS.with(|c| c.set(0));
            FAIL_AT.with(|f| f.set(u(&case["failAt"])));
            LOG.with(|l| l.borrow_mut().clear());
            SCORED.with(|l| l.borrow_mut().clear());
        }
        let mut rng = CountingRng(run_rng(seed, 0xC14, 1));
        let res = op.apply(val_from(&case["x"]), &mut rng);
        let log: Vec<Value> = LOG.with(|l| l.borrow().clone());
        let words = WORDS.with(Cell::get);
        let scored: Vec<Value> = SCORED.with(|l| l.borrow().clone());
        match res {
            Ok(v) => json!({"ok": true, "v": val_to(&v), "path": [], "log": log, "words": words, "scored": scored}),
            Err(e) => json!({"ok": false, "v": {"k": "i", "v": 0}, "path": path_of(e), "log": log, "words": words, "scored": scored}),
        }
    });
    r.unwrap_or_else(|m| if m.contains(UNSUPPORTED) { json!({"skipped": true}) } else { json!({"panic": m}) })
}

pub fn replay(args: &[String]) -> i32 {
    let cases = read_ndjson(arg_req(args, "--cases"));
    let mut out = Out::create(arg_req(args, "--out"));
    let (mut n, mut bad) = (0u64, 0u64);
    for (ci, c) in cases.iter().enumerate() {
        // every case with the plain component; the wrapper kinds rotate over the cases
        let kinds = ["probe", LEAF_KINDS[1 + ci % 6]];
        for kind in kinds {
            n += 1;
            let ob = run_case(&c["case"], kind, ci as u64);
            if ob.get("skipped").is_some() {
                continue;
            }
            if ob != c["exp"] {
                bad += 1;
                out.line(&json!({"kind": "mismatch", "case": c, "leaf_kind": kind, "observed": ob}));
            }
        }
    }
    out.line(&json!({"kind": "summary", "cases": n, "mismatches": bad}));
    out.finish();
    0
}

fn shape_atom() -> Value {
    json!({"k": "a"})
}

/// random well-typed expression for an input of shape `sh`; returns (expr, output shape)
fn gen(rng: &mut impl Rng, depth: u32, sh: &Value, next_id: &mut u64) -> (Value, Value) {
    // shape-directed operators of the pipelines: select from a non-empty population, extract
    // the genome of an individual, score what a composition makes from a population
    match s(&sh["k"]) {
        "l" if (u(&sh["n"]) > 0 || rng.random_range(0..2) == 0) && rng.random_range(0..3) == 0 => {
            *next_id += 1;
            return (json!({"op": "sel", "id": *next_id}), sh["e"].clone());
        }
        "l" if depth > 0 && rng.random_range(0..3) == 0 => {
            let (a, sa) = gen(rng, depth - 1, sh, next_id);
            return (json!({"op": "scorer", "a": a}), json!({"k": "ind", "g": sa}));
        }
        "ind" if rng.random_range(0..2) == 0 => return (json!({"op": "ext"}), sh["g"].clone()),
        _ => {}
    }
    let leafish = depth == 0 || rng.random_range(0..4) == 0;
    if leafish {
        return match rng.random_range(0..6) {
            0 => (json!({"op": "id"}), sh.clone()),
            1 => (json!({"op": "const", "v": {"k": "i", "v": 7}}), shape_atom()),
            _ => {
                *next_id += 1;
                (json!({"op": "leaf", "id": *next_id}), shape_atom())
            }
        };
    }
    match rng.random_range(0..6) {
        0 => {
            let (a, sa) = gen(rng, depth - 1, sh, next_id);
            let (b, sb) = gen(rng, depth - 1, &sa, next_id);
            (json!({"op": "then", "a": a, "b": b}), sb)
        }
        1 => {
            let (a, sa) = gen(rng, depth - 1, sh, next_id);
            let (b, sb) = gen(rng, depth - 1, sh, next_id);
            (json!({"op": "and", "a": a, "b": b}), json!({"k": "p", "a": sa, "b": sb}))
        }
        2 => {
            let n = rng.random_range(0..=3u64);
            let (a, sa) = gen(rng, depth - 1, sh, next_id);
            (json!({"op": "rep", "n": n, "a": a}), json!({"k": "l", "n": n, "e": sa}))
        }
        _ => match s(&sh["k"]) {
            // map needs an element type shared by both components / all elements
            "p" if sh["a"] == sh["b"] => {
                let (a, sa) = gen(rng, depth - 1, &sh["a"], next_id);
                let op = if rng.random() { "map_t" } else { "map_a" };
                (json!({"op": op, "a": a}), json!({"k": "p", "a": sa.clone(), "b": sa}))
            }
            "l" => {
                let (a, sa) = gen(rng, depth - 1, &sh["e"], next_id);
                (json!({"op": "map_v", "a": a}), json!({"k": "l", "n": sh["n"], "e": sa}))
            }
            _ => {
                *next_id += 1;
                (json!({"op": "leaf", "id": *next_id}), shape_atom())
            }
        },
    }
}

fn value_of_shape(sh: &Value, rng: &mut impl Rng) -> Value {
    match s(&sh["k"]) {
        "p" => json!({"k": "p", "a": value_of_shape(&sh["a"], rng), "b": value_of_shape(&sh["b"], rng)}),
        "l" => json!({"k": "l", "xs": (0..u(&sh["n"])).map(|_| value_of_shape(&sh["e"], rng)).collect::<Vec<_>>()}),
        "ind" => json!({"k": "ind", "g": value_of_shape(&sh["g"], rng), "r": rng.random_range(0..9)}),
        _ => json!({"k": "i", "v": rng.random_range(0..9)}),
    }
}

/// impl -> spec: deeper random compositions
pub fn trace(args: &[String]) -> i32 {
    let seed = arg_u64(args, "--seed", 0);
    let runs = arg_u64(args, "--runs", 100);
    let first = arg_u64(args, "--first-run", 0);
    let mut out = Out::create(arg_req(args, "--out"));
    for run in first..first + runs {
        let mut rng = run_rng(seed, 0xC14, run + 7);
        let insh = match rng.random_range(0..7) {
            0 => json!({"k": "p", "a": {"k": "a"}, "b": {"k": "a"}}),
            1 => json!({"k": "l", "n": rng.random_range(0..4), "e": {"k": "a"}}),
            2 | 3 => json!({"k": "l", "n": rng.random_range(0..5), "e": {"k": "ind", "g": {"k": "a"}}}),
            4 => json!({"k": "ind", "g": {"k": "p", "a": {"k": "a"}, "b": {"k": "a"}}}),
            _ => shape_atom(),
        };
        let mut ids = 0u64;
        let (e, _) = gen(&mut rng, 5, &insh, &mut ids);
        let x = value_of_shape(&insh, &mut rng);
        // number of leaf calls without failure, to aim failAt inside the run half of the time
        let dry = run_case(&json!({"e": e, "x": x, "failAt": 0}), "probe", run);
        if dry.get("skipped").is_some() {
            continue;
        }
        let total = dry["log"].as_array().map_or(0, Vec::len) as u64;
        if total > 60 {
            continue;
        }
        let fail_at = if total > 0 && rng.random() { rng.random_range(1..=total) } else { 0 };
        let kind = LEAF_KINDS[rng.random_range(0..7)];
        let case = json!({"e": e, "x": x, "failAt": fail_at});
        let ob = run_case(&case, kind, run);
        if ob.get("skipped").is_some() {
            continue;
        }
        out.line(&json!({"ev": "apply", "run": run, "case": case, "leaf_kind": kind, "res": ob}));
    }
    out.finish();
    0
}
