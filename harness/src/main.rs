//! verif-harness: binds the TLA+ specifications under /verif/spec to the real
//! unhindered-ec code (path dependencies on /repo/packages/*).
//!
//! Every sub-command either *replays* cases emitted by TLC against the real
//! implementation (spec -> impl) or *records* traces of the real implementation
//! for TLC to validate (impl -> spec).  No expected values are computed here:
//! the harness only projects real results into the vocabulary of the specs.

mod util;
mod variation;
mod weighted;
mod choices;
mod compose;
mod generation;
mod ordering;
mod plushy;
mod proj;
mod selection;
mod stack;
mod vm;

fn main() {
    let args: Vec<String> = std::env::args().skip(1).collect();
    if args.is_empty() {
        eprintln!("usage: vh <subcommand> [args]");
        std::process::exit(2);
    }
    util::silence_panics();
    let rest = &args[1..];
    let rc = match args[0].as_str() {
        "stack-replay" => stack::replay(rest),
        "stack-trace" => stack::trace(rest),
        "ch-replay" => choices::replay(rest),
        "ch-law" => choices::law(rest),
        "ch-trace" => choices::trace(rest),
        "cmp-replay" => compose::replay(rest),
        "cmp-trace" => compose::trace(rest),
        "gen-trace" => generation::trace(rest),
        "ord-replay" => ordering::replay(rest),
        "ord-construct" => ordering::construct_trace(rest),
        "plushy-replay" => plushy::replay(rest),
        "plushy-trace" => plushy::trace(rest),
        "var-replay" => variation::replay(rest),
        "var-trace" => variation::trace(rest),
        "var-segments" => variation::segments(rest),
        "sel-replay" => selection::replay(rest),
        "sel-law" => selection::law(rest),
        "sel-trace" => selection::trace(rest),
        "wt-replay" => weighted::replay(rest),
        "wt-law" => weighted::law(rest),
        "wt-nested-trace" => weighted::nested_trace(rest),
        "vm-step-replay" => vm::step_replay(rest),
        "vm-run-replay" => vm::run_replay(rest),
        "vm-trace" => vm::trace(rest),
        "vm-long" => vm::long_runs(rest),
        "num-opens" => vm::num_opens_table(rest),
        other => {
            eprintln!("unknown subcommand {other}");
            2
        }
    };
    std::process::exit(rc);
}
