//! verif-harness: binds the TLA+ specifications under /verif/spec to the real
//! unhindered-ec code (path dependencies on /repo/packages/*).
//!
//! Every sub-command either *replays* cases emitted by TLC against the real
//! implementation (spec -> impl) or *records* traces of the real implementation
//! for TLC to validate (impl -> spec).  No expected values are computed here:
//! the harness only projects real results into the vocabulary of the specs.

mod util;
mod variation;
mod weighted;
mod cases;
mod choices;
mod compose;
mod evolution;
mod gp;
mod functional;
mod generation;
mod laws;
mod ordering;
mod plushy;
mod proj;
mod selection;
mod stack;
mod vm;

fn main() {
    let args: Vec<String> = std::env::args().skip(1).collect();
    if args.is_empty() {
        eprintln!("usage: vh <subcommand> [args]");
        std::process::exit(2);
    }
    util::silence_panics();
    util::start_hang_monitor(&args[0]);
    let rest = &args[1..];
    // A panic of the code under test that a driver did not intercept is still an observation:
    // report it (exit 3) instead of dying with a backtrace.
    let rc = std::panic::catch_unwind(|| dispatch(&args[0], rest)).unwrap_or_else(|e| {
        let msg = e.downcast_ref::<&str>().map(|s| (*s).to_string())
            .or_else(|| e.downcast_ref::<String>().cloned()).unwrap_or_else(|| "panic".to_string());
        println!("UNGUARDED-PANIC {}", serde_json::json!({"subcommand": args[0], "msg": msg}));
        3
    });
    std::process::exit(rc);
}

fn dispatch(cmd: &str, rest: &[String]) -> i32 {
    match cmd {
        "stack-replay" => stack::replay(rest),
        "stack-trace" => stack::trace(rest),
        "ch-replay" => choices::replay(rest),
        "ch-law" => choices::law(rest),
        "ch-trace" => choices::trace(rest),
        "ch-sizes" => choices::sizes(rest),
        "ch-huge" => choices::huge(rest),
        "cases-trace" => cases::trace(rest),
        "evo-trace" => evolution::trace(rest),
        "gp-trace" => gp::trace(rest),
        "gp-replay" => gp::replay(rest),
        "gp-evo-trace" => gp::evo_trace(rest),
        "cmp-replay" => compose::replay(rest),
        "cmp-trace" => compose::trace(rest),
        "law-var" => laws::run(rest),
        "fn-trace" => functional::trace(rest),
        "fn-push-trace" => functional::push_trace(rest),
        "gen-trace" => generation::trace(rest),
        "gen-sched" => generation::sched(rest),
        "ord-replay" => ordering::replay(rest),
        "ord-construct" => ordering::construct_trace(rest),
        "plushy-replay" => plushy::replay(rest),
        "plushy-trace" => plushy::trace(rest),
        "var-replay" => variation::replay(rest),
        "var-trace" => variation::trace(rest),
        "var-segments" => variation::segments(rest),
        "var-pairs" => variation::pairs(rest),
        "sel-replay" => selection::replay(rest),
        "sel-law" => selection::law(rest),
        "sel-trace" => selection::trace(rest),
        "wt-replay" => weighted::replay(rest),
        "wt-law" => weighted::law(rest),
        "wt-nested-trace" => weighted::nested_trace(rest),
        "vm-step-replay" => vm::step_replay(rest),
        "vm-run-replay" => vm::run_replay(rest),
        "vm-trace" => vm::trace(rest),
        "vm-long" => vm::long_runs(rest),
        "vm-counted" => vm::counted_runs(rest),
        "num-opens" => vm::num_opens_table(rest),
        other => {
            eprintln!("unknown subcommand {other}");
            2
        }
    }
}
