//! C13 (and the weighted / nested part of C06): real `Weighted`, `WeightedPair`, the
//! `WithWeightedItem` chain API and `DynWeighted` against spec/ec/Weighted.tla.
//!
//! Tree shapes are data, but `WeightedPair<A, B>` is statically typed: `Node` is a small
//! dynamic carrier whose `Pair` variant holds a REAL `WeightedPair<Node, Node>`; it only
//! forwards and converts error types.

use std::cell::{Cell, RefCell};
use std::num::NonZeroUsize;

use ec_core::{
    operator::selector::{
        best::Best, dyn_weighted::{DynWeighted, DynWeightedError}, lexicase::Lexicase, random::Random,
        tournament::Tournament, worst::Worst, Selector,
    },
    weighted::{
        error::{SelectionError, WeightedPairError},
        weighted_pair::WeightedPair,
        with_weight::WithWeight,
        with_weighted_item::WithWeightedItem,
        Weighted,
    },
};
use rand::{rngs::SmallRng, Rng};
use serde_json::{json, Value};

use crate::selection::{make_pop, Probe};
use crate::util::{arg_req, arg_u64, arr, guarded, read_ndjson, run_rng, s, u, Out};

thread_local! {
    static INVOKED: RefCell<Vec<usize>> = const { RefCell::new(Vec::new()) };
}

#[derive(Debug)]
pub struct LeafErr(Value);
impl std::fmt::Display for LeafErr {
    fn fmt(&self, f: &mut std::fmt::Formatter<'_>) -> std::fmt::Result {
        write!(f, "{}", self.0)
    }
}
impl std::error::Error for LeafErr {}

/// A leaf: either a marker (counts its invocations and returns the member it stands for) or
/// one of the real selectors.
pub enum LeafSel {
    Marker { id: usize, fail: bool },
    Best,
    Worst,
    Random,
    Tournament(Tournament, usize),
    Lexicase(Lexicase),
}

type Pop = Vec<Probe>;

impl Selector<Pop> for LeafSel {
    type Error = LeafErr;
    fn select<'p, R: Rng + ?Sized>(&self, pop: &'p Pop, rng: &mut R) -> Result<&'p Probe, LeafErr> {
        match self {
            Self::Marker { id, fail } => {
                INVOKED.with(|l| l.borrow_mut().push(*id));
                if *fail {
                    // a member that fails when it is delegated to
                    Err(LeafErr(json!({"k": "marker_failed", "m": id})))
                } else if pop.is_empty() {
                    Err(LeafErr(json!({"k": "empty_population"})))
                } else {
                    Ok(&pop[(id - 1) % pop.len()])
                }
            }
            Self::Best => Best.select(pop, rng).map_err(|_| LeafErr(json!({"k": "empty_population"}))),
            Self::Worst => Worst.select(pop, rng).map_err(|_| LeafErr(json!({"k": "empty_population"}))),
            Self::Random => Random.select(pop, rng).map_err(|_| LeafErr(json!({"k": "empty_population"}))),
            Self::Tournament(t, k) => t.select(pop, rng).map_err(|e| {
                use ec_core::operator::selector::tournament::TournamentSizeError;
                let ok = std::num::NonZeroUsize::new(*k).is_some_and(|nz| e == TournamentSizeError::new(nz, pop.len()));
                if ok {
                    LeafErr(json!({"k": "tournament_size", "size": k, "pop": pop.len()}))
                } else {
                    LeafErr(json!({"k": "tournament_size", "size": "other", "pop": "other", "debug": format!("{e:?}")}))
                }
            }),
            Self::Lexicase(l) => l.select(pop, rng).map_err(|e| match e {
                ec_core::operator::selector::lexicase::LexicaseError::EmptyPopulation(_) => LeafErr(json!({"k": "empty_population"})),
                ec_core::operator::selector::lexicase::LexicaseError::MissingTestCase { total_cases, current_index } =>
                    LeafErr(json!({"k": "missing_test_case", "total": total_cases, "idx": current_index})),
            }),
        }
    }
}

pub enum Node {
    Leaf(Weighted<LeafSel>),
    /// a member that is a type of the USER's own (`WithWeight` + `Selector`), not the crate's `Weighted`:
    /// `with_weighted_item` / `WeightedPair::new` accept any such member
    Own(LeafSel, u32),
    Pair(Box<WeightedPair<Node, Node>>),
    /// a small tree built DIRECTLY out of the repository's types (`WeightedPair<WeightedPair<Weighted<_>, ..>, ..>`,
    /// left combs through the chain API, as a user writes them): no harness carrier between the levels
    Direct(Box<dyn DirectSel>),
}

/// a directly nested tree behind one pointer: selection with the error translated into the carrier's shape
pub trait DirectSel {
    fn sel<'p>(&self, pop: &'p Pop, rng: &mut dyn rand::RngCore) -> Result<&'p Probe, NodeErr>;
    fn w(&self) -> u32;
}
pub trait IntoNodeErr {
    fn into_node(self) -> NodeErr;
}
impl IntoNodeErr for SelectionError<LeafErr> {
    fn into_node(self) -> NodeErr {
        NodeErr::Leaf(self)
    }
}
impl<A: IntoNodeErr, B: IntoNodeErr> IntoNodeErr for SelectionError<WeightedPairError<A, B>> {
    fn into_node(self) -> NodeErr {
        NodeErr::Pair(Box::new(match self {
            SelectionError::ZeroWeight(z) => SelectionError::ZeroWeight(z),
            SelectionError::Selector(WeightedPairError::A(a)) => SelectionError::Selector(WeightedPairError::A(a.into_node())),
            SelectionError::Selector(WeightedPairError::B(b)) => SelectionError::Selector(WeightedPairError::B(b.into_node())),
        }))
    }
}
impl<T> DirectSel for T
where
    T: Selector<Pop> + WithWeight,
    T::Error: IntoNodeErr,
{
    fn sel<'p>(&self, pop: &'p Pop, mut rng: &mut dyn rand::RngCore) -> Result<&'p Probe, NodeErr> {
        self.select(pop, &mut rng).map_err(IntoNodeErr::into_node)
    }
    fn w(&self) -> u32 {
        self.weight()
    }
}

#[derive(Debug)]
pub enum NodeErr {
    Leaf(SelectionError<LeafErr>),
    Pair(Box<SelectionError<WeightedPairError<NodeErr, NodeErr>>>),
}

impl WithWeight for Node {
    fn weight(&self) -> u32 {
        match self {
            Self::Leaf(l) => l.weight(),
            Self::Own(_, w) => *w,
            Self::Pair(p) => p.weight(),
            Self::Direct(d) => d.w(),
        }
    }
}

impl Selector<Pop> for Node {
    type Error = NodeErr;
    fn select<'p, R: Rng + ?Sized>(&self, pop: &'p Pop, mut rng: &mut R) -> Result<&'p Probe, NodeErr> {
        match self {
            Self::Leaf(l) => l.select(pop, rng).map_err(NodeErr::Leaf),
            // as `Weighted` does: a member of weight zero is never delegated to
            Self::Own(_, 0) => Err(NodeErr::Leaf(ec_core::weighted::error::ZeroWeight.into())),
            Self::Own(sel, _) => sel.select(pop, rng).map_err(|e| NodeErr::Leaf(SelectionError::Selector(e))),
            Self::Pair(p) => p.select(pop, rng).map_err(|e| NodeErr::Pair(Box::new(e))),
            Self::Direct(d) => d.sel(pop, &mut rng),
        }
    }
}

fn leaf_sel(spec: &Value) -> LeafSel {
    match spec.get("sel").and_then(Value::as_str) {
        None => LeafSel::Marker { id: u(&spec["m"]) as usize, fail: spec.get("f").and_then(Value::as_bool).unwrap_or(false) },
        Some("best") => LeafSel::Best,
        Some("worst") => LeafSel::Worst,
        Some("random") => LeafSel::Random,
        Some("tournament") => LeafSel::Tournament(Tournament::new(NonZeroUsize::new(u(&spec["k"]) as usize).expect("k")), u(&spec["k"]) as usize),
        Some("lexicase") => LeafSel::Lexicase(Lexicase::new(u(&spec["c"]) as usize)),
        Some(o) => {
            eprintln!("unknown leaf selector {o}");
            std::process::exit(2)
        }
    }
}

/// spec tree -> carrier around real combinators (`None`: the real constructor refused it).
pub fn build(t: &Value) -> Option<Node> {
    let n = BUILDS.with(|b| { b.set(b.get() + 1); b.get() });
    OWN_FLAVOUR.with(|f| f.set(n % 2 == 0));
    DIRECT.with(|f| f.set(n % 4 == 1));
    let r = build_scaled(t, 1);
    OWN_FLAVOUR.with(|f| f.set(false));
    DIRECT.with(|f| f.set(false));
    r
}

thread_local! {
    static DECOY: Cell<u64> = const { Cell::new(0) };
    static OWN_FLAVOUR: Cell<bool> = const { Cell::new(false) };
    static BUILDS: Cell<u64> = const { Cell::new(0) };
    static DIRECT: Cell<bool> = const { Cell::new(false) };
}

pub static DIRECT_BUILT: std::sync::atomic::AtomicU64 = std::sync::atomic::AtomicU64::new(0);
/// the five tree shapes of up to four leaves that are built directly (see `Node::Direct`)
fn build_direct(t: &Value, scale: u64) -> Option<Option<Node>> {
    let leaf = |x: &Value| -> Option<Weighted<LeafSel>> {
        (x["t"] == "leaf").then(|| Weighted::new(leaf_sel(x), u32::try_from(u(&x["w"]) * scale).expect("scaled weight fits u32")))
    };
    let is_leaf = |x: &Value| x["t"] == "leaf";
    let done = |r: Result<Box<dyn DirectSel>, ec_core::weighted::error::WeightSumOverflow>| {
        DIRECT_BUILT.fetch_add(1, std::sync::atomic::Ordering::Relaxed);
        Some(r.ok().map(Node::Direct))
    };
    if is_leaf(t) {
        return None;
    }
    let (a, b) = (&t["a"], &t["b"]);
    if is_leaf(a) && is_leaf(b) {
        // the chain API: Weighted::with_weighted_item
        return done(leaf(a)?.with_weighted_item(leaf(b)?).map(|p| Box::new(p) as Box<dyn DirectSel>));
    }
    if !is_leaf(a) && is_leaf(b) && is_leaf(&a["a"]) && is_leaf(&a["b"]) {
        return done(leaf(&a["a"])?.with_weighted_item(leaf(&a["b"])?).and_then(|p| p.with_weighted_item(leaf(b).expect("leaf")))
            .map(|p| Box::new(p) as Box<dyn DirectSel>));
    }
    if is_leaf(a) && !is_leaf(b) && is_leaf(&b["a"]) && is_leaf(&b["b"]) {
        return done(WeightedPair::new(leaf(&b["a"])?, leaf(&b["b"])?).and_then(|q| WeightedPair::new(leaf(a).expect("leaf"), q))
            .map(|p| Box::new(p) as Box<dyn DirectSel>));
    }
    if !is_leaf(a) && !is_leaf(b) && is_leaf(&a["a"]) && is_leaf(&a["b"]) && is_leaf(&b["a"]) && is_leaf(&b["b"]) {
        return done(WeightedPair::new(leaf(&a["a"])?, leaf(&a["b"])?)
            .and_then(|p| WeightedPair::new(leaf(&b["a"]).expect("leaf"), leaf(&b["b"]).expect("leaf")).and_then(|q| WeightedPair::new(p, q)))
            .map(|p| Box::new(p) as Box<dyn DirectSel>));
    }
    if !is_leaf(a) && is_leaf(b) && !is_leaf(&a["a"]) && is_leaf(&a["b"]) && is_leaf(&a["a"]["a"]) && is_leaf(&a["a"]["b"]) {
        return done(leaf(&a["a"]["a"])?.with_weighted_item(leaf(&a["a"]["b"])?)
            .and_then(|p| p.with_weighted_item(leaf(&a["b"]).expect("leaf")))
            .and_then(|p| p.with_weighted_item(leaf(b).expect("leaf")))
            .map(|p| Box::new(p) as Box<dyn DirectSel>));
    }
    None
}
/// every leaf weight multiplied by `scale` (the law depends on the ratios only: ScaleInvariant)
pub fn build_scaled(t: &Value, scale: u64) -> Option<Node> {
    if t["t"] == "leaf" {
        let w = u32::try_from(u(&t["w"]) * scale).expect("scaled weight fits u32");
        // every second build of a tree uses the user's-own-type flavour for its marker leaves
        let own = OWN_FLAVOUR.with(|f| f.get()) && t.get("sel").is_none();
        Some(if own { Node::Own(leaf_sel(t), w) } else { Node::Leaf(Weighted::new(leaf_sel(t), w)) })
    } else {
        // every fourth build of a tree nests the repository's types directly where the shape is a small one
        if DIRECT.with(|f| f.get()) {
            if let Some(r) = build_direct(t, scale) {
                return r;
            }
        }
        let (a, b) = (build_scaled(&t["a"], scale)?, build_scaled(&t["b"], scale)?);
        WeightedPair::new(a, b).ok().map(|p| Node::Pair(Box::new(p)))
    }
}

/// path ("A"/"B" list) + innermost cause of a node error
fn err_json(e: &NodeErr, path: &mut Vec<&'static str>) -> Value {
    match e {
        NodeErr::Leaf(SelectionError::ZeroWeight(_)) => json!({"k": "zero_weight", "at": path.clone()}),
        NodeErr::Leaf(SelectionError::Selector(LeafErr(v))) => json!({"k": "leaf_error", "at": path.clone(), "err": v}),
        NodeErr::Pair(b) => match b.as_ref() {
            SelectionError::ZeroWeight(_) => json!({"k": "zero_weight", "at": path.clone()}),
            SelectionError::Selector(WeightedPairError::A(inner)) => {
                path.push("A");
                err_json(inner, path)
            }
            SelectionError::Selector(WeightedPairError::B(inner)) => {
                path.push("B");
                err_json(inner, path)
            }
        },
    }
}

fn path_of(t: &Value, m: u64, acc: &mut Vec<&'static str>) -> bool {
    if t["t"] == "leaf" {
        return t.get("m").is_some_and(|x| u(x) == m);
    }
    acc.push("A");
    if path_of(&t["a"], m, acc) {
        return true;
    }
    acc.pop();
    acc.push("B");
    if path_of(&t["b"], m, acc) {
        return true;
    }
    acc.pop();
    false
}

fn locate(pop: &Pop, r: &Probe) -> Option<usize> {
    pop.iter().position(|p| std::ptr::eq(p, r)).map(|k| k + 1)
}

/// One selection from a marker tree: which leaves were invoked, what came back.
fn select_marker_tree(tree: &Value, node: &Node, pop: &Pop, rng: &mut SmallRng) -> Value {
    INVOKED.with(|l| l.borrow_mut().clear());
    let r = node.select(pop, rng);
    let invoked: Vec<usize> = INVOKED.with(|l| l.borrow().clone());
    match r {
        Ok(ind) => {
            if invoked.len() != 1 {
                return json!({"k": "invoked", "leaves": invoked});
            }
            let m = invoked[0];
            let mut path = Vec::new();
            path_of(tree, m as u64, &mut path);
            let mut o = json!({"k": "chosen", "path": path, "m": m});
            let want = (m - 1) % pop.len() + 1;
            if locate(pop, ind) != Some(want) {
                o["returned_other_than_the_members_individual"] = json!(locate(pop, ind));
            }
            o
        }
        Err(e) => {
            let mut p = Vec::new();
            let j = err_json(&e, &mut p);
            if j["k"] == "zero_weight" && invoked.is_empty() {
                json!({"k": "zero_weight"})
            } else if j["k"] == "leaf_error" && j["err"]["k"] == "marker_failed" && invoked.len() == 1
                && j["err"]["m"] == json!(invoked[0])
            {
                // the member delegated to failed: its error, located at its path, and nobody else was asked
                json!({"k": "member_error", "path": j["at"], "m": invoked[0]})
            } else {
                json!({"k": "error", "detail": j, "invoked": invoked})
            }
        }
    }
}

struct M(usize);
impl Selector<Pop> for M {
    type Error = LeafErr;
    fn select<'p, R: Rng + ?Sized>(&self, pop: &'p Pop, rng: &mut R) -> Result<&'p Probe, LeafErr> {
        LeafSel::Marker { id: self.0, fail: false }.select(pop, rng)
    }
}
fn dyn_extend(d: DynWeighted<Pop>, id: usize, w: usize) -> DynWeighted<Pop> {
    d.with_selector(M(id), w)
}
fn dyn_build(ws: &[u64], scale: usize) -> DynWeighted<Pop> {
    // a common factor leaves the law unchanged; 2^32 exercises weights beyond 32 bits
    let mut d = DynWeighted::new(M(1), ws[0] as usize * scale);
    for (k, w) in ws.iter().enumerate().skip(1) {
        d = d.with_selector(M(k + 1), *w as usize * scale);
    }
    d
}

/// like `dyn_build`, but the object is asked to select after every extension step
fn dyn_build_with_early_selects(ws: &[u64], scale: usize, pop: &Pop, rng: &mut SmallRng) -> DynWeighted<Pop> {
    let mut d = dyn_build(&ws[..1], scale);
    for k in 1..ws.len() {
        let _ = guarded(|| d.select(pop, rng).is_ok());
        d = dyn_extend(d, k + 1, ws[k] as usize * scale);
    }
    d
}

fn select_dyn(d: &DynWeighted<Pop>, pop: &Pop, rng: &mut SmallRng) -> Value {
    // ANOTHER weighted list (more members, small weights) selects on the same thread just before,
    // from a generator of its own, and is dropped: what this one chooses does not depend on that
    if DECOY.with(|c| { c.set(c.get() + 1); c.get() % 3 == 0 }) {
        let mut scratch = <SmallRng as rand::SeedableRng>::seed_from_u64(7);
        let decoy = dyn_build(&[1, 1, 1, 1, 1, 1, 1], 1);
        let _ = guarded(|| decoy.select(pop, &mut scratch).is_ok());
    }
    INVOKED.with(|l| l.borrow_mut().clear());
    let r = d.select(pop, rng);
    let invoked: Vec<usize> = INVOKED.with(|l| l.borrow().clone());
    match r {
        Ok(ind) => {
            if invoked.len() != 1 {
                return json!({"k": "invoked", "leaves": invoked});
            }
            let mut o = json!({"k": "chosen_dyn", "j": invoked[0]});
            if locate(pop, ind) != Some((invoked[0] - 1) % pop.len() + 1) {
                o["returned_other_than_the_members_individual"] = json!(locate(pop, ind));
            }
            o
        }
        Err(DynWeightedError::ZeroWeightSum(_)) if invoked.is_empty() => json!({"k": "zero_weight"}),
        Err(e) => json!({"k": "error", "detail": format!("{e:?}"), "invoked": invoked}),
    }
}

// weights of the construction model: small values as they are, values near WMax = 100 near
// u32::MAX
fn w_real(v: u64) -> u32 {
    if v <= 50 { v as u32 } else { u32::MAX - (100 - v) as u32 }
}
fn w_model(v: u32) -> u64 {
    if v <= 50 { u64::from(v) } else { 100 - u64::from(u32::MAX - v) }
}

fn build_chain(ws: &[u64]) -> Value {
    use ec_core::weighted::error::WeightSumOverflow;
    let done = |r: Result<u32, WeightSumOverflow>| match r {
        Ok(total) => json!({"k": "ok", "total": w_model(total)}),
        Err(WeightSumOverflow(a, b)) => json!({"k": "weight_sum_overflow", "a": w_model(a), "b": w_model(b)}),
    };
    let w: Vec<u32> = ws.iter().map(|v| w_real(*v)).collect();
    match w.len() {
        1 => done(Ok(Weighted::new(Best, w[0]).weight())),
        2 => done(Weighted::new(Best, w[0]).with_item_and_weight(Worst, w[1]).map(|c| c.weight())),
        3 => done(Weighted::new(Best, w[0]).with_item_and_weight(Worst, w[1]).with_item_and_weight(Random, w[2]).map(|c| c.weight())),
        _ => done(Weighted::new(Best, w[0])
            .with_item_and_weight(Worst, w[1])
            .with_item_and_weight(Random, w[2])
            .with_item_and_weight(Tournament::binary(), w[3])
            .map(|c| c.weight())),
    }
}

fn marker_pop() -> Pop {
    make_pop(&json!([{"score": 1, "res": []}, {"score": 2, "res": []}, {"score": 3, "res": []},
                     {"score": 4, "res": []}, {"score": 5, "res": []}]), false)
}

/// spec -> impl: every tree / list / construction sequence TLC explored; `reps` selections.
pub fn replay(args: &[String]) -> i32 {
    let cases = read_ndjson(arg_req(args, "--cases"));
    let reps = arg_u64(args, "--reps", 12);
    let seed = arg_u64(args, "--seed", 0);
    let mut out = Out::create(arg_req(args, "--out"));
    let (mut n, mut bad) = (0u64, 0u64);
    let pop = marker_pop();
    for (ci, c) in cases.iter().enumerate() {
        let case = &c["case"];
        let mut rng = run_rng(seed, 0xC13, ci as u64);
        let mut check = |ob: Value, n: &mut u64, bad: &mut u64, out: &mut Out| -> bool {
            *n += 1;
            if arr(&c["allowed"]).iter().any(|a| *a == ob) {
                true
            } else {
                *bad += 1;
                out.line(&json!({"kind": "mismatch", "case": c, "observed": ob}));
                false
            }
        };
        match s(&case["op"]) {
            "build" => {
                let ws: Vec<u64> = arr(&case["ws"]).iter().map(u).collect();
                let ob = guarded(|| build_chain(&ws)).unwrap_or_else(|m| json!({"k": "panic", "msg": m}));
                check(ob, &mut n, &mut bad, &mut out);
            }
            "select" => match guarded(|| build(&case["tree"])) {
                Ok(Some(node)) => {
                    for _ in 0..reps {
                        let ob = guarded(|| select_marker_tree(&case["tree"], &node, &pop, &mut rng))
                            .unwrap_or_else(|m| json!({"k": "panic", "msg": m}));
                        if !check(ob, &mut n, &mut bad, &mut out) {
                            break;
                        }
                    }
                    if node.weight() == 0 {
                        let empty: Pop = Vec::new();
                        let ob = guarded(|| select_marker_tree(&case["tree"], &node, &empty, &mut rng))
                            .unwrap_or_else(|m| json!({"k": "panic", "msg": m}));
                        check(ob, &mut n, &mut bad, &mut out);
                    }
                }
                Ok(None) => { check(json!({"k": "construction_refused"}), &mut n, &mut bad, &mut out); }
                Err(m) => { check(json!({"k": "panic", "msg": m}), &mut n, &mut bad, &mut out); }
            },
            _ => {
                let ws: Vec<u64> = arr(&case["ws"]).iter().map(u).collect();
                for scale in [1usize, 1 << 32] {
                    let d = dyn_build(&ws, scale);
                    // a list that is extended AFTER it has been asked to select behaves as the extended list
                    let d = if ws.len() >= 2 && ci % 3 == 0 {
                        drop(d);
                        dyn_build_with_early_selects(&ws, scale, &pop, &mut rng)
                    } else {
                        d
                    };
                    for _ in 0..reps {
                        let ob = guarded(|| select_dyn(&d, &pop, &mut rng)).unwrap_or_else(|m| json!({"k": "panic", "msg": m}));
                        if !check(ob, &mut n, &mut bad, &mut out) {
                            break;
                        }
                    }
                    // a total weight of zero is the zero-weight error whatever the population - an EMPTY one too
                    if ws.iter().all(|w| *w == 0) {
                        let empty: Pop = Vec::new();
                        let ob = guarded(|| select_dyn(&d, &empty, &mut rng)).unwrap_or_else(|m| json!({"k": "panic", "msg": m}));
                        check(ob, &mut n, &mut bad, &mut out);
                    }
                }
            }
        }
    }
    out.line(&json!({"kind": "summary", "cases": n, "mismatches": bad, "directly_nested_trees_built": DIRECT_BUILT.load(std::sync::atomic::Ordering::Relaxed)}));
    out.finish();
    0
}

/// Empirical law per LAW case: how often each leaf / list member was the one delegated to.
pub fn law(args: &[String]) -> i32 {
    let cases = read_ndjson(arg_req(args, "--cases"));
    let n = arg_u64(args, "--n", 100_000);
    let seed = arg_u64(args, "--seed", 0);
    let mut out = Out::create(arg_req(args, "--out"));
    let pop = marker_pop();
    for (ci, c) in cases.iter().enumerate() {
        let case = &c["case"];
        let mut rng = run_rng(seed, 0x1A4, ci as u64);
        let cells = arr(&c["num"]).len();
        let mut counts = vec![0u64; cells];
        let mut other = 0u64;
        if case["op"] == "select" {
            // the laws too: every second law tree nests the repository's types directly where its shape allows
            DIRECT.with(|f| f.set(ci % 2 == 1));
            let node = build_scaled(&case["tree"], c["scale"].as_u64().unwrap_or(1));
            DIRECT.with(|f| f.set(false));
            let node = node.expect("law trees are constructible");
            for _ in 0..n {
                let ob = select_marker_tree(&case["tree"], &node, &pop, &mut rng);
                match ob["m"].as_u64() {
                    Some(m) if (ob["k"] == "chosen" || ob["k"] == "member_error") && ob.as_object().expect("o").len() == 3 => counts[m as usize - 1] += 1,
                    _ => other += 1,
                }
            }
        } else {
            let ws: Vec<u64> = arr(&case["ws"]).iter().map(u).collect();
            let d = dyn_build(&ws, c["scale"].as_u64().map_or(if ci % 2 == 0 { 1 } else { 1 << 32 }, |x| x as usize));
            for _ in 0..n {
                let ob = select_dyn(&d, &pop, &mut rng);
                match ob["j"].as_u64() {
                    Some(j) if ob.as_object().expect("o").len() == 2 => counts[j as usize - 1] += 1,
                    _ => other += 1,
                }
            }
        }
        out.line(&json!({"law": c, "n": n, "counts": counts, "other": other}));
    }
    out.finish();
    0
}

/// C06: random trees whose leaves are the REAL selectors; the result must be the given
/// population's own element, or a documented error.
pub fn nested_trace(args: &[String]) -> i32 {
    let seed = arg_u64(args, "--seed", 0);
    let runs = arg_u64(args, "--runs", 100);
    let first = arg_u64(args, "--first-run", 0);
    let mut out = Out::create(arg_req(args, "--out"));
    for run in first..first + runs {
        let mut rng = run_rng(seed, 0xC6B, run);
        let n = match rng.random_range(0..8) { 0 => 0, 1 => 1, _ => rng.random_range(2..=7usize) };
        let m = rng.random_range(0..=3usize);
        let popj: Vec<Value> = (0..n)
            .map(|_| json!({"score": rng.random_range(0..4), "res": (0..m).map(|_| rng.random_range(0..3)).collect::<Vec<i64>>()}))
            .collect();
        #[allow(clippy::items_after_statements)]
        fn gen(rng: &mut SmallRng, depth: u32, n: usize, m: usize) -> Value {
            if depth == 0 || rng.random_range(0..3) == 0 {
                let w = [0u32, 0, 1, 2, 5][rng.random_range(0..5)];
                let sel = match rng.random_range(0..5) {
                    0 => json!({"sel": "best"}),
                    1 => json!({"sel": "worst"}),
                    2 => json!({"sel": "random"}),
                    3 => json!({"sel": "tournament", "k": rng.random_range(1..=n + 1)}),
                    _ => json!({"sel": "lexicase", "c": rng.random_range(0..=m + 1)}),
                };
                let mut l = json!({"t": "leaf", "w": w});
                for (k, v) in sel.as_object().expect("o") {
                    l[k] = v.clone();
                }
                l
            } else {
                json!({"t": "pair", "a": gen(rng, depth - 1, n, m), "b": gen(rng, depth - 1, n, m)})
            }
        }
        let pop = make_pop(&Value::Array(popj.clone()), false);
        if rng.random_range(0..4) == 0 {
            // the dynamic list of REAL selectors, weights up to usize::MAX
            let k = rng.random_range(1..=4);
            let leaves: Vec<Value> = (0..k).map(|_| gen(&mut rng, 0, n, m)).collect();
            let weights: Vec<usize> = (0..k)
                .map(|_| [0usize, 0, 1, 5, 1 << 32, usize::MAX][rng.random_range(0..6)])
                .collect();
            struct L(LeafSel);
            impl Selector<Pop> for L {
                type Error = LeafErr;
                fn select<'p, R: Rng + ?Sized>(&self, pop: &'p Pop, rng: &mut R) -> Result<&'p Probe, LeafErr> {
                    self.0.select(pop, rng)
                }
            }
            // SAFETY of Send + Sync: the selectors hold no interior state
            unsafe impl Send for L {}
            unsafe impl Sync for L {}
            // ONE object is extended step by step and asked to select in between: each selection
            // must be a selection of the list as it stands at that moment (history-dependent state
            // such as a cached index would show here)
            let early: Vec<bool> = (0..k).map(|_| rng.random_range(0..2) == 0).collect();
            let mut events: Vec<(usize, Value)> = Vec::new();
            let sel_json = |d: &DynWeighted<Pop>, rng: &mut SmallRng| -> Value {
                match d.select(&pop, rng) {
                    Ok(i) => locate(&pop, i).map_or(json!({"k": "foreign"}), |i| json!({"k": "member", "i": i})),
                    Err(DynWeightedError::ZeroWeightSum(e)) => json!({"k": "weight_error", "detail": format!("{e:?}")}),
                    Err(DynWeightedError::EmptyPopulation(_)) => json!({"k": "leaf_error", "err": {"k": "empty_population"}}),
                    Err(DynWeightedError::Other(b)) => {
                        let v: Value = serde_json::from_str(&b.to_string()).unwrap_or(json!({"k": "unparsed"}));
                        json!({"k": "leaf_error", "err": v})
                    }
                }
            };
            let res = guarded(|| {
                let mut evs: Vec<(usize, Value)> = Vec::new();
                let mut d = DynWeighted::new(L(leaf_sel(&leaves[0])), weights[0]);
                for j in 1..k {
                    if early[j] {
                        let r = sel_json(&d, &mut rng);
                        evs.push((j, r));
                    }
                    d = d.with_selector(L(leaf_sel(&leaves[j])), weights[j]);
                }
                let r = sel_json(&d, &mut rng);
                evs.push((k, r));
                if early[0] {
                    // and the finished list once more: a second selection is as good as the first
                    let r = sel_json(&d, &mut rng);
                    evs.push((k, r));
                }
                evs
            });
            match res {
                Ok(evs) => events.extend(evs),
                Err(m) => events.push((k, json!({"k": "panic", "msg": m}))),
            }
            for (len, res) in events {
                let overflow = weights[..len].iter().try_fold(0usize, |a, w| a.checked_add(*w)).is_none();
                let lv: Vec<Value> = leaves[..len].iter().zip(&weights[..len]).map(|(l, w)| {
                    let mut l = l.clone();
                    l["w"] = json!(if *w == 0 { 0 } else { 1 });
                    l
                }).collect();
                out.line(&json!({"ev": "dyn", "run": run, "pop": popj, "leaves": lv, "overflow": overflow, "res": res}));
            }
            continue;
        }
        let tree = gen(&mut rng, 3, n, m);
        let erased = rng.random::<bool>();
        let res = guarded(|| {
            let node = build(&tree).expect("small weights");
            #[cfg(feature = "optional_flavours")]
            let r = if erased {
                // the type-erased form of the whole combination, behind a Box
                let b: Box<dyn ec_core::operator::selector::DynSelector<Pop, NodeErr>> = Box::new(node);
                b.select(&pop, &mut rng).map(|i| locate(&pop, i))
            } else {
                node.select(&pop, &mut rng).map(|i| locate(&pop, i))
            };
            #[cfg(not(feature = "optional_flavours"))]
            let r = node.select(&pop, &mut rng).map(|i| locate(&pop, i));
            match r {
                Ok(Some(i)) => json!({"k": "member", "i": i}),
                Ok(None) => json!({"k": "foreign"}),
                Err(e) => {
                    let mut p = Vec::new();
                    err_json(&e, &mut p)
                }
            }
        })
        .unwrap_or_else(|m| json!({"k": "panic", "msg": m}));
        out.line(&json!({"ev": "nested", "run": run, "pop": popj, "tree": tree, "erased": erased, "res": res}));
    }
    out.finish();
    0
}
