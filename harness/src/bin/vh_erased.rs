//! C17: the type-erased forms (`Dyn*` traits behind every generated pointer flavour) against
//! the operators they wrap.  Observations go to spec/ec/Trace_Functional.tla: the key does NOT
//! contain the wrapper, so the concrete call and all 28 flavours must agree on result, error
//! text, words consumed and generator state afterwards.
//!
//! This file only compiles if every generated `impl` exists (7 pointer kinds x 4 auto-trait
//! sets x 5 traits): a missing one is a compile error in the harness build.

use std::cell::{Ref, RefCell, RefMut};
use std::num::NonZeroUsize;

use ec_core::{
    child_maker::{ChildMaker, DynChildMaker},
    individual::ec::EcIndividual,
    operator::{
        mutator::{DynMutator, Mutator},
        recombinator::{DynRecombinator, Recombinator},
        selector::{best::Best, dyn_weighted::{DynWeighted, DynWeightedError}, lexicase::Lexicase, random::Random, tournament::Tournament, DynSelector, Selector},
        Composable, DynOperator, Operator,
    },
    test_results::{Error, TestResults},
};
use ec_linear::{mutator::{with_one_over_length::WithOneOverLength, with_rate::WithRate}, recombinator::{errors::{CrossoverGeneError, DifferentGenomeLength}, two_point_xo::TwoPointXo, uniform_xo::UniformXo}};
use rand::{rngs::SmallRng, Rng, RngCore, SeedableRng};
use serde_json::{json, Value};

#[allow(dead_code)]
#[path = "../util.rs"]
mod util;
use util::{arg_req, arg_u64, guarded, run_rng, Out};

type Ind = EcIndividual<Vec<bool>, TestResults<Error<i64>>>;
type Pop = Vec<Ind>;
type BoxErr = Box<dyn std::error::Error + Send + Sync>;

#[derive(Debug)]
struct Refused(&'static str);
impl std::fmt::Display for Refused {
    fn fmt(&self, f: &mut std::fmt::Formatter<'_>) -> std::fmt::Result {
        write!(f, "refused by {}", self.0)
    }
}
impl std::error::Error for Refused {}

/// A caller-chosen erased error type with a DEDICATED conversion from the wrapped operator's error
/// and a catch-all conversion from a boxed error: "the error is the wrapped operator's error
/// converted" means the dedicated conversion is the one used (it renders exactly like the
/// concrete error; the catch-all renders differently).
#[derive(Debug)]
enum Tagged {
    Dedicated(&'static str),
    CatchAll(String),
}
impl std::fmt::Display for Tagged {
    fn fmt(&self, f: &mut std::fmt::Formatter<'_>) -> std::fmt::Result {
        match self {
            Self::Dedicated(who) => write!(f, "refused by {who}"),
            Self::CatchAll(text) => write!(f, "CATCH-ALL conversion of: {text}"),
        }
    }
}
impl std::error::Error for Tagged {}
impl From<Refused> for Tagged {
    fn from(r: Refused) -> Self {
        Self::Dedicated(r.0)
    }
}
impl From<BoxErr> for Tagged {
    fn from(e: BoxErr) -> Self {
        Self::CatchAll(e.to_string())
    }
}
impl From<std::convert::Infallible> for Tagged {
    fn from(e: std::convert::Infallible) -> Self {
        match e {}
    }
}

/// always fails, after drawing one word
struct Failing;
/// succeeds, drawing a data-dependent number of words
struct VarWords;
/// succeeds, drawing raw bytes of odd lengths, 32-bit and 128-bit values (every `RngCore` entry point)
struct Bytes;

fn byte_soup<R: Rng + ?Sized>(rng: &mut R) -> u64 {
    let mut a = [0u8; 3];
    rng.fill_bytes(&mut a);
    let mut b = [0u8; 13];
    rng.fill_bytes(&mut b);
    let c: u32 = rng.next_u32();
    let mut d = [0u8; 1];
    rng.fill_bytes(&mut d);
    let e: u128 = rng.random();
    a.iter().chain(b.iter()).chain(d.iter()).fold(u64::from(c) ^ (e as u64), |acc, x| acc.wrapping_mul(257).wrapping_add(u64::from(*x)))
}

impl Selector<Pop> for Bytes {
    type Error = Refused;
    fn select<'p, R: Rng + ?Sized>(&self, pop: &'p Pop, rng: &mut R) -> Result<&'p Ind, Refused> {
        let k = byte_soup(rng) as usize;
        pop.get(k % pop.len().max(1)).ok_or(Refused("empty"))
    }
}
impl Mutator<Vec<bool>> for Bytes {
    type Error = Refused;
    fn mutate<R: Rng + ?Sized>(&self, mut g: Vec<bool>, rng: &mut R) -> Result<Vec<bool>, Refused> {
        let k = byte_soup(rng) as usize;
        if !g.is_empty() {
            let n = g.len();
            g[k % n] ^= true;
        }
        Ok(g)
    }
}
impl Recombinator<[Vec<bool>; 2]> for Bytes {
    type Output = Vec<bool>;
    type Error = Refused;
    fn recombine<R: Rng + ?Sized>(&self, [a, b]: [Vec<bool>; 2], rng: &mut R) -> Result<Vec<bool>, Refused> {
        let k = byte_soup(rng) as usize;
        Ok(if k % 2 == 0 { a } else { b })
    }
}
impl Composable for Bytes {}
impl Operator<u64> for Bytes {
    type Output = u64;
    type Error = Refused;
    fn apply<R: Rng + ?Sized>(&self, x: u64, rng: &mut R) -> Result<u64, Refused> {
        Ok(x ^ byte_soup(rng))
    }
}
impl<S: Selector<Pop>> ChildMaker<Pop, S> for Bytes {
    type Error = Refused;
    fn make_child<R: Rng + ?Sized>(&self, rng: &mut R, pop: &Pop, _: &S) -> Result<Ind, Refused> {
        let k = byte_soup(rng) as usize;
        pop.get(k % pop.len().max(1)).cloned().ok_or(Refused("empty"))
    }
}

impl Selector<Pop> for Failing {
    type Error = Refused;
    fn select<'p, R: Rng + ?Sized>(&self, _: &'p Pop, rng: &mut R) -> Result<&'p Ind, Refused> {
        let _ = rng.next_u32();
        Err(Refused("selector"))
    }
}
impl Selector<Pop> for VarWords {
    type Error = Refused;
    fn select<'p, R: Rng + ?Sized>(&self, pop: &'p Pop, rng: &mut R) -> Result<&'p Ind, Refused> {
        let k = 1 + rng.next_u32() % 4;
        let mut idx = 0usize;
        for _ in 0..k {
            idx = idx.wrapping_add(rng.next_u64() as usize);
        }
        pop.get(idx % pop.len().max(1)).ok_or(Refused("empty"))
    }
}
impl Mutator<Vec<bool>> for Failing {
    type Error = Refused;
    fn mutate<R: Rng + ?Sized>(&self, _: Vec<bool>, rng: &mut R) -> Result<Vec<bool>, Refused> {
        let _ = rng.next_u32();
        Err(Refused("mutator"))
    }
}
impl Mutator<Vec<bool>> for VarWords {
    type Error = Refused;
    fn mutate<R: Rng + ?Sized>(&self, mut g: Vec<bool>, rng: &mut R) -> Result<Vec<bool>, Refused> {
        let k = 1 + rng.next_u32() % 4;
        for _ in 0..k {
            let w = rng.next_u64() as usize;
            if !g.is_empty() {
                let n = g.len();
                g[w % n] ^= true;
            }
        }
        Ok(g)
    }
}
impl Recombinator<[Vec<bool>; 2]> for Failing {
    type Output = Vec<bool>;
    type Error = Refused;
    fn recombine<R: Rng + ?Sized>(&self, _: [Vec<bool>; 2], rng: &mut R) -> Result<Vec<bool>, Refused> {
        let _ = rng.next_u32();
        Err(Refused("recombinator"))
    }
}
impl Recombinator<[Vec<bool>; 2]> for VarWords {
    type Output = Vec<bool>;
    type Error = Refused;
    fn recombine<R: Rng + ?Sized>(&self, [a, b]: [Vec<bool>; 2], rng: &mut R) -> Result<Vec<bool>, Refused> {
        let k = 1 + rng.next_u32() % 3;
        let mut c = a;
        for _ in 0..k {
            let w = rng.next_u64() as usize;
            if !c.is_empty() && !b.is_empty() {
                let n = c.len();
                c[w % n] = b[w % b.len()];
            }
        }
        Ok(c)
    }
}
impl Composable for Failing {}
impl Composable for VarWords {}
impl Operator<u64> for Failing {
    type Output = u64;
    type Error = Refused;
    fn apply<R: Rng + ?Sized>(&self, _: u64, rng: &mut R) -> Result<u64, Refused> {
        let _ = rng.next_u32();
        Err(Refused("operator"))
    }
}
impl Operator<u64> for VarWords {
    type Output = u64;
    type Error = Refused;
    fn apply<R: Rng + ?Sized>(&self, x: u64, rng: &mut R) -> Result<u64, Refused> {
        let k = 1 + rng.next_u32() % 4;
        Ok((0..k).fold(x, |acc, _| acc.wrapping_mul(31).wrapping_add(rng.next_u64())))
    }
}
/// child makers over (population, selector)
struct Cloner;
impl<S: Selector<Pop>> ChildMaker<Pop, S> for Cloner
where
    S::Error: std::fmt::Display,
{
    type Error = Refused;
    fn make_child<R: Rng + ?Sized>(&self, rng: &mut R, pop: &Pop, sel: &S) -> Result<Ind, Refused> {
        let mut child = sel.select(pop, rng).map_err(|_| Refused("selection"))?.clone();
        let n = child.genome.len().max(1);
        let k = rng.next_u64() as usize % n;
        if let Some(b) = child.genome.get_mut(k) {
            *b ^= true;
        }
        Ok(child)
    }
}
impl<S: Selector<Pop>> ChildMaker<Pop, S> for Failing {
    type Error = Refused;
    fn make_child<R: Rng + ?Sized>(&self, rng: &mut R, _: &Pop, _: &S) -> Result<Ind, Refused> {
        let _ = rng.next_u32();
        Err(Refused("child maker"))
    }
}

/// A child maker that is NOT zero-sized and in which callers meet: every call waits (briefly) until a
/// second caller is inside too, then proceeds like `Cloner`. Shared between threads through the
/// `Send + Sync` flavours.
struct Meeting {
    inside: std::sync::atomic::AtomicUsize,
    id: u64,
}
impl<S: Selector<Pop>> ChildMaker<Pop, S> for Meeting
where
    S::Error: std::fmt::Display,
{
    type Error = Refused;
    fn make_child<R: Rng + ?Sized>(&self, rng: &mut R, pop: &Pop, sel: &S) -> Result<Ind, Refused> {
        use std::sync::atomic::Ordering::SeqCst;
        self.inside.fetch_add(1, SeqCst);
        let t0 = std::time::Instant::now();
        while self.inside.load(SeqCst) < 2 && t0.elapsed().as_millis() < 200 {
            std::thread::yield_now();
        }
        std::thread::sleep(std::time::Duration::from_millis(2));
        let r = Cloner.make_child(rng, pop, sel);
        self.inside.fetch_sub(1, SeqCst);
        let _ = self.id;
        r
    }
}

fn population(argseed: u64) -> Pop {
    let mut r = SmallRng::seed_from_u64(argseed ^ 0xE5A5);
    let n = if argseed % 5 == 0 { 0 } else { 2 + argseed % 6 };
    (0..n)
        .map(|_| {
            let genome: Vec<bool> = (0..5).map(|_| r.random()).collect();
            let results: TestResults<Error<i64>> = (0..3).map(|_| r.random_range(0..3i64)).collect();
            EcIndividual::new(genome, results)
        })
        .collect()
}
fn genome(argseed: u64, salt: u64) -> Vec<bool> {
    let mut r = SmallRng::seed_from_u64(argseed ^ salt);
    (0..(argseed % 8)).map(|_| r.random()).collect()
}

struct Counting {
    inner: SmallRng,
    words: u64,
}
impl RngCore for Counting {
    fn next_u32(&mut self) -> u32 {
        self.words += 1;
        self.inner.next_u32()
    }
    fn next_u64(&mut self) -> u64 {
        self.words += 1;
        self.inner.next_u64()
    }
    fn fill_bytes(&mut self, d: &mut [u8]) {
        self.words += 1;
        self.inner.fill_bytes(d);
    }
}

/// run `$body` (which may use `$w`, the operator in some form, and `$rng`) once through the
/// concrete value and once through each of the 28 erased flavours of `$d0..$d3`
macro_rules! all_forms {
    ($seed:expr, $c:expr, [$($d:ty),*], |$w:ident, $rng:ident| $body:expr) => {{
        let mut out: Vec<(String, Value)> = Vec::new();
        
        { let $w = $c; observe_form(&mut out, $seed, "concrete".to_string(), &mut |$rng| $body); }
        $(
            { let c = $c; let $w: &$d = &c; observe_form(&mut out, $seed, format!("&{}", stringify!($d)), &mut |$rng| $body); }
            { let mut c = $c; let $w: &mut $d = &mut c; observe_form(&mut out, $seed, format!("&mut {}", stringify!($d)), &mut |$rng| $body); }
            { let $w: Box<$d> = Box::new($c); observe_form(&mut out, $seed, format!("Box<{}>", stringify!($d)), &mut |$rng| $body); }
            { let $w: std::sync::Arc<$d> = std::sync::Arc::new($c); observe_form(&mut out, $seed, format!("Arc<{}>", stringify!($d)), &mut |$rng| $body); }
            { let $w: std::rc::Rc<$d> = std::rc::Rc::new($c); observe_form(&mut out, $seed, format!("Rc<{}>", stringify!($d)), &mut |$rng| $body); }
            { let cell = RefCell::new($c); let $w: Ref<'_, $d> = Ref::map(cell.borrow(), |x| x as &$d); observe_form(&mut out, $seed, format!("Ref<{}>", stringify!($d)), &mut |$rng| $body); }
            { let cell = RefCell::new($c); let $w: RefMut<'_, $d> = RefMut::map(cell.borrow_mut(), |x| x as &mut $d); observe_form(&mut out, $seed, format!("RefMut<{}>", stringify!($d)), &mut |$rng| $body); }
        )*
        out
    }};
}

fn observe_form(out: &mut Vec<(String, Value)>, seed: u64, name: String, f: &mut dyn FnMut(&mut Counting) -> String) {
    let mut rng = Counting { inner: SmallRng::seed_from_u64(seed), words: 0 };
    let v = guarded(|| f(&mut rng)).unwrap_or_else(|m| format!("panic: {m}"));
    let words = rng.words;
    out.push((name, json!({"result": v, "words": words, "next": format!("{:016x}", rng.inner.next_u64())})));
}

type DS<'a> = dyn DynSelector<Pop, BoxErr> + 'a;
type DSs<'a> = dyn DynSelector<Pop, BoxErr> + Send + 'a;
type DSy<'a> = dyn DynSelector<Pop, BoxErr> + Sync + 'a;
type DSsy<'a> = dyn DynSelector<Pop, BoxErr> + Send + Sync + 'a;
type DM<'a> = dyn DynMutator<Vec<bool>, BoxErr> + 'a;
type DMs<'a> = dyn DynMutator<Vec<bool>, BoxErr> + Send + 'a;
type DMy<'a> = dyn DynMutator<Vec<bool>, BoxErr> + Sync + 'a;
type DMsy<'a> = dyn DynMutator<Vec<bool>, BoxErr> + Send + Sync + 'a;
type DR<'a> = dyn DynRecombinator<[Vec<bool>; 2], BoxErr, Output = Vec<bool>> + 'a;
type DRs<'a> = dyn DynRecombinator<[Vec<bool>; 2], BoxErr, Output = Vec<bool>> + Send + 'a;
type DRy<'a> = dyn DynRecombinator<[Vec<bool>; 2], BoxErr, Output = Vec<bool>> + Sync + 'a;
type DRsy<'a> = dyn DynRecombinator<[Vec<bool>; 2], BoxErr, Output = Vec<bool>> + Send + Sync + 'a;
type DO<'a> = dyn DynOperator<u64, BoxErr, Output = u64> + 'a;
type DOs<'a> = dyn DynOperator<u64, BoxErr, Output = u64> + Send + 'a;
type DOy<'a> = dyn DynOperator<u64, BoxErr, Output = u64> + Sync + 'a;
type DOsy<'a> = dyn DynOperator<u64, BoxErr, Output = u64> + Send + Sync + 'a;
type DSt<'a> = dyn DynSelector<Pop, Tagged> + 'a;
type DMt<'a> = dyn DynMutator<Vec<bool>, Tagged> + 'a;
type DRt<'a> = dyn DynRecombinator<[Vec<bool>; 2], Tagged, Output = Vec<bool>> + 'a;
type DOt<'a> = dyn DynOperator<u64, Tagged, Output = u64> + 'a;
type DCt<'a> = dyn DynChildMaker<Pop, Tournament, Tagged> + 'a;
type DC<'a> = dyn DynChildMaker<Pop, Tournament, BoxErr> + 'a;
type DCs<'a> = dyn DynChildMaker<Pop, Tournament, BoxErr> + Send + 'a;
type DCy<'a> = dyn DynChildMaker<Pop, Tournament, BoxErr> + Sync + 'a;
type DCsy<'a> = dyn DynChildMaker<Pop, Tournament, BoxErr> + Send + Sync + 'a;

fn show<T: std::fmt::Debug, E: std::fmt::Display>(r: Result<T, E>) -> String {
    match r {
        Ok(v) => format!("Ok({v:?})"),
        Err(e) => format!("Err({e})"),
    }
}

/// ... with the diagnostic the error carries (help text, code): the repository's wrapper error
/// types pass the wrapped error's text and diagnostic through unchanged
fn show_diag<T: std::fmt::Debug, E: std::fmt::Display + miette::Diagnostic>(r: Result<T, E>) -> String {
    match r {
        Ok(v) => format!("Ok({v:?})"),
        Err(e) => format!("Err({e}; help={:?}; code={:?})", e.help().map(|h| h.to_string()), e.code().map(|c| c.to_string())),
    }
}
/// ... and with what `Debug` says (the VARIANT of the error, not only its wording): only for rows where the
/// concrete form and the erased form carry the same error type
fn show_dbg<T: std::fmt::Debug, E: std::fmt::Display + std::fmt::Debug>(r: Result<T, E>) -> String {
    match r {
        Ok(v) => format!("Ok({v:?})"),
        Err(e) => format!("Err({e}; debug={e:?})"),
    }
}
type DRx<'a> = dyn DynRecombinator<[Vec<bool>; 2], CrossoverGeneError<DifferentGenomeLength>, Output = Vec<bool>> + 'a;
type DSw<'a> = dyn DynSelector<Pop, DynWeightedError> + 'a;

/// an operator that doubles a number after drawing one word (concrete Operator<u64>)
struct Doubler;
impl Composable for Doubler {}
impl Operator<u64> for Doubler {
    type Output = u64;
    type Error = Refused;
    fn apply<R: Rng + ?Sized>(&self, x: u64, rng: &mut R) -> Result<u64, Refused> {
        Ok(x.wrapping_mul(2) ^ u64::from(rng.next_u32() & 0xff))
    }
}

fn main() {
    util::silence_panics();
    util::start_hang_monitor("vh_erased");
    let args: Vec<String> = std::env::args().skip(1).collect();
    std::process::exit(trace(&args));
}

fn trace(args: &[String]) -> i32 {
    let seed = arg_u64(args, "--seed", 0);
    let seeds = arg_u64(args, "--seeds", 5);
    let mut out = Out::create(arg_req(args, "--out"));
    let mut group = 0u64;
    let mut pick = run_rng(seed, 0xC17, 0);
    for _ in 0..seeds {
        let a: u64 = pick.random_range(0..40);
        let s: u64 = pick.random::<u64>() >> 12;
        let mut emit = |out: &mut Out, tr: &str, imp: &str, obs: Vec<(String, Value)>| {
            group += 1;
            out.line(&json!({"ev": "reset", "run": group, "op": format!("{tr}/{imp}")}));
            for (form, val) in obs {
                out.line(&json!({"ev": "obs", "run": group, "op": format!("{tr}/{imp}"), "phase": form,
                                 "key": format!("{tr}|{imp}|args{a}|seed{s}"), "val": val}));
            }
        };
        macro_rules! selector {
            ($imp:expr, $c:expr) => {
                emit(&mut out, "selector", $imp, all_forms!(s, $c, [DS<'_>, DSs<'_>, DSy<'_>, DSsy<'_>], |w, rng| {
                    let pop = population(a);
                    show(Selector::select(&w, &pop, rng).map(|i| pop.iter().position(|p| std::ptr::eq(p, i))))
                }))
            };
        }
        selector!("best", Best);
        selector!("random", Random);
        selector!("tournament4", Tournament::new(NonZeroUsize::new(4).expect("4")));
        selector!("lexicase", Lexicase::new(3));
        selector!("failing", Failing);
        selector!("var_words", VarWords);
        selector!("bytes", Bytes);
        // a caller-chosen error type: the wrapped operator's own error, through its dedicated conversion
        emit(&mut out, "selector", "failing/custom_error", all_forms!(s, Failing, [DSt<'_>], |w, rng| {
            let pop = population(a);
            show(Selector::select(&w, &pop, rng).map(|i| pop.iter().position(|p| std::ptr::eq(p, i))))
        }));
        macro_rules! mutator {
            ($imp:expr, $c:expr) => {
                emit(&mut out, "mutator", $imp, all_forms!(s, $c, [DM<'_>, DMs<'_>, DMy<'_>, DMsy<'_>], |w, rng| {
                    show(Mutator::mutate(&w, genome(a, 7), rng))
                }))
            };
        }
        mutator!("with_rate", WithRate::new(0.4));
        mutator!("one_over_length", WithOneOverLength);
        mutator!("failing", Failing);
        mutator!("var_words", VarWords);
        mutator!("bytes", Bytes);
        emit(&mut out, "mutator", "failing/custom_error", all_forms!(s, Failing, [DMt<'_>], |w, rng| {
            show(Mutator::mutate(&w, genome(a, 7), rng))
        }));
        macro_rules! recombinator {
            ($imp:expr, $c:expr) => {
                emit(&mut out, "recombinator", $imp, all_forms!(s, $c, [DR<'_>, DRs<'_>, DRy<'_>, DRsy<'_>], |w, rng| {
                    show(Recombinator::recombine(&w, [genome(a, 8), genome(a + if a % 5 == 0 { 1 } else { 0 }, 9)], rng))
                }))
            };
        }
        recombinator!("two_point", TwoPointXo);
        recombinator!("uniform", UniformXo);
        recombinator!("failing", Failing);
        recombinator!("var_words", VarWords);
        recombinator!("bytes", Bytes);
        emit(&mut out, "recombinator", "failing/custom_error", all_forms!(s, Failing, [DRt<'_>], |w, rng| {
            show(Recombinator::recombine(&w, [genome(a, 8), genome(a, 9)], rng))
        }));
        // the repository's own wrapper error types as the erased error type (its dedicated conversions):
        // parents of different lengths, the longer one first or second
        macro_rules! xo_repo_error {
            ($imp:expr, $c:expr) => {
                emit(&mut out, "recombinator", $imp, all_forms!(s, $c, [DRx<'_>], |w, rng| {
                    let (x, y) = (genome(a, 8), genome(a + 1 + a % 3, 9));
                    show_diag(Recombinator::recombine(&w, if a % 2 == 0 { [x, y] } else { [y, x] }, rng))
                }))
            };
        }
        xo_repo_error!("two_point/crossover_gene_error", TwoPointXo);
        xo_repo_error!("uniform/crossover_gene_error", UniformXo);
        macro_rules! sel_repo_error {
            ($imp:expr, $c:expr) => {
                emit(&mut out, "selector", $imp, all_forms!(s, $c, [DSw<'_>], |w, rng| {
                    let pop = if a % 2 == 0 { Pop::new() } else { population(a) };
                    show_diag(Selector::select(&w, &pop, rng).map(|i| pop.iter().position(|p| std::ptr::eq(p, i))))
                }))
            };
        }
        sel_repo_error!("best/dyn_weighted_error", Best);
        sel_repo_error!("random/dyn_weighted_error", Random);
        // the repository's weighted selector list itself behind every pointer, on empty populations too (it has
        // paths of its own for them), with the error's variant compared
        macro_rules! sel_dyn_weighted {
            ($imp:expr, $c:expr) => {
                emit(&mut out, "selector", $imp, all_forms!(s, $c, [DSw<'_>, DS<'_>, DSsy<'_>], |w, rng| {
                    let pop = if a % 2 == 0 { Pop::new() } else { population(a) };
                    show_dbg(Selector::select(&w, &pop, rng).map(|i| pop.iter().position(|p| std::ptr::eq(p, i))))
                }))
            };
        }
        sel_dyn_weighted!("dyn_weighted", DynWeighted::<Pop>::new(Best, 1).with_selector(Random, 2).with_selector(Lexicase::new(3), 1));
        sel_dyn_weighted!("dyn_weighted/zero", DynWeighted::<Pop>::new(Best, 0).with_selector(Random, 0));
        sel_dyn_weighted!("dyn_weighted/after_zero", DynWeighted::<Pop>::new(Best, 0).with_selector(Random, 3));
        macro_rules! operator {
            ($imp:expr, $c:expr) => {
                emit(&mut out, "operator", $imp, all_forms!(s, $c, [DO<'_>, DOs<'_>, DOy<'_>, DOsy<'_>], |w, rng| {
                    show(Operator::apply(&w, a, rng))
                }))
            };
        }
        operator!("doubler", Doubler);
        operator!("failing", Failing);
        operator!("var_words", VarWords);
        operator!("bytes", Bytes);
        emit(&mut out, "operator", "failing/custom_error", all_forms!(s, Failing, [DOt<'_>], |w, rng| {
            show(Operator::apply(&w, a, rng))
        }));
        macro_rules! child_maker {
            ($imp:expr, $c:expr) => {
                emit(&mut out, "child_maker", $imp, all_forms!(s, $c, [DC<'_>, DCs<'_>, DCy<'_>, DCsy<'_>], |w, rng| {
                    let pop = population(a);
                    let sel = Tournament::new(NonZeroUsize::new(if a % 4 == 0 { 9 } else { 2 }).expect("k"));
                    show(ChildMaker::make_child(&w, rng, &pop, &sel).map(|c| (c.genome, c.test_results.total_result)))
                }))
            };
        }
        child_maker!("cloner", Cloner);
        child_maker!("failing", Failing);
        child_maker!("bytes", Bytes);
        emit(&mut out, "child_maker", "failing/custom_error", all_forms!(s, Failing, [DCt<'_>], |w, rng| {
            let pop = population(a);
            let sel = Tournament::new(NonZeroUsize::new(2).expect("k"));
            show(ChildMaker::make_child(&w, rng, &pop, &sel).map(|c| (c.genome, c.test_results.total_result)))
        }));
    }
    // two threads inside `make_child` of ONE erased child maker at the same time (the Send + Sync
    // flavours exist for this): each gets what the concrete child maker gives for its own generator
    for round in 0..seeds.min(6) {
        group += 1;
        let a = 1 + round; // a non-empty population
        let pop = population(a);
        let sel = Tournament::new(NonZeroUsize::new(2).expect("k"));
        let want: Vec<String> = (0..2u64)
            .map(|t| {
                let mut rng = SmallRng::seed_from_u64(seed ^ (round * 2 + t));
                show(Cloner.make_child(&mut rng, &pop, &sel).map(|c| (c.genome, c.test_results.total_result)))
            })
            .collect();
        out.line(&json!({"ev": "reset", "run": group, "op": "child_maker/concurrent"}));
        let shared: std::sync::Arc<DCsy<'static>> = std::sync::Arc::new(Meeting { inside: std::sync::atomic::AtomicUsize::new(0), id: round });
        let by_ref_owner = Meeting { inside: std::sync::atomic::AtomicUsize::new(0), id: round };
        let by_ref: &DCsy<'_> = &by_ref_owner;
        for (form, run_two) in [("Arc<DCsy>", 0), ("&DCsy", 1)] {
            let got: Vec<String> = std::thread::scope(|s| {
                let hs: Vec<_> = (0..2u64)
                    .map(|t| {
                        let (pop, sel, shared) = (&pop, &sel, shared.clone());
                        s.spawn(move || {
                            let mut rng = SmallRng::seed_from_u64(seed ^ (round * 2 + t));
                            guarded(|| {
                                if run_two == 0 {
                                    show(ChildMaker::make_child(&shared, &mut rng, pop, sel).map(|c| (c.genome, c.test_results.total_result)))
                                } else {
                                    show(ChildMaker::make_child(&by_ref, &mut rng, pop, sel).map(|c| (c.genome, c.test_results.total_result)))
                                }
                            })
                            .unwrap_or_else(|m| format!("panic: {m}"))
                        })
                    })
                    .collect();
                hs.into_iter().map(|h| h.join().unwrap_or_else(|_| "thread died".to_string())).collect()
            });
            for t in 0..2usize {
                let key = format!("child_maker|concurrent|round{round}|caller{t}");
                out.line(&json!({"ev": "obs", "run": group, "op": "child_maker/concurrent", "phase": "concrete", "key": key, "val": {"result": want[t]}}));
                out.line(&json!({"ev": "obs", "run": group, "op": "child_maker/concurrent", "phase": format!("{form}, two threads inside at once"), "key": key, "val": {"result": got[t]}}));
            }
        }
    }
    out.finish();
    0
}
