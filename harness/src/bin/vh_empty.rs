//! C18: every conversion flavour of a ZERO-LENGTH ARRAY into a uniform choice must be rejected
//! with the documented error value when the distribution is BUILT. A compile-time rejection
//! (this target failing to build) or a panic is not "an error rather than a panic".

use ec_core::distributions::conversion::{IntoDistribution, ToDistribution};

#[derive(Clone, Debug, PartialEq)]
struct El(i64);

fn outcome<D>(r: std::thread::Result<Result<D, impl Sized>>) -> &'static str {
    match r {
        Ok(Ok(_)) => "built",
        Ok(Err(_)) => "error_value",
        Err(_) => "panic",
    }
}

fn main() {
    std::panic::set_hook(Box::new(|_| {}));
    let mut rows = Vec::new();
    let a: [El; 0] = [];
    rows.push(("arr_into_owned", outcome(std::panic::catch_unwind(|| IntoDistribution::<El>::into_distribution(a.clone())))));
    rows.push(("arrref_into_ref", outcome(std::panic::catch_unwind(|| IntoDistribution::<&El>::into_distribution(&a)))));
    rows.push(("arrref_into_clone", outcome(std::panic::catch_unwind(|| IntoDistribution::<El>::into_distribution(&a)))));
    rows.push(("arr_to_clone", outcome(std::panic::catch_unwind(|| ToDistribution::<El>::to_distribution(&a)))));
    rows.push(("arr_to_ref", outcome(std::panic::catch_unwind(|| ToDistribution::<&El>::to_distribution(&a)))));
    for (flavour, what) in rows {
        println!("{{\"flavour\": \"{flavour}\", \"outcome\": \"{what}\"}}");
    }
}
