//! C01-C03 (and the Push half of C16): the real interpreter against spec/vm/PushVM.tla.

use ordered_float::OrderedFloat;
use push::{
    error::into_state::IntoState,
    genome::plushy::{Plushy, PushGene},
    instruction::{
        instruction_error::PushInstructionError, Instruction, IntInstructionError, PushInstruction,
    },
    push_vm::{program::PushProgram, push_state::PushState, stack::StackError, State},
};
use rand::{rngs::SmallRng, seq::IndexedRandom, Rng};
use serde_json::{json, Value};

use crate::proj::*;
use crate::util::{arg_req, arg_u64, arr, guarded, read_ndjson, run_rng, s, Out};

fn stack_of_type(t: &str) -> &'static str {
    if t == "i64" {
        "int"
    } else if t == "bool" {
        "bool"
    } else if t.contains("OrderedFloat") {
        "flt"
    } else if t.contains("PushProgram") {
        "exec"
    } else {
        "unknown"
    }
}

fn err_json(e: &PushInstructionError) -> Value {
    match e {
        PushInstructionError::StackError(StackError::Underflow { .. }) => {
            json!({"kind": "underflow", "stack": "none"})
        }
        PushInstructionError::StackError(StackError::Overflow { stack_type }) => {
            json!({"kind": "overflow", "stack": stack_of_type(stack_type)})
        }
        PushInstructionError::Int(IntInstructionError::Overflow { .. }) => {
            json!({"kind": "intoverflow", "stack": "none"})
        }
        PushInstructionError::StepLimitExceeded { .. } => json!({"kind": "steplimit", "stack": "none"}),
    }
}

/// The error inside a `FatalError` has no accessor: read it off the `Debug` rendering.
fn fatal_err_json(dbg: &str) -> Value {
    let tail = dbg.rfind(", error: ").map_or(dbg, |p| &dbg[p..]);
    if tail.contains("Overflow { stack_type") {
        let st = tail
            .split("stack_type: \"")
            .nth(1)
            .and_then(|r| r.split('"').next())
            .unwrap_or("");
        json!({"kind": "overflow", "stack": stack_of_type(st)})
    } else if tail.contains("Underflow") {
        json!({"kind": "underflow", "stack": "none"})
    } else if tail.contains("Int(") {
        json!({"kind": "intoverflow", "stack": "none"})
    } else if tail.contains("StepLimitExceeded") {
        json!({"kind": "steplimit", "stack": "none"})
    } else {
        json!({"kind": "unknown", "stack": "none"})
    }
}

fn resolve<'a>(ins: &'a Value, inputs: &'a Value) -> &'a Value {
    if ins["f"] == "input" {
        &inputs[s(&ins["o"])]
    } else {
        ins
    }
}

fn with_out(stacks: Value, out: Vec<Value>) -> Value {
    let mut m = stacks;
    m["out"] = Value::Array(out);
    m
}

/// The printed output of a state. Reading it is an observation: two consecutive reads agree and
/// leave the state able to print on (a read that consumed or corrupted the buffer shows as a
/// marker text that no specification output matches).
pub fn read_output(st: &mut PushState) -> String {
    let first = st.stdout_string().unwrap_or_default();
    let second = st.stdout_string().unwrap_or_default();
    if first == second {
        first
    } else {
        format!("<<output differs between two consecutive reads: {first:?} then {second:?}>>")
    }
}

/// A state with the same stacks/output as `after` but max sizes, inputs and step limit taken
/// from the configuration: equal to `after` iff the instruction left those hidden parts alone.
fn hidden_parts_unchanged(after: &PushState, stacks: &Value, max: &Value, inputs: &Value, limit: usize) -> bool {
    let Ok(rebuilt) = build_state(stacks, max, inputs, limit) else {
        return false;
    };
    let text = after.clone().stdout_string().unwrap_or_default();
    let rebuilt = if text.is_empty() {
        rebuilt
    } else {
        match push::instruction::printing::PrintString(text).perform(rebuilt) {
            Ok(st) => st,
            Err(_) => return false,
        }
    };
    rebuilt == *after
}

/// spec -> impl: one real `perform` per emitted (instruction, state) case.
pub fn step_replay(args: &[String]) -> i32 {
    let cases = read_ndjson(arg_req(args, "--cases"));
    let mut out = Out::create(arg_req(args, "--out"));
    let (mut n, mut bad, mut cuts) = (0u64, 0u64, 0u64);
    for case in &cases {
        n += 1;
        let ins = &case["ins"];
        let limit = 7usize;
        if mod_not_comparable(resolve(ins, &case["inputs"]), &case["s"]) {
            cuts += 1;
            continue;
        }
        let observed = guarded(|| -> Option<Value> {
            let state = build_state(&case["s"], &case["max"], &case["inputs"], limit).expect("pre-state");
            let pre = state.clone();
            let item = item_from_json(ins);
            let rins = resolve(ins, &case["inputs"]);
            Some(match item.perform(state) {
                Ok(mut after) => {
                    let stacks = stacks_to_json(&after)?;
                    let text = read_output(&mut after);
                    let toks = lex_output(rins, &text)?;
                    let hidden_ok = hidden_parts_unchanged(&after, &stacks, &case["max"], &case["inputs"], limit);
                    let mut o = json!({"kind": "ok", "st": with_out(stacks, toks),
                                       "err": {"kind": "none", "stack": "none"}});
                    if !hidden_ok {
                        o["hidden_parts_changed"] = json!(true);
                    }
                    o
                }
                Err(e) => {
                    let kind = if e.is_recoverable() { "rec" } else { "fatal" };
                    let same = *e.state() == pre;
                    let stacks = stacks_to_json(e.state())?;
                    let text = e.state().clone().stdout_string().unwrap_or_default();
                    let toks = lex_output(rins, &text)?;
                    let mut o = json!({"kind": kind, "st": with_out(stacks, toks), "err": err_json(e.error())});
                    if !same {
                        o["state_differs_from_pre_state"] = json!(true);
                    }
                    o
                }
            })
        });
        let observed = match observed {
            Ok(Some(o)) => o,
            Ok(None) => {
                cuts += 1;
                continue;
            }
            Err(m) => json!({"panic": m}),
        };
        if !arr(&case["allowed"]).iter().any(|a| *a == observed) {
            bad += 1;
            out.line(&json!({"kind": "mismatch", "case": case, "observed": observed}));
        }
    }
    out.line(&json!({"kind": "summary", "cases": n, "mismatches": bad, "cuts": cuts}));
    out.finish();
    0
}

pub struct RunObs {
    pub status: &'static str, // "ok" | "fatal" | "panic"
    pub stacks: Option<Value>,
    pub text: String,
    pub err: Value,
}

/// One real `run_to_completion` under step limit `k`.
pub fn run_once(sv: &Value, max: &Value, inputs: &Value, k: usize) -> RunObs {
    let r = guarded(|| {
        let state = build_state(sv, max, inputs, k).expect("initial state");
        match state.run_to_completion() {
            Ok(mut st) => RunObs {
                status: "ok",
                stacks: stacks_to_json(&st),
                text: read_output(&mut st),
                err: json!({"kind": "none", "stack": "none"}),
            },
            Err(fe) => {
                let dbg = format!("{fe:?}");
                let mut st = fe.into_state();
                RunObs {
                    status: "fatal",
                    stacks: stacks_to_json(&st),
                    text: read_output(&mut st),
                    err: fatal_err_json(&dbg),
                }
            }
        }
    });
    r.unwrap_or_else(|m| RunObs {
        status: "panic",
        stacks: None,
        text: m,
        err: json!({"kind": "panic", "stack": "none"}),
    })
}

/// The same evaluation INTERRUPTED half way: run under limit k/2, read the output, run the
/// returned state again (another k/2 steps). Evaluation being a function of program, inputs and
/// limits, this must be where the uninterrupted run under limit k ends.
pub fn run_resumed(sv: &Value, max: &Value, inputs: &Value, k: usize) -> RunObs {
    let r = guarded(|| {
        let state = build_state(sv, max, inputs, k / 2).expect("initial state");
        fn finish<E: std::fmt::Debug + IntoState<PushState>>(r: Result<PushState, E>) -> RunObs {
            match r {
                Ok(mut st) => RunObs { status: "ok", stacks: stacks_to_json(&st), text: read_output(&mut st), err: json!({"kind": "none", "stack": "none"}) },
                Err(fe) => {
                    let dbg = format!("{fe:?}");
                    let mut st = fe.into_state();
                    RunObs { status: "fatal", stacks: stacks_to_json(&st), text: read_output(&mut st), err: fatal_err_json(&dbg) }
                }
            }
        }
        match state.run_to_completion() {
            Ok(mut half) => {
                let _ = read_output(&mut half);
                finish(half.run_to_completion())
            }
            Err(fe) => finish(Err(fe)),
        }
    });
    r.unwrap_or_else(|m| RunObs { status: "panic", stacks: None, text: m, err: json!({"kind": "panic", "stack": "none"}) })
}

/// The same evaluation on a RECYCLED state: a scratch state with other stacks, other limits and
/// other inputs (and some output already printed) is overwritten with `clone_from` and then run.
/// It is a copy of the template in every respect, so it must evaluate exactly like it.
pub fn run_recycled(sv: &Value, max: &Value, inputs: &Value, k: usize) -> RunObs {
    let r = guarded(|| {
        let template = build_state(sv, max, inputs, k).expect("initial state");
        let other_sv = json!({"exec": [{"f": "int", "o": "print"}, {"f": "exec", "o": "noop"}], "int": [5, 6], "flt": [], "bool": [true]});
        let other_max = json!({"exec": 9, "int": 9, "flt": 9, "bool": 9});
        let other_inputs = json!({"x": {"f": "int", "o": "push", "v": 99}, "zz": {"f": "bool", "o": "push", "v": true}});
        let scratch = build_state(&other_sv, &other_max, &other_inputs, k + 7).expect("scratch state");
        let mut scratch = match scratch.run_to_completion() {
            Ok(s) => s,
            Err(fe) => fe.into_state(),
        };
        scratch.clone_from(&template);
        match scratch.run_to_completion() {
            Ok(mut st) => RunObs { status: "ok", stacks: stacks_to_json(&st), text: read_output(&mut st), err: json!({"kind": "none", "stack": "none"}) },
            Err(fe) => {
                let dbg = format!("{fe:?}");
                let mut st = fe.into_state();
                RunObs { status: "fatal", stacks: stacks_to_json(&st), text: read_output(&mut st), err: fatal_err_json(&dbg) }
            }
        }
    });
    r.unwrap_or_else(|m| RunObs { status: "panic", stacks: None, text: m, err: json!({"kind": "panic", "stack": "none"}) })
}

/// What happens when the state handed back inside a fatal error is run AGAIN, compared with running
/// a freshly built state that has the same stacks, limits and inputs: `None` = they agree (or the
/// state is outside the number windows), `Some(description)` otherwise. Evaluation is a function of
/// the state; a state that came out of an aborted run is a state like any other.
pub fn continue_after_fatal(sv: &Value, max: &Value, inputs: &Value, k: usize) -> Option<String> {
    let r = guarded(|| -> Option<String> {
        let state = build_state(sv, max, inputs, k).expect("initial state");
        let Err(fe) = state.run_to_completion() else { return None };
        let mut aborted = fe.into_state();
        let before = read_output(&mut aborted);
        let proj = stacks_to_json(&aborted)?;
        let maxes = maxes_to_json(&aborted);
        let fresh = build_state(&proj, &maxes, inputs, k).ok()?;
        fn show<E: std::fmt::Debug + IntoState<PushState>>(r: Result<PushState, E>, skip: &str) -> String {
            match r {
                Ok(mut st) => { let t = read_output(&mut st); format!("ok {:?} {:?}", stacks_to_json(&st).map(|v| v.to_string()), t.strip_prefix(skip).map(str::to_string)) }
                Err(fe) => {
                    let e = fatal_err_json(&format!("{fe:?}"));
                    let mut st = fe.into_state();
                    let t = read_output(&mut st);
                    format!("fatal {e} {:?} {:?}", stacks_to_json(&st).map(|v| v.to_string()), t.strip_prefix(skip).map(str::to_string))
                }
            }
        }
        // every input the state was built with is still bound in the state that came out of the abort
        if let Some(names) = inputs.as_object() {
            for name in names.keys() {
                let ins = PushInstruction::InputVar(push::instruction::variable_name::VariableName::from(name.as_str()));
                let probe = |st: &PushState| -> String {
                    match guarded(|| ins.perform(st.clone())) {
                        Ok(Ok(s2)) => format!("ok {:?}", stacks_to_json(&s2).map(|v| v.to_string())),
                        Ok(Err(e)) => format!("error {:?}", err_json(e.error())),
                        Err(m) => format!("panic: {m}"),
                    }
                };
                let (a, b) = (probe(&aborted), probe(&fresh));
                if a != b {
                    return Some(format!("input `{name}` performed on the state handed back by the fatal error: {a}; on the same state built afresh: {b}"));
                }
            }
        }
        let continued = show(aborted.run_to_completion(), &before);
        let rebuilt = show(fresh.run_to_completion(), "");
        (continued != rebuilt).then(|| format!("continued: {continued}; the same state built afresh: {rebuilt}"))
    });
    match r {
        Ok(x) => x,
        Err(m) => Some(format!("panic while continuing the state handed back by a fatal error: {m}")),
    }
}

/// A state that came out of a completed run is given MORE code (pushed onto its exec stack) and run
/// again, compared with a freshly built state that has the same stacks, limits, inputs and code:
/// the step limit bounds each evaluation, it is not a budget the state uses up.
pub fn continue_with_more_code(sv: &Value, max: &Value, inputs: &Value, k: usize) -> Option<String> {
    let r = guarded(|| -> Option<String> {
        let state = build_state(sv, max, inputs, k).expect("initial state");
        let Ok(mut done) = state.run_to_completion() else { return None };
        let before = read_output(&mut done);
        let mut proj = stacks_to_json(&done)?;
        let maxes = maxes_to_json(&done);
        let room = maxes["exec"].as_u64()? as usize - arr(&proj["exec"]).len();
        let extra: Vec<Value> = [json!({"f": "exec", "o": "noop"}), json!({"f": "int", "o": "stack_depth"}), json!({"f": "exec", "o": "noop"}),
                                 json!({"f": "bool", "o": "stack_depth"}), json!({"f": "exec", "o": "noop"})].into_iter().take(room.min(k.max(1))).collect();
        if extra.is_empty() {
            return None;
        }
        {
            use push::push_vm::HasStack;
            done.stack_mut::<PushProgram>().push_many(extra.iter().map(item_from_json).collect::<Vec<_>>()).ok()?;
        }
        let mut exec = extra.clone();
        exec.extend(arr(&proj["exec"]).iter().cloned());
        proj["exec"] = Value::Array(exec);
        let fresh = build_state(&proj, &maxes, inputs, k).ok()?;
        fn show<E: std::fmt::Debug + IntoState<PushState>>(r: Result<PushState, E>, skip: &str) -> String {
            match r {
                Ok(mut st) => { let t = read_output(&mut st); format!("ok {:?} {:?}", stacks_to_json(&st).map(|v| v.to_string()), t.strip_prefix(skip).map(str::to_string)) }
                Err(fe) => {
                    let e = fatal_err_json(&format!("{fe:?}"));
                    let mut st = fe.into_state();
                    let t = read_output(&mut st);
                    format!("fatal {e} {:?} {:?}", stacks_to_json(&st).map(|v| v.to_string()), t.strip_prefix(skip).map(str::to_string))
                }
            }
        }
        let continued = show(done.run_to_completion(), &before);
        let rebuilt = show(fresh.run_to_completion(), "");
        (continued != rebuilt).then(|| format!("a finished state given more code and run again: {continued}; the same state built afresh: {rebuilt}"))
    });
    match r {
        Ok(x) => x,
        Err(m) => Some(format!("panic while running a finished state again with more code: {m}")),
    }
}

/// Observations of the real interpreter after 0, 1, ..., n steps (runs under step limits
/// 0..=n from fresh copies of the initial state).  Element k: (status, stacks, tokens printed
/// by step k, err).  Stops after a fatal/panic, or at the first state that is outside the
/// number windows (`cut`).
pub struct StepSeq {
    pub obs: Vec<(RunObs, Vec<Value>)>,
    pub cut: bool,
}

pub fn observe_steps(sv: &Value, max: &Value, inputs: &Value, n: usize) -> StepSeq {
    let mut obs: Vec<(RunObs, Vec<Value>)> = Vec::new();
    let mut cut = false;
    for k in 0..=n {
        if k > 0 {
            let prev = obs[k - 1].0.stacks.as_ref().expect("stacks");
            if let Some(item) = arr(&prev["exec"]).first() {
                if mod_not_comparable(resolve(item, inputs), prev) {
                    cut = true;
                    break;
                }
            }
        }
        let mut o = run_once(sv, max, inputs, k);
        if k > 0 && k % 2 == 0 && o.status != "panic" {
            let r = run_resumed(sv, max, inputs, k);
            if (r.status, &r.stacks, &r.text, &r.err) != (o.status, &o.stacks, &o.text, &o.err) {
                o = RunObs {
                    status: "panic",
                    stacks: None,
                    text: format!("evaluation interrupted after {} steps (output read, then resumed) ends differently from the uninterrupted \
                                   evaluation under limit {k}: {} {:?} {:?} instead of {} {:?} {:?}", k / 2, r.status, r.stacks.map(|v| v.to_string()),
                                  r.text, o.status, o.stacks.as_ref().map(ToString::to_string), o.text),
                    err: json!({"kind": "panic", "stack": "none"}),
                };
            }
        }
        if k % 3 == 1 && o.status != "panic" {
            let r = run_recycled(sv, max, inputs, k);
            if (r.status, &r.stacks, &r.text, &r.err) != (o.status, &o.stacks, &o.text, &o.err) {
                o = RunObs {
                    status: "panic",
                    stacks: None,
                    text: format!("a scratch state overwritten with clone_from(template) evaluates differently from the template under limit {k}:                                    {} {:?} {:?} instead of {} {:?} {:?}", r.status, r.stacks.map(|v| v.to_string()), r.text, o.status,
                                  o.stacks.as_ref().map(ToString::to_string), o.text),
                    err: json!({"kind": "panic", "stack": "none"}),
                };
            }
        }
        if o.status == "ok" && k % 4 == 3 {
            if let Some(diff) = continue_with_more_code(sv, max, inputs, k) {
                o = RunObs { status: "panic", stacks: None, text: diff, err: json!({"kind": "panic", "stack": "none"}) };
            }
        }
        if o.status == "fatal" {
            if let Some(diff) = continue_after_fatal(sv, max, inputs, k) {
                o = RunObs { status: "panic", stacks: None, text: diff, err: json!({"kind": "panic", "stack": "none"}) };
            }
        }
        if o.status == "panic" {
            obs.push((o, vec![]));
            break;
        }
        if o.stacks.is_none() {
            cut = true;
            break;
        }
        let delta_toks = if k == 0 {
            if o.text.is_empty() { Some(vec![]) } else { Some(vec![json!({"t": "raw", "v": o.text})]) }
        } else {
            let (prev, _) = &obs[k - 1];
            let prev_exec = arr(&prev.stacks.as_ref().expect("stacks")["exec"]);
            match o.text.strip_prefix(prev.text.as_str()) {
                None => Some(vec![json!({"t": "raw", "v": o.text})]),
                Some(delta) => match prev_exec.first() {
                    None => if delta.is_empty() { Some(vec![]) } else { Some(vec![json!({"t": "raw", "v": delta})]) },
                    Some(item) => lex_output(resolve(item, inputs), delta),
                },
            }
        };
        let Some(toks) = delta_toks else {
            cut = true;
            break;
        };
        let stop = o.status == "fatal";
        obs.push((o, toks));
        if stop {
            break;
        }
    }
    StepSeq { obs, cut }
}

/// spec -> impl: behaviours of the interpreter loop.  Case = initial configuration, a step
/// limit and the state the specification reaches under it.
pub fn run_replay(args: &[String]) -> i32 {
    let cases = read_ndjson(arg_req(args, "--cases"));
    let mut out = Out::create(arg_req(args, "--out"));
    let (mut n, mut bad, mut cuts) = (0u64, 0u64, 0u64);
    for case in &cases {
        n += 1;
        let limit = case["limit"].as_u64().expect("limit") as usize;
        let seq = observe_steps(&case["s"], &case["max"], &case["inputs"], limit);
        if seq.cut {
            cuts += 1;
            continue;
        }
        let (last, _) = seq.obs.last().expect("at least limit 0");
        let observed = if last.status == "panic" {
            json!({"panic": last.text})
        } else {
            let toks: Vec<Value> = seq.obs.iter().flat_map(|(_, t)| t.clone()).collect();
            json!({"status": last.status,
                   "st": with_out(last.stacks.clone().expect("stacks"), toks),
                   "err": last.err})
        };
        if !arr(&case["allowed"]).iter().any(|a| *a == observed) {
            bad += 1;
            out.line(&json!({"kind": "mismatch", "case": case, "observed": observed}));
        }
    }
    out.line(&json!({"kind": "summary", "cases": n, "mismatches": bad, "cuts": cuts}));
    out.finish();
    0
}

// ------------------------------------------------------------------------------------------
// impl -> spec: random programs

const INT_POOL: [i64; 14] = [
    0, 1, -1, 2, 3, -3, 7, 10, 63, i64::MAX, i64::MAX - 1, i64::MIN, i64::MIN + 1, 1 << 20,
];
const FLT_POOL: [f64; 13] = [
    0.0, -0.0, 1.0, -1.0, 0.5, 1.5, 2.0, -2.5, 8.0, 100.25, f64::NAN, f64::INFINITY, f64::NEG_INFINITY,
];

fn random_gene(rng: &mut SmallRng, pool: &[PushInstruction]) -> PushGene {
    match rng.random_range(0..100) {
        0..=13 => PushGene::Close,
        14..=27 => PushInstruction::push_int(*INT_POOL.choose(rng).expect("pool")).into(),
        28..=35 => PushInstruction::push_float(OrderedFloat(*FLT_POOL.choose(rng).expect("pool"))).into(),
        36..=42 => PushInstruction::push_bool(rng.random()).into(),
        43..=47 => push::instruction::variable_name::VariableName::from(
            *["x", "y", "b", "X"].choose(rng).expect("names"),
        )
        .into(),
        48..=50 => PushInstruction::PrintString(push::instruction::printing::PrintString(
            ["", "a", "fizz buzz", "q\n"].choose(rng).expect("strs").to_string(),
        ))
        .into(),
        _ => pool.choose(rng).expect("pool").clone().into(),
    }
}

pub fn random_config(rng: &mut SmallRng, pool: &[PushInstruction]) -> (Value, Value, Value, usize) {
    let ngenes = rng.random_range(0..=60);
    let genes: Vec<PushGene> = (0..ngenes).map(|_| random_gene(rng, pool)).collect();
    let program: Vec<PushProgram> = Plushy::new(genes).into();
    let exec_max = if rng.random_range(0..4) == 0 {
        rng.random_range(0..=8)
    } else {
        program.len() + rng.random_range(0..=12)
    };
    let program: Vec<PushProgram> = program.into_iter().take(exec_max).collect();
    let exec: Vec<Value> = program.iter().map(|p| item_to_json(p).expect("pool values are in the windows")).collect();
    let mut pick = |rng: &mut SmallRng| -> usize {
        if rng.random_range(0..4) == 0 { rng.random_range(0..=3) } else { rng.random_range(4..=12) }
    };
    let mi = pick(rng);
    let mf = pick(rng);
    let mb = pick(rng);
    let ints: Vec<Value> = (0..rng.random_range(0..=mi.min(4)))
        .map(|_| json!(phi(*INT_POOL.choose(rng).expect("pool")).expect("in window")))
        .collect();
    let flts: Vec<Value> = (0..rng.random_range(0..=mf.min(4)))
        .map(|_| psi(*FLT_POOL.choose(rng).expect("pool")).expect("on grid"))
        .collect();
    let bools: Vec<Value> = (0..rng.random_range(0..=mb.min(4))).map(|_| json!(rng.random::<bool>())).collect();
    let sv = json!({"exec": exec, "int": ints, "flt": flts, "bool": bools});
    let max = json!({"exec": exec_max, "int": mi, "flt": mf, "bool": mb});
    let inputs = json!({
        "x": {"f": "int", "o": "push", "v": phi(*INT_POOL.choose(rng).expect("pool")).expect("w")},
        "y": {"f": "flt", "o": "push", "v": psi(*FLT_POOL.choose(rng).expect("pool")).expect("g")},
        "b": {"f": "bool", "o": "push", "v": rng.random::<bool>()},
        "X": {"f": "int", "o": "push", "v": phi(*INT_POOL.choose(rng).expect("pool")).expect("w")},
    });
    let limit = rng.random_range(0..=60usize);
    (sv, max, inputs, limit)
}

pub fn instruction_pool() -> Vec<PushInstruction> {
    // every instruction the crate lists, minus default-payload literals and the unbound input
    all_instructions()
        .into_iter()
        .filter(|i| {
            let j = instr_to_json(i).expect("json");
            j["o"] != "push" && j["f"] != "input" && j["f"] != "unknown" && !(j["f"] == "print" && j["o"] == "string")
        })
        .collect()
}

pub fn trace(args: &[String]) -> i32 {
    let seed = arg_u64(args, "--seed", 0);
    let runs = arg_u64(args, "--runs", 10);
    let first = arg_u64(args, "--first-run", 0);
    let mut out = Out::create(arg_req(args, "--out"));
    let pool = instruction_pool();
    let (mut cuts, mut events) = (0u64, 0u64);
    for run in first..first + runs {
        let mut rng = run_rng(seed, 0xC01, run);
        let (sv, max, inputs, limit) = random_config(&mut rng, &pool);
        let seq = observe_steps(&sv, &max, &inputs, limit);
        if seq.cut {
            cuts += 1;
        }
        out.line(&json!({"ev": "reset", "run": run, "st": with_out(sv.clone(), vec![]), "max": max,
                         "inputs": inputs, "limit": limit}));
        events += 1;
        for (k, (o, toks)) in seq.obs.iter().enumerate() {
            if o.status == "panic" {
                out.line(&json!({"ev": "panic", "run": run, "k": k, "msg": o.text}));
                events += 1;
                break;
            }
            if k == 0 {
                // limit 0 must hand back the initial state
                out.line(&json!({"ev": "limit0", "run": run, "status": o.status,
                                 "st": with_out(o.stacks.clone().expect("stacks"), toks.clone())}));
                events += 1;
                continue;
            }
            let prev_exec_len = arr(&seq.obs[k - 1].0.stacks.as_ref().expect("stacks")["exec"]).len();
            if prev_exec_len == 0 && o.status == "ok" {
                // the program had already ended: a larger limit must change nothing
                out.line(&json!({"ev": "idle", "run": run, "k": k,
                                 "stacks": o.stacks.clone().expect("stacks"), "delta": toks}));
                events += 1;
                break;
            }
            out.line(&json!({"ev": "step", "run": run, "k": k, "status": o.status,
                             "stacks": o.stacks.clone().expect("stacks"), "delta": toks, "err": o.err}));
            events += 1;
        }
    }
    out.finish();
    println!("{}", json!({"cuts": cuts, "events": events, "runs": runs}));
    0
}

/// The table conformance check of C05: `num_opens` of every instruction the crate lists.
pub fn num_opens_table(args: &[String]) -> i32 {
    use push::instruction::NumOpens;
    let mut out = Out::create(arg_req(args, "--out"));
    for i in all_instructions() {
        out.line(&json!({"ins": instr_to_json(&i), "opens": i.num_opens()}));
    }
    // the instruction types that are the payloads of the enums answer for themselves too: what
    // a part says about the blocks it opens is what the whole says
    for i in all_instructions() {
        use push::instruction::{ExecInstruction as E, IntInstruction as I, PushInstruction as P};
        let part: Option<usize> = match &i {
            P::IntInstruction(I::Pop(x)) => Some(x.num_opens()),
            P::IntInstruction(I::Push(x)) => Some(x.num_opens()),
            P::IntInstruction(I::Dup(x)) => Some(x.num_opens()),
            P::IntInstruction(I::Swap(x)) => Some(x.num_opens()),
            P::IntInstruction(I::IsEmpty(x)) => Some(x.num_opens()),
            P::IntInstruction(I::StackDepth(x)) => Some(x.num_opens()),
            P::IntInstruction(I::Flush(x)) => Some(x.num_opens()),
            P::IntInstruction(I::Print(x)) => Some(x.num_opens()),
            P::IntInstruction(I::PrintLn(x)) => Some(x.num_opens()),
            P::Exec(E::Noop(x)) => Some(x.num_opens()),
            P::Exec(E::DupBlock(x)) => Some(x.num_opens()),
            P::Exec(E::When(x)) => Some(x.num_opens()),
            P::Exec(E::Unless(x)) => Some(x.num_opens()),
            P::Exec(E::IfElse(x)) => Some(x.num_opens()),
            P::Exec(E::Dup(x)) => Some(x.num_opens()),
            P::Exec(E::Swap(x)) => Some(x.num_opens()),
            P::Exec(E::Pop(x)) => Some(x.num_opens()),
            P::Exec(e @ E::Flush(_)) => Some(e.num_opens()),
            P::PrintSpace(x) => Some(x.num_opens()),
            P::PrintNewline(x) => Some(x.num_opens()),
            P::PrintPeriod(x) => Some(x.num_opens()),
            P::PrintString(x) => Some(x.num_opens()),
            _ => None,
        };
        if let Some(opens) = part {
            if opens != i.num_opens() {
                let mut j = instr_to_json(&i).unwrap_or(json!({"f": "unknown", "o": "unknown"}));
                j["o"] = json!(format!("{}(its own type)", j["o"].as_str().unwrap_or("")));
                out.line(&json!({"ins": j, "opens": opens, "whole": i.num_opens()}));
            }
        }
    }
    out.finish();
    0
}

// ------------------------------------------------------------------------------------------
// C03: long runs, scalars only (validated against TraceBounds_PushVM)

fn sizes_json(st: &PushState) -> (Value, Value) {
    use push::push_vm::HasStack;
    let sz = json!({
        "exec": st.stack::<PushProgram>().size(), "int": st.stack::<i64>().size(),
        "flt": st.stack::<OrderedFloat<f64>>().size(), "bool": st.stack::<bool>().size()});
    (sz, maxes_to_json(st))
}

fn long_program(rng: &mut SmallRng, pool: &[PushInstruction], family: u64) -> (Vec<PushProgram>, bool) {
    let item = |v: Value| item_from_json(&v);
    match family {
        // voluminous output: K print.string instructions of B bytes each (flat; B * min(L, K) bytes)
        6 => {
            let k = rng.random_range(1..=300usize);
            let b = [1usize, 100, 1000, 5000][rng.random_range(0..4)];
            let text: String = (0..b).map(|j| char::from(b'a' + (j % 26) as u8)).collect();
            ((0..k).map(|_| PushProgram::Instruction(PushInstruction::PrintString(push::instruction::printing::PrintString(text.clone())))).collect(), true)
        }
        // flat: every step removes exactly one exec item and adds none
        0 => {
            let k = rng.random_range(0..=3000usize);
            let cheap = [json!({"f": "exec", "o": "noop"}), json!({"f": "int", "o": "pop"}),
                         json!({"f": "bool", "o": "not"}), json!({"f": "int", "o": "add"}),
                         json!({"f": "flt", "o": "swap"}), json!({"f": "exec", "o": "unless"})];
            ((0..k).map(|_| item(cheap.choose(rng).expect("cheap").clone())).collect(), true)
        }
        // nested block duplication: exponential unfolding
        1 => {
            let depth = rng.random_range(1..=14);
            let mut p = vec![item(json!({"f": "int", "o": "push", "v": 1})), item(json!({"f": "int", "o": "dup"}))];
            for _ in 0..depth {
                p = vec![item(json!({"f": "exec", "o": "dup_block"})), PushProgram::Block(p)];
            }
            (p, false)
        }
        // self-replication: a block that re-creates itself via exec.dup
        2 => {
            let body = vec![item(json!({"f": "exec", "o": "dup"})), item(json!({"f": "int", "o": "push", "v": 1})),
                            item(json!({"f": "int", "o": "add"})), item(json!({"f": "exec", "o": "swap"}))];
            let n = rng.random_range(1..=6);
            let mut p = Vec::new();
            for _ in 0..n {
                p.push(item(json!({"f": "exec", "o": "dup"})));
                p.push(PushProgram::Block(body.clone()));
            }
            (p, false)
        }
        // extreme arithmetic in a duplicated block
        3 => {
            let ops = ["multiply", "power", "square", "add", "subtract", "protected_divide", "mod", "inc", "dec", "negate", "abs"];
            let mut body = vec![item(json!({"f": "int", "o": "dup"}))];
            for _ in 0..rng.random_range(1..=6) {
                body.push(item(json!({"f": "int", "o": ops.choose(rng).expect("ops")})));
                body.push(item(json!({"f": "int", "o": "dup"})));
            }
            let seedv = *INT_POOL.choose(rng).expect("pool");
            let mut p = vec![PushInstruction::push_int(seedv).into()];
            for _ in 0..rng.random_range(1..=8) {
                p.push(item(json!({"f": "exec", "o": "dup_block"})));
                p.push(PushProgram::Block(body.clone()));
            }
            (p, false)
        }
        // random programs, exec-heavy
        _ => {
            let n = rng.random_range(0..=120);
            let genes: Vec<PushGene> = (0..n)
                .map(|_| {
                    if rng.random_range(0..3) == 0 {
                        let e = ["dup_block", "dup", "swap", "when", "if_else", "unless", "stack_depth", "is_empty"];
                        PushGene::Instruction(instr_from_json(&json!({"f": "exec", "o": e.choose(rng).expect("e")})))
                    } else {
                        random_gene(rng, pool)
                    }
                })
                .collect();
            (Plushy::new(genes).into(), false)
        }
    }
}

/// COUNTED runs: `dup_block` nested d deep around [int.push 1, int.pop] evaluates in exactly
/// 5 * 2^d - 3 steps in constant space. With a step limit at or above that the run must finish
/// (exec and int empty); below it, it must stop with work left. Millions of steps: evaluation
/// depends on the program and its limits only, not on how long it takes.
pub fn counted_runs(args: &[String]) -> i32 {
    use std::io::Write;
    let path = arg_req(args, "--out");
    let depths: Vec<u64> = args.iter().position(|a| a == "--depths").map_or(vec![10, 16], |k| args[k + 1].split(',').filter_map(|x| x.parse().ok()).collect());
    let mut f = std::fs::File::create(path).expect("create");
    for (run, d) in depths.iter().enumerate() {
        let item = |v: Value| item_from_json(&v);
        let mut p = vec![item(json!({"f": "int", "o": "push", "v": 1})), item(json!({"f": "int", "o": "pop"}))];
        for _ in 0..*d {
            p = vec![item(json!({"f": "exec", "o": "dup_block"})), PushProgram::Block(p)];
        }
        let total: usize = 5 * (1usize << d) - 3;
        let limits = if *d >= 21 { vec![total - 1, total] } else { vec![0, total / 2, total - 1, total, total + 1, 3 * total] };
        for limit in limits {
            writeln!(f, "{}", json!({"ev": "begin", "run": run, "family": 5, "limit": limit, "k": 2, "exec_max": d + 8, "other_max": 3})).expect("w");
            f.flush().expect("flush");
            let prog = p.clone();
            let t0 = std::time::Instant::now();
            let r = guarded(|| {
                let mut st = PushState::builder().with_max_stack_size(3).with_no_program().with_instruction_step_limit(limit).build();
                {
                    use push::push_vm::HasStack;
                    let ex = st.stack_mut::<PushProgram>();
                    ex.set_max_stack_size(*d as usize + 8);
                    ex.push_many(prog).expect("program fits");
                }
                match st.run_to_completion() {
                    Ok(s) => ("ok", json!({"kind": "none", "stack": "none"}), sizes_json(&s)),
                    Err(fe) => {
                        let dbg = format!("{fe:?}");
                        let s = fe.into_state();
                        ("fatal", fatal_err_json(&dbg), sizes_json(&s))
                    }
                }
            });
            match r {
                Ok((status, err, (sizes, maxes))) => writeln!(f, "{}", json!({"ev": "bound", "run": run, "family": 5, "limit": limit,
                    "status": status, "err": err, "sizes": sizes, "max": maxes, "flat": false, "k": 2, "outbytes": 0, "prefix_ok": true,
                    "counted": true, "depth": d, "seconds": t0.elapsed().as_secs_f64()})).expect("w"),
                Err(m) => {
                    writeln!(f, "{}", json!({"ev": "panic", "run": run, "family": 5, "limit": limit, "msg": m})).expect("w");
                    break;
                }
            }
        }
    }
    0
}

/// Each run: one program, a ladder of step limits; before every real call a `begin` line is
/// flushed so that a hang can be attributed by the caller's watchdog.
pub fn long_runs(args: &[String]) -> i32 {
    use std::io::Write;
    let seed = arg_u64(args, "--seed", 0);
    let runs = arg_u64(args, "--runs", 10);
    let first = arg_u64(args, "--first-run", 0);
    let max_limit = arg_u64(args, "--max-limit", 10_000) as usize;
    let path = arg_req(args, "--out");
    let mut f = std::fs::File::create(path).expect("create");
    let pool = instruction_pool();
    for run in first..first + runs {
        let mut rng = run_rng(seed, 0xC03, run);
        let family = match rng.random_range(0..6u64) { 5 => 6, f => f };
        let (program, flat) = long_program(&mut rng, &pool, family);
        let k = program.len();
        let bytes_each = match program.first() {
            Some(PushProgram::Instruction(PushInstruction::PrintString(t))) if family == 6 => Some(t.0.len()),
            _ => None,
        };
        let exec_max = if flat { k } else { k.max(1) + [0usize, 1, 5, 50, 1000].choose(&mut rng).expect("m") };
        let other_max = *[0usize, 1, 2, 10, 100, 1000].choose(&mut rng).expect("m");
        let mut ladder: Vec<usize> = vec![0, 1, 2, k / 2, k.saturating_sub(1), k, k + 1, 10 * k + 7, max_limit / 10, max_limit];
        ladder.sort_unstable();
        ladder.dedup();
        ladder.retain(|l| *l <= max_limit);
        let mut prev_text: Option<String> = None;
        for limit in ladder {
            writeln!(f, "{}", json!({"ev": "begin", "run": run, "family": family, "limit": limit, "k": k,
                                     "exec_max": exec_max, "other_max": other_max})).expect("w");
            f.flush().expect("flush");
            let prog = program.clone();
            let r = guarded(|| {
                let st = PushState::builder()
                    .with_max_stack_size(other_max)
                    .with_no_program()
                    .with_instruction_step_limit(limit)
                    .with_int_input("x", 7)
                    .with_float_input("y", OrderedFloat(1.5))
                    .with_bool_input("b", true)
                    .with_int_input("X", -9)
                    .build();
                // exec gets its own maximum: the builder only offers one global size
                let mut st = st;
                {
                    use push::push_vm::HasStack;
                    let ex = st.stack_mut::<PushProgram>();
                    ex.set_max_stack_size(exec_max);
                    ex.push_many(prog).expect("program fits");
                }
                match st.run_to_completion() {
                    Ok(mut s) => ("ok", json!({"kind": "none", "stack": "none"}), sizes_json(&s), read_output(&mut s)),
                    Err(fe) => {
                        let dbg = format!("{fe:?}");
                        let mut s = fe.into_state();
                        ("fatal", fatal_err_json(&dbg), sizes_json(&s), read_output(&mut s))
                    }
                }
            });
            match r {
                Ok((status, err, (sizes, maxes), text)) => {
                    let prefix_ok = prev_text.as_ref().is_none_or(|p| text.starts_with(p.as_str()));
                    let mut ev = json!({"ev": "bound", "run": run, "family": family, "limit": limit,
                        "status": status, "err": err, "sizes": sizes, "max": maxes, "flat": flat, "k": k,
                        "outbytes": text.len(), "prefix_ok": prefix_ok});
                    if let Some(b) = bytes_each {
                        ev["bytes_each"] = json!(b);
                    }
                    writeln!(f, "{ev}").expect("w");
                    prev_text = Some(text);
                    if status == "fatal" {
                        // larger limits give the same abort; one more rung checks that
                    }
                }
                Err(m) => {
                    writeln!(f, "{}", json!({"ev": "panic", "run": run, "family": family, "limit": limit, "msg": m})).expect("w");
                    break;
                }
            }
        }
    }
    0
}
