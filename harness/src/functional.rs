//! C16: every operator / generator of the three crates is a function of (configuration,
//! arguments, generator state).  Observations (key, value) are validated by
//! spec/ec/Trace_Functional.tla: one key never has two values.

use std::num::NonZeroUsize;

use ec_core::{
    distributions::{collection::ConvertToCollectionGenerator, conversion::IntoDistribution},
    individual::ec::{EcIndividual, WithScorer},
    operator::{
        genome_extractor::GenomeExtractor,
        genome_scorer::GenomeScorer,
        mutator::{Mutate, Mutator},
        recombinator::{Recombinator, Recombine},
        selector::{
            best::Best, dyn_weighted::DynWeighted, lexicase::Lexicase, random::Random, tournament::Tournament,
            worst::Worst, Select, Selector,
        },
        Composable, Operator,
    },
    test_results::{Error, TestResults},
    weighted::{with_weighted_item::WithWeightedItem, Weighted},
};
use ec_linear::{
    genome::{bitstring::{Bitstring, BoolGenerator}, vector::Vector},
    mutator::{umad::Umad, with_one_over_length::WithOneOverLength, with_rate::WithRate},
    recombinator::{two_point_xo::TwoPointXo, uniform_xo::UniformXo},
};
use push::{
    genome::plushy::{ConvertToGeneGenerator, Plushy, PushGene},
    instruction::{IntInstruction, PushInstruction},
};
use rand::{distr::Distribution, rngs::{SmallRng, StdRng}, Rng, RngCore, SeedableRng};
use serde_json::{json, Value};

use crate::util::{arg_req, arg_u64, guarded, run_rng, Out};

type Ind = EcIndividual<Vec<bool>, TestResults<Error<i64>>>;
type Pop = Vec<Ind>;

fn population(argseed: u64) -> Pop {
    let mut r = SmallRng::seed_from_u64(argseed ^ 0xABCD);
    let n = 2 + (argseed % 7) as usize;
    (0..n)
        .map(|_| {
            let genome: Vec<bool> = (0..6).map(|_| r.random()).collect();
            let results: TestResults<Error<i64>> = (0..4).map(|_| r.random_range(0..3i64)).collect();
            EcIndividual::new(genome, results)
        })
        .collect()
}

fn bits(argseed: u64, salt: u64) -> Vec<bool> {
    let mut r = SmallRng::seed_from_u64(argseed ^ salt);
    (0..(3 + argseed % 9)).map(|_| r.random()).collect()
}

struct CountingRng<R> {
    inner: R,
    words: u64,
}
impl<R: RngCore> RngCore for CountingRng<R> {
    fn next_u32(&mut self) -> u32 {
        self.words += 1;
        self.inner.next_u32()
    }
    fn next_u64(&mut self) -> u64 {
        self.words += 1;
        self.inner.next_u64()
    }
    fn fill_bytes(&mut self, d: &mut [u8]) {
        self.words += 1;
        self.inner.fill_bytes(d);
    }
}

pub type Op = Box<dyn Fn(u64, &mut dyn RngCore) -> String + Send + Sync>;

/// a generator that parks its thread inside its first draw until it is released
struct Parked {
    gate: std::sync::Arc<(std::sync::Mutex<(bool, bool)>, std::sync::Condvar)>,
    inner: StdRng,
    done: bool,
}
impl Parked {
    fn park(&mut self) {
        if !self.done {
            self.done = true;
            let mut st = self.gate.0.lock().expect("gate");
            st.0 = true;
            self.gate.1.notify_all();
            let _ = self.gate.1.wait_timeout_while(st, std::time::Duration::from_secs(20), |st| !st.1).expect("gate");
        }
    }
}
impl RngCore for Parked {
    fn next_u32(&mut self) -> u32 {
        self.park();
        self.inner.next_u32()
    }
    fn next_u64(&mut self) -> u64 {
        self.park();
        self.inner.next_u64()
    }
    fn fill_bytes(&mut self, d: &mut [u8]) {
        self.park();
        self.inner.fill_bytes(d);
    }
}

fn dbg<T: std::fmt::Debug>(t: T) -> String {
    format!("{t:?}")
}

struct NewGene;
impl Distribution<PushGene> for NewGene {
    fn sample<R: Rng + ?Sized>(&self, rng: &mut R) -> PushGene {
        PushGene::Instruction(IntInstruction::push(rng.random_range(0..5)).into())
    }
}
struct NewBool;
impl Distribution<bool> for NewBool {
    fn sample<R: Rng + ?Sized>(&self, rng: &mut R) -> bool {
        rng.random()
    }
}

/// one operator value per entry; every call goes through the same value
pub fn ops() -> Vec<(&'static str, Op)> {
    let mut v: Vec<(&'static str, Op)> = Vec::new();
    macro_rules! sel {
        ($name:expr, $s:expr) => {{
            let s = $s;
            v.push(($name, Box::new(move |a, r| {
                let pop = population(a);
                dbg(s.select(&pop, r).map(|i| pop.iter().position(|p| std::ptr::eq(p, i))).map_err(|e| e.to_string()))
            })));
        }};
    }
    sel!("best", Best);
    sel!("worst", Worst);
    sel!("random", Random);
    sel!("tournament3", Tournament::new(NonZeroUsize::new(3).expect("3")));
    sel!("tournament_binary", Tournament::binary());
    sel!("lexicase", Lexicase::new(4));
    sel!("weighted_chain", Weighted::new(Best, 1).with_item_and_weight(Worst, 2).with_item_and_weight(Random, 3)
        .with_item_and_weight(Tournament::binary(), 2).expect("weights"));
    sel!("dyn_weighted", DynWeighted::new(Best, 1).with_selector(Lexicase::new(4), 3).with_selector(Random, 2));
    {
        // a lexicase selection that FAILED just before on the same thread (an empty population; a
        // population lacking results) leaves nothing behind: every second call is preceded by two
        let calls = std::sync::atomic::AtomicU64::new(0);
        let sel = Lexicase::new(4);
        v.push(("lexicase_after_failures", Box::new(move |a, r| {
            let pop = population(a);
            let n = calls.fetch_add(1, std::sync::atomic::Ordering::Relaxed);
            if n % 2 == 1 {
                let mut scratch = StdRng::seed_from_u64(n);
                let empty: Vec<_> = pop.iter().take(0).cloned().collect();
                let _ = Lexicase::new(5).select(&empty, &mut scratch);
                let _ = Lexicase::new(9).select(&pop, &mut scratch);
            }
            dbg(sel.select(&pop, r).map(|i| pop.iter().position(|p| std::ptr::eq(p, i))).map_err(|e| e.to_string()))
        })));
    }
    {
        // ... nor on what ANOTHER THREAD is doing with the same selector value at the same moment: on every second
        // call a second thread is parked INSIDE `select` of this very `Lexicase` (its generator blocks in its first
        // draw until the observed selection is over)
        let calls = std::sync::atomic::AtomicU64::new(0);
        let sel = Lexicase::new(4);
        v.push(("lexicase_while_another_thread_selects", Box::new(move |a, r| {
            let pop = population(a);
            let n = calls.fetch_add(1, std::sync::atomic::Ordering::Relaxed);
            if n % 2 == 0 {
                return dbg(sel.select(&pop, r).map(|i| pop.iter().position(|p| std::ptr::eq(p, i))).map_err(|e| e.to_string()));
            }
            let gate = std::sync::Arc::new((std::sync::Mutex::new((false, false)), std::sync::Condvar::new())); // (parked, released)
            std::thread::scope(|sc| {
                let (g2, sel2, pop2) = (gate.clone(), &sel, &pop);
                sc.spawn(move || {
                    let mut parked = Parked { gate: g2, inner: StdRng::seed_from_u64(n), done: false };
                    let _ = sel2.select(pop2, &mut parked);
                    // a selection that drew nothing never parked: say so, or the observer waits in vain
                    let mut st = parked.gate.0.lock().expect("gate");
                    st.0 = true;
                    parked.gate.1.notify_all();
                });
                {
                    let st = gate.0.lock().expect("gate");
                    let _ = gate.1.wait_timeout_while(st, std::time::Duration::from_secs(5), |st| !st.0).expect("gate");
                }
                let res = dbg(sel.select(&pop, r).map(|i| pop.iter().position(|p| std::ptr::eq(p, i))).map_err(|e| e.to_string()));
                let mut st = gate.0.lock().expect("gate");
                st.1 = true;
                gate.1.notify_all();
                drop(st);
                res
            })
        })));
    }
    {
        // the same weighted combination built afresh on every call, in turn all at once and piece by
        // piece with selections (from ANOTHER generator) in between: what it selects is a function of
        // its configuration, the population and the generator - not of how and when it was assembled
        let calls = std::sync::atomic::AtomicU64::new(0);
        v.push(("dyn_weighted_assembled", Box::new(move |a, r| {
            let pop = population(a);
            let n = calls.fetch_add(1, std::sync::atomic::Ordering::Relaxed);
            let s = if n % 2 == 0 {
                DynWeighted::new(Best, 1).with_selector(Lexicase::new(4), 3).with_selector(Random, 2)
            } else {
                let mut scratch = StdRng::seed_from_u64(n);
                let s = DynWeighted::new(Best, 1);
                let _ = s.select(&pop, &mut scratch);
                let s = s.with_selector(Lexicase::new(4), 3);
                let _ = s.select(&pop, &mut scratch);
                s.with_selector(Random, 2)
            };
            dbg(s.select(&pop, r).map(|i| pop.iter().position(|p| std::ptr::eq(p, i))).map_err(|e| e.to_string()))
        })));
    }
    {
        let op = Select::new(Tournament::binary()).then(GenomeExtractor).then(Mutate::new(WithRate::new(0.25)));
        v.push(("select_then_extract_then_mutate", Box::new(move |a, r| { let pop = population(a); dbg(op.apply(&pop, r).map_err(|e| e.to_string())) })));
    }
    {
        let op = Select::new(Lexicase::new(4)).apply_twice().then_map(GenomeExtractor).then(Recombine::new(UniformXo))
            .then(Mutate::new(WithOneOverLength));
        v.push(("select_twice_xo_mutate", Box::new(move |a, r| { let pop = population(a); dbg(op.apply(&pop, r).map_err(|e| e.to_string())) })));
    }
    {
        let op = Select::new(Random).and(Select::new(Best)).then_map(GenomeExtractor).then(Recombine::new(TwoPointXo));
        v.push(("and_then_two_point", Box::new(move |a, r| { let pop = population(a); dbg(op.apply(&pop, r).map_err(|e| e.to_string())) })));
    }
    #[cfg(feature = "optional_flavours")]
    {
        // (the population's members carry another result type than the scorer returns: any population
        // type is accepted)
        let op = GenomeScorer::new(Select::new(Random).then(GenomeExtractor).then(Mutate::new(WithRate::new(0.5))),
                                   ec_core::individual::scorer::FnScorer(|g: &Vec<bool>| g.iter().filter(|b| **b).count()));
        v.push(("genome_scorer_pipeline", Box::new(move |a, r| { let pop = population(a); dbg(op.apply(&pop, r).map(|i| (i.genome, i.test_results)).map_err(|e| e.to_string())) })));
    }
    v.push(("with_rate_vec", Box::new(|a, r| dbg(WithRate::new(0.3).mutate(bits(a, 1), r)))));
    {
        let m = WithRate::new(0.3);
        v.push(("with_rate_bitstring", Box::new(move |a, r| dbg(m.mutate(Bitstring { bits: bits(a, 1) }, r)))));
    }
    v.push(("one_over_length_vec", Box::new(|a, r| dbg(WithOneOverLength.mutate(bits(a, 2), r).map_err(|e| e.to_string())))));
    v.push(("one_over_length_bitstring", Box::new(|a, r| dbg(WithOneOverLength.mutate(Bitstring { bits: bits(a, 2) }, r).map_err(|e| e.to_string())))));
    {
        let u = Umad::new(0.3, 0.2, NewBool);
        v.push(("umad_vector", Box::new(move |a, r| { let p: Vector<bool> = bits(a, 3).into_iter().collect(); dbg(u.mutate(p, r).map(|c| c.genes)) })));
    }
    {
        let u = Umad::new_with_empty_rate(0.4, 0.9, 0.25, NewGene);
        v.push(("umad_plushy", Box::new(move |a, r| {
            let p = Plushy::new((0..a % 6).map(|k| PushGene::Instruction(IntInstruction::push(k as i64).into())));
            dbg(u.mutate(p, r).map(|c| c.get_genes()))
        })));
    }
    v.push(("two_point_vec_arr", Box::new(|a, r| dbg(TwoPointXo.recombine([bits(a, 4), bits(a, 5)], r).map_err(|e| e.to_string())))));
    v.push(("two_point_vec_tup", Box::new(|a, r| dbg(TwoPointXo.recombine((bits(a, 4), bits(a, 5)), r).map_err(|e| e.to_string())))));
    v.push(("two_point_bits", Box::new(|a, r| dbg(TwoPointXo.recombine([Bitstring { bits: bits(a, 4) }, Bitstring { bits: bits(a, 5) }], r).map_err(|e| e.to_string())))));
    v.push(("uniform_vec", Box::new(|a, r| dbg(UniformXo.recombine([bits(a, 4), bits(a, 5)], r).map_err(|e| e.to_string())))));
    v.push(("uniform_bits_tup", Box::new(|a, r| dbg(UniformXo.recombine((Bitstring { bits: bits(a, 4) }, Bitstring { bits: bits(a, 5) }), r).map_err(|e| e.to_string())))));
    v.push(("bitstring_random", Box::new(|a, r| dbg(Bitstring::random((a % 20) as usize, r)))));
    v.push(("bitstring_random_p", Box::new(|a, r| dbg(Bitstring::random_with_probability((a % 20) as usize, 0.3, r)))));
    v.push(("bool_generator", Box::new(|_, r| dbg(BoolGenerator::new(0.7).sample(r)))));
    v.push(("collection_generator", Box::new(|a, r| { let g: Vec<bool> = BoolGenerator::new(0.5).into_collection_generator((a % 13) as usize).sample(r); dbg(g) })));
    {
        let d = IntoDistribution::<i64>::into_distribution(vec![5i64, 6, 7, 8, 9]).expect("non-empty");
        v.push(("one_of_cloning", Box::new(move |_, r| dbg(d.sample(r)))));
    }
    v.push(("choose_cloning", Box::new(|_, r| { let src = [1i64, 2, 3]; let d = IntoDistribution::<i64>::into_distribution(&src).expect("ne"); dbg(d.sample(r)) })));
    v.push(("choose_ref", Box::new(|_, r| { let src = vec![1i64, 2, 3, 4]; let d = IntoDistribution::<&i64>::into_distribution(&src).expect("ne"); dbg(d.sample(r)) })));
    {
        let instrs: Vec<PushInstruction> = vec![IntInstruction::Add.into(), IntInstruction::Subtract.into(), IntInstruction::push(3).into()];
        let d = IntoDistribution::<PushInstruction>::into_distribution(instrs).expect("ne");
        let g = d.into_gene_generator();
        v.push(("gene_generator", Box::new(move |_, r| dbg(g.sample(r)))));
    }
    {
        let instrs: Vec<PushInstruction> = vec![IntInstruction::Add.into(), IntInstruction::Multiply.into()];
        let d = IntoDistribution::<PushInstruction>::into_distribution(instrs).expect("ne");
        v.push(("plushy_generator", Box::new(move |a, r| {
            let p: Plushy = d.to_gene_generator_with_close_probability(0.25).into_collection_generator((a % 11) as usize).sample(r);
            dbg(p.get_genes())
        })));
    }
    v.push(("individual_generator", Box::new(|a, r| {
        let g = BoolGenerator::new(0.5).into_collection_generator((a % 9) as usize).with_scorer_fn(|g: &Vec<bool>| g.len());
        let i: EcIndividual<Vec<bool>, usize> = g.sample(r);
        dbg((i.genome, i.test_results))
    })));
    v
}

fn observe(op: &Op, argseed: u64, kind: &str, seed: u64) -> Value {
    let r = guarded(|| {
        if kind == "small" {
            let mut rng = CountingRng { inner: SmallRng::seed_from_u64(seed), words: 0 };
            let d = op(argseed, &mut rng);
            json!({"result": d, "words": rng.words, "next": format!("{:016x}", rng.inner.next_u64())})
        } else {
            let mut rng = CountingRng { inner: StdRng::seed_from_u64(seed), words: 0 };
            let d = op(argseed, &mut rng);
            json!({"result": d, "words": rng.words, "next": format!("{:016x}", rng.inner.next_u64())})
        }
    });
    r.unwrap_or_else(|m| json!({"result": format!("panic: {m}"), "words": 0, "next": ""}))
}

pub fn trace(args: &[String]) -> i32 {
    let seed = arg_u64(args, "--seed", 0);
    let seeds = arg_u64(args, "--seeds", 20);
    let mut out = Out::create(arg_req(args, "--out"));
    let all = ops();
    for (oi, (name, op)) in all.iter().enumerate() {
        out.line(&json!({"ev": "reset", "run": oi, "op": name}));
        let mut pick = run_rng(seed, 0xC16, oi as u64);
        let keys: Vec<(u64, &str, u64)> = (0..seeds)
            .map(|k| (pick.random_range(0..50), if k % 2 == 0 { "small" } else { "std" }, pick.random::<u64>() >> 12))
            .collect();
        let mut emit = |out: &mut Out, k: &(u64, &str, u64), phase: &str, val: Value| {
            out.line(&json!({"ev": "obs", "run": oi, "op": name, "phase": phase,
                             "key": format!("{name}|args{}|{}|seed{}", k.0, k.1, k.2), "val": val}));
        };
        // first pass, then the same keys again in a different order (interleaved history on
        // the one operator value), then once more from another thread
        for k in &keys {
            emit(&mut out, k, "first", observe(op, k.0, k.1, k.2));
            emit(&mut out, k, "repeat", observe(op, k.0, k.1, k.2));
        }
        for k in keys.iter().rev() {
            emit(&mut out, k, "interleaved", observe(op, k.0, k.1, k.2));
        }
        let vals: Vec<Value> = std::thread::scope(|s| {
            s.spawn(|| keys.iter().map(|k| observe(op, k.0, k.1, k.2)).collect()).join().expect("thread")
        });
        for (k, v) in keys.iter().zip(vals) {
            emit(&mut out, k, "other_thread", v);
        }
    }
    out.finish();
    0
}

/// Push half of C16: a program run is a function of program, input values and limits - not of
/// the order in which inputs were declared nor of the hash map instance holding them.
pub fn push_trace(args: &[String]) -> i32 {
    use crate::proj::{build_state_ordered_decoy, stacks_to_json};
    use push::push_vm::State;
    use push::error::into_state::IntoState;
    let seed = arg_u64(args, "--seed", 0);
    let runs = arg_u64(args, "--runs", 100);
    let first = arg_u64(args, "--first-run", 0);
    let mut out = Out::create(arg_req(args, "--out"));
    let pool = crate::vm::instruction_pool();
    for run in first..first + runs {
        let mut rng = run_rng(seed, 0xC16B, run);
        let (sv, max, inputs, limit) = crate::vm::random_config(&mut rng, &pool);
        out.line(&json!({"ev": "reset", "run": run, "op": "push"}));
        // every way of declaring the SAME bindings (another order, a name bound to something else
        // first) evaluates alike. (Whether two such states also compare `==` BEFORE evaluation is not
        // demanded: the property speaks about evaluation.)
        for rotation in 0..6 {
            let val = guarded(|| {
                let st = build_state_ordered_decoy(&sv, &max, &inputs, limit, rotation, rotation % 2 == 1).expect("state");
                let o = match st.run_to_completion() {
                    Ok(mut s) => json!({"status": "ok", "stacks": format!("{:?}", (crate::vm::read_output(&mut s), stacks_to_json(&s).map(|v| v.to_string())))}),
                    Err(fe) => {
                        let mut s = fe.into_state();
                        json!({"status": "fatal", "stacks": format!("{:?}", (crate::vm::read_output(&mut s), stacks_to_json(&s).map(|v| v.to_string())))})
                    }
                };
                o
            })
            .unwrap_or_else(|m| json!({"status": "panic", "stacks": m}));
            out.line(&json!({"ev": "obs", "run": run, "op": "push", "phase": format!("declaration_order_{rotation}"),
                             "key": format!("push|run{run}"), "val": val}));
        }
    }
    // a finished state given more code and run again evaluates like the same state built afresh (the
    // step limit bounds each evaluation; nothing is carried from one evaluation to the next)
    for run in first..first + runs {
        let mut rng = run_rng(seed, 0xC16B, run);
        let (sv, max, inputs, limit) = crate::vm::random_config(&mut rng, &pool);
        let diff = crate::vm::continue_with_more_code(&sv, &max, &inputs, limit.max(2));
        out.line(&json!({"ev": "reset", "run": format!("more{run}"), "op": "push-more-code"}));
        for (phase, val) in [("built afresh", json!({"status": "same", "stacks": ""})),
                             ("finished state run again", json!({"status": if diff.is_some() { "differs" } else { "same" }, "stacks": diff.clone().unwrap_or_default()}))] {
            out.line(&json!({"ev": "obs", "run": format!("more{run}"), "op": "push-more-code", "phase": phase,
                             "key": format!("push-more-code|run{run}"), "val": val}));
        }
    }
    // a program that mentions a name NO input was declared under, while other inputs differ from it
    // only in letter case: whatever happens (the documented panic) happens every time, on every
    // freshly built state - it cannot depend on how a hash map happens to be ordered
    for run in first..(first + runs).min(first + 12) {
        let mut rng = run_rng(seed, 0xC16C, run);
        let base = ["qq", "total", "in1"][rng.random_range(0..3)];
        let mention: String = base.chars().enumerate().map(|(k, c)| if k == 0 { c.to_ascii_uppercase() } else { c }).collect();
        out.line(&json!({"ev": "reset", "run": format!("unbound{run}"), "op": "push-unbound"}));
        for fresh in 0..8 {
            let val = guarded(|| {
                let st = push::push_vm::push_state::PushState::builder()
                    .with_max_stack_size(10)
                    .with_program([push::push_vm::program::PushProgram::Instruction(push::instruction::PushInstruction::InputVar(
                        push::instruction::variable_name::VariableName::from(mention.as_str())))])
                    .expect("fits")
                    .with_instruction_step_limit(10)
                    .with_int_input(base, 301)
                    .with_int_input(&base.to_ascii_uppercase(), 320)
                    .build();
                match st.run_to_completion() {
                    Ok(s) => json!({"status": "ok", "stacks": format!("{:?}", stacks_to_json(&s).map(|v| v.to_string()))}),
                    Err(fe) => json!({"status": "fatal", "stacks": format!("{:?}", stacks_to_json(&fe.into_state()).map(|v| v.to_string()))}),
                }
            })
            .unwrap_or_else(|m| json!({"status": "panic", "stacks": m}));
            out.line(&json!({"ev": "obs", "run": format!("unbound{run}"), "op": "push-unbound", "phase": format!("fresh_state_{fresh}"),
                             "key": format!("push-unbound|{mention}|run{run}"), "val": val}));
        }
    }
    out.finish();
    0
}
