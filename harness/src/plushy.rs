//! C05: `Vec<PushProgram>::from(Plushy)` against spec/plushy/Plushy.tla.

use ordered_float::OrderedFloat;
use push::{
    genome::plushy::{Plushy, PushGene},
    instruction::{
        printing::PrintString, variable_name::VariableName, ExecInstruction, FloatInstruction,
        IntInstruction, PushInstruction,
    },
    push_vm::program::PushProgram,
};
use rand::Rng;
use serde_json::{json, Value};

use crate::util::{arg_req, arg_u64, arr, guarded, read_ndjson, run_rng, u, Out};

/// Spec gene -> real gene.  Instructions that open no block carry their tag in a payload so
/// that they can be told apart afterwards; the three one-block instructions encode tag mod 3.
/// Look-alike genes: input variables (instructions that open no block) whose NAME is the printed
/// form of another gene - the close marker and the four block openers with their braces. A genome
/// made of them prints exactly like its twin and is a different genome.
const LOOKALIKE: [u64; 5] = [7003, 7007, 7011, 7015, 7019];
fn lookalike_name(t: u64) -> String {
    let opener = |e: ExecInstruction, k: usize| format!("{}{}", PushInstruction::from(e), " {".repeat(k));
    match t {
        7003 => "}".to_string(),
        7007 => opener(ExecInstruction::dup_block(), 1),
        7011 => opener(ExecInstruction::when(), 1),
        7015 => opener(ExecInstruction::unless(), 1),
        _ => opener(ExecInstruction::if_else(), 2),
    }
}

fn gene_from_json(g: &Value) -> PushGene {
    if g.get("c").is_some() {
        return PushGene::Close;
    }
    let t = u(&g["t"]);
    if u(&g["o"]) == 0 && LOOKALIKE.contains(&t) {
        return PushGene::Instruction(VariableName::from(lookalike_name(t).as_str()).into());
    }
    let ins: PushInstruction = match u(&g["o"]) {
        0 => match t % 4 {
            0 => IntInstruction::push(t as i64).into(),
            1 => PushInstruction::PrintString(PrintString(t.to_string())),
            2 => FloatInstruction::push(t as f64).into(),
            _ => VariableName::from(format!("v{t}").as_str()).into(),
        },
        1 => match t % 3 {
            0 => ExecInstruction::dup_block(),
            1 => ExecInstruction::when(),
            _ => ExecInstruction::unless(),
        }
        .into(),
        2 => ExecInstruction::if_else().into(),
        other => {
            eprintln!("gene opening {other} blocks");
            std::process::exit(2)
        }
    };
    PushGene::Instruction(ins)
}

/// Real instruction -> the spec gene it was made from (`None`: not one of ours).
fn gene_to_json(i: &PushInstruction) -> Value {
    let g = |o: u64, t: u64| json!({"o": o, "t": t});
    match i {
        PushInstruction::IntInstruction(IntInstruction::Push(p)) => g(0, p.0 as u64),
        PushInstruction::PrintString(PrintString(s)) => g(0, s.parse().unwrap_or(u64::MAX)),
        PushInstruction::FloatInstruction(FloatInstruction::Push(p)) => {
            let OrderedFloat(x) = p.0;
            g(0, x as u64)
        }
        PushInstruction::InputVar(n) => {
            let name = n.to_string();
            LOOKALIKE.iter().find(|t| lookalike_name(**t) == name).map_or_else(|| g(0, name.get(1..).and_then(|x| x.parse().ok()).unwrap_or(u64::MAX)), |t| g(0, *t))
        }
        PushInstruction::Exec(ExecInstruction::DupBlock(_)) => g(1, 0),
        PushInstruction::Exec(ExecInstruction::When(_)) => g(1, 1),
        PushInstruction::Exec(ExecInstruction::Unless(_)) => g(1, 2),
        PushInstruction::Exec(ExecInstruction::IfElse(_)) => g(2, 0),
        _ => json!({"o": 99, "t": 0}),
    }
}

fn prog_to_json(p: &[PushProgram]) -> Value {
    Value::Array(
        p.iter()
            .map(|item| match item {
                PushProgram::Instruction(i) => json!({"i": gene_to_json(i)}),
                PushProgram::Block(b) => json!({"b": prog_to_json(b)}),
            })
            .collect(),
    )
}

/// the program as a flat token sequence (instructions, {"br":1} / {"br":0} around each block)
fn prog_tokens(p: &[PushProgram], out: &mut Vec<Value>) {
    for item in p {
        match item {
            PushProgram::Instruction(i) => out.push(json!({"i": gene_to_json(i)})),
            PushProgram::Block(b) => {
                out.push(json!({"br": 1}));
                prog_tokens(b, out);
                out.push(json!({"br": 0}));
            }
        }
    }
}

fn translate_flat(genes: &Value) -> Value {
    let real: Vec<PushGene> = arr(genes).iter().map(gene_from_json).collect();
    match guarded(|| {
        let plushy: Plushy = real.into_iter().collect();
        let prog: Vec<PushProgram> = plushy.into();
        let mut t = Vec::new();
        prog_tokens(&prog, &mut t);
        Value::Array(t)
    }) {
        Ok(v) => v,
        Err(m) => json!([{"panic": m}]),
    }
}

fn translate(genes: &Value) -> Value {
    let real: Vec<PushGene> = arr(genes).iter().map(gene_from_json).collect();
    match guarded(|| {
        let plushy: Plushy = real.into_iter().collect();
        let prog: Vec<PushProgram> = plushy.into();
        prog_to_json(&prog)
    }) {
        Ok(v) => v,
        Err(m) => json!({"panic": m}),
    }
}

/// spec -> impl: every genome TLC explored.
/// `v`, or a note of its depth when it is nested deeper than `limit` JSON levels (readers of the
/// output recurse; a correct translation of the genomes used here stays far below the limits)
fn shallow(v: Value, limit: i64) -> Value {
    let text = v.to_string();
    let depth = text.bytes().fold((0i64, 0i64), |(d, m), b| match b { b'[' | b'{' => (d + 1, m.max(d + 1)), b']' | b'}' => (d - 1, m), _ => (d, m) }).1;
    if depth > limit { json!({"nested_too_deep_to_print": depth, "bytes": text.len()}) } else { v }
}

pub fn replay(args: &[String]) -> i32 {
    let cases = read_ndjson(arg_req(args, "--cases"));
    let mut out = Out::create(arg_req(args, "--out"));
    let (mut n, mut bad) = (0u64, 0u64);
    for case in &cases {
        n += 1;
        let observed = translate(&case["genes"]);
        if observed != case["prog"] {
            bad += 1;
            // a wrong translation can be nested arbitrarily deep: report its depth instead of the tree
            let observed = shallow(observed, 120);
            out.line(&json!({"kind": "mismatch", "case": case, "observed": observed}));
            // enough said: a translation that carries state from genome to genome gets slower and slower
            if bad >= 40 {
                break;
            }
        }
    }
    out.line(&json!({"kind": "summary", "cases": n, "mismatches": bad}));
    out.finish();
    0
}

/// impl -> spec: long random genomes; the close probability sweeps 0..0.6 so that deep
/// nesting, long runs of closes and trailing opens all occur.
pub fn trace(args: &[String]) -> i32 {
    let seed = arg_u64(args, "--seed", 0);
    let runs = arg_u64(args, "--runs", 10);
    let first = arg_u64(args, "--first-run", 0);
    let maxlen = arg_u64(args, "--maxlen", 200);
    let long = arg_u64(args, "--long", u64::MAX / 400); // at most this many LONG genomes (one per 200 runs)
    let mut out = Out::create(arg_req(args, "--out"));
    for run in first..first + runs {
        let mut rng = run_rng(seed, 0xC05, run);
        if run % 40 == 3 {
            // DEEP nesting: k block openers in a row (every opened block still open), then a few
            // instructions and closes - depths around 256 / 1024 and beyond
            let k = [255usize, 256, 257, 300, 511, 513, 1025][rng.random_range(0..7)];
            let mut genes: Vec<Value> = (1..=k).map(|pos| if rng.random_range(0..4) == 0 { json!({"o": 2, "t": 0}) } else { json!({"o": 1, "t": pos % 3}) }).collect();
            for pos in 0..rng.random_range(1..=6usize) {
                genes.push(json!({"o": 0, "t": 5000 + pos}));
                if rng.random() {
                    genes.push(json!({"c": true}));
                }
            }
            let genes = Value::Array(genes);
            let tokens = translate_flat(&genes);
            out.line(&json!({"ev": "parse_flat", "run": run, "genes": genes, "tokens": tokens}));
            continue;
        }
        if long > 0 && run % 200 == 7 && run < 200 * long {
            // LONG genomes (beyond 2^14 genes; every few thousand genes a block opener, some of them never
            // closed, the last one opened a few genes before the end), compared as token sequences
            let n = [16_385usize, 20_011, 65_537][(run / 200 % 3) as usize];
            let mut genes: Vec<Value> = Vec::with_capacity(n);
            for pos in 0..n {
                let r = rng.random_range(0..4000u32);
                genes.push(if pos + 3 == n { json!({"o": 2, "t": 0}) }
                           else if r == 0 { json!({"o": 2, "t": 0}) }
                           else if r == 1 { json!({"o": 1, "t": pos % 3}) }
                           else if r < 4 { json!({"c": true}) }
                           else { json!({"o": 0, "t": pos % 1000}) });
            }
            let genes = Value::Array(genes);
            let tokens = translate_flat(&genes);
            out.line(&json!({"ev": "parse_long", "run": run, "genes": genes, "tokens": tokens}));
            continue;
        }
        let len = rng.random_range(0..=maxlen);
        let pclose = f64::from(rng.random_range(0..=60u32)) / 100.0;
        let p2 = f64::from(rng.random_range(0..=40u32)) / 100.0;
        let genes: Vec<Value> = (1..=len)
            .map(|pos| {
                let r: f64 = rng.random();
                if r < pclose {
                    json!({"c": true})
                } else if r < pclose + (1.0 - pclose) * p2 {
                    if rng.random_range(0..3) == 0 {
                        json!({"o": 2, "t": 0})
                    } else {
                        json!({"o": 1, "t": pos % 3})
                    }
                } else {
                    json!({"o": 0, "t": pos})
                }
            })
            .collect();
        let genes = Value::Array(genes);
        let prog = shallow(translate(&genes), 700);
        out.line(&json!({"ev": "parse", "run": run, "genes": genes, "prog": prog}));
        if run % 5 == 2 {
            // the TWIN: every close marker and block opener replaced by its look-alike (prints the same,
            // opens and closes nothing), translated right after the original
            let twin: Vec<Value> = arr(&genes)
                .iter()
                .map(|g| {
                    if g.get("c").is_some() {
                        json!({"o": 0, "t": 7003})
                    } else if u(&g["o"]) == 1 {
                        let t = [7007u64, 7011, 7015][(u(&g["t"]) % 3) as usize];
                        json!({"o": 0, "t": t})
                    } else if u(&g["o"]) == 2 {
                        json!({"o": 0, "t": 7019})
                    } else {
                        g.clone()
                    }
                })
                .collect();
            let twin = Value::Array(twin);
            let prog = shallow(translate(&twin), 700);
            out.line(&json!({"ev": "parse", "run": run, "genes": twin, "prog": prog}));
        }
        // the printed form (Display of Plushy): tokens "i" / "{" / "}" separated by single spaces
        if run % 4 == 0 {
            let real: Vec<PushGene> = arr(&genes).iter().map(gene_from_json).collect();
            let own: Vec<String> = real.iter().filter_map(|g| match g { PushGene::Instruction(i) => Some(i.to_string()), PushGene::Close => None }).collect();
            if own.iter().all(|t| !t.contains(' ') && t != "{" && t != "}") {
                let plushy: Plushy = real.into_iter().collect();
                let text = plushy.to_string();
                let tokens: Vec<&str> = if text.is_empty() { vec![] } else {
                    text.split(' ').map(|w| match w { "{" => "{", "}" => "}", "" => "double-space", _ => "i" }).collect()
                };
                out.line(&json!({"ev": "render", "run": run, "genes": genes, "tokens": tokens}));
            }
        }
    }
    out.finish();
    0
}
