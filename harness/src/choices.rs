//! C18: uniform member choices (every conversion flavour) and collection generators against
//! spec/ec/Choices.tla.

use std::cell::Cell;

use ec_core::{
    distributions::{
        choices::ChoicesDistribution,
        collection::{ConvertToCollectionGenerator, Generator},
        conversion::{IntoDistribution, ToDistribution},
        wrappers::{choose_cloning::ChooseCloning, owned::OneOfCloning},
    },
    individual::ec::{EcIndividual, WithScorer},
    uniform_distribution_of,
};
use ec_linear::genome::bitstring::Bitstring;
use push::{
    genome::plushy::{Plushy, PushGene},
    instruction::{printing::PrintString, PushInstruction},
};
use rand::{distr::Distribution, rngs::SmallRng, Rng};
use serde_json::{json, Value};

use crate::util::{arg_req, arg_u64, arr, guarded, i, read_ndjson, run_rng, s, u, Out};

#[derive(Clone, Debug, PartialEq)]
pub struct El {
    v: i64,
    tag: usize,
}

pub const FLAVOURS: [&str; 17] = [
    "vec_into_owned", "vecref_into_ref", "vecref_into_clone", "vec_to_clone", "vec_to_ref",
    "arr_into_owned", "arrref_into_ref", "arrref_into_clone", "arr_to_clone", "arr_to_ref",
    "slice_into_ref", "slice_into_clone", "slice_to_ref", "slice_to_clone",
    "one_of_cloning_new", "choose_cloning_new", "macro",
];

/// (number of choices by value / & / &mut, or None if building failed; samples as (idx, val))
type Probe = (Option<[usize; 3]>, Vec<(usize, i64)>);

fn by_clone<D: Distribution<El> + ChoicesDistribution>(d: Result<D, impl Sized>, reps: usize, rng: &mut SmallRng) -> Probe {
    match d {
        Err(_) => (None, vec![]),
        Ok(mut d) => {
            let n = [d.num_choices().get(), (&d).num_choices().get(), (&mut d).num_choices().get()];
            (Some(n), (0..reps).map(|_| { let e = d.sample(rng); (e.tag, e.v) }).collect())
        }
    }
}

fn by_ref<'a, D: Distribution<&'a El> + ChoicesDistribution>(d: Result<D, impl Sized>, src: &'a [El], reps: usize, rng: &mut SmallRng) -> Probe {
    match d {
        Err(_) => (None, vec![]),
        Ok(mut d) => {
            let n = [d.num_choices().get(), (&d).num_choices().get(), (&mut d).num_choices().get()];
            let samples = (0..reps)
                .map(|_| {
                    let e: &El = d.sample(rng);
                    // "that very member": located by address in the source collection
                    let idx = src.iter().position(|x| std::ptr::eq(x, e)).map_or(0, |p| p + 1);
                    (idx, e.v)
                })
                .collect();
            (Some(n), samples)
        }
    }
}

macro_rules! with_array {
    ($src:expr, $arr:ident => $body:expr) => {{
        match $src.len() {
            #[cfg(feature = "optional_flavours")]
            0 => { let $arr: [El; 0] = []; $body }
            1 => { let $arr: [El; 1] = [$src[0].clone()]; $body }
            2 => { let $arr: [El; 2] = [$src[0].clone(), $src[1].clone()]; $body }
            3 => { let $arr: [El; 3] = [$src[0].clone(), $src[1].clone(), $src[2].clone()]; $body }
            4 => { let $arr: [El; 4] = std::array::from_fn(|k| $src[k].clone()); $body }
            5 => { let $arr: [El; 5] = std::array::from_fn(|k| $src[k].clone()); $body }
            6 => { let $arr: [El; 6] = std::array::from_fn(|k| $src[k].clone()); $body }
            7 => { let $arr: [El; 7] = std::array::from_fn(|k| $src[k].clone()); $body }
            _ => return None,
        }
    }};
}

/// Build the distribution in the given flavour from `src` and sample it.  `None`: the flavour
/// does not exist for this length.
pub fn probe(flavour: &str, src: &[El], reps: usize, rng: &mut SmallRng) -> Option<Probe> {
    let v: Vec<El> = src.to_vec();
    Some(match flavour {
        "vec_into_owned" => by_clone(IntoDistribution::<El>::into_distribution(v), reps, rng),
        "vecref_into_ref" => by_ref(IntoDistribution::<&El>::into_distribution(&v), &v, reps, rng),
        "vecref_into_clone" => by_clone(IntoDistribution::<El>::into_distribution(&v), reps, rng),
        "vec_to_clone" => by_clone(ToDistribution::<El>::to_distribution(&v), reps, rng),
        "vec_to_ref" => by_ref(ToDistribution::<&El>::to_distribution(&v), &v, reps, rng),
        "arr_into_owned" => with_array!(src, a => by_clone(IntoDistribution::<El>::into_distribution(a), reps, rng)),
        "arrref_into_ref" => with_array!(src, a => by_ref(IntoDistribution::<&El>::into_distribution(&a), &a, reps, rng)),
        "arrref_into_clone" => with_array!(src, a => by_clone(IntoDistribution::<El>::into_distribution(&a), reps, rng)),
        "arr_to_clone" => with_array!(src, a => by_clone(ToDistribution::<El>::to_distribution(&a), reps, rng)),
        "arr_to_ref" => with_array!(src, a => by_ref(ToDistribution::<&El>::to_distribution(&a), &a, reps, rng)),
        "slice_into_ref" => by_ref(IntoDistribution::<&El>::into_distribution(&v[..]), &v, reps, rng),
        "slice_into_clone" => by_clone(IntoDistribution::<El>::into_distribution(&v[..]), reps, rng),
        "slice_to_ref" => by_ref(ToDistribution::<&El>::to_distribution(&v[..]), &v, reps, rng),
        "slice_to_clone" => by_clone(ToDistribution::<El>::to_distribution(&v[..]), reps, rng),
        "one_of_cloning_new" => by_clone(OneOfCloning::<Vec<El>, El>::new(v), reps, rng),
        "choose_cloning_new" => by_clone(ChooseCloning::new(&v[..]), reps, rng),
        "macro" => match src.len() {
            // the macro takes a literal, non-empty list
            1 => by_clone(Ok::<_, ()>(uniform_distribution_of![src[0].clone()]), reps, rng),
            2 => by_clone(Ok::<_, ()>(uniform_distribution_of![src[0].clone(), src[1].clone()]), reps, rng),
            3 => by_clone(Ok::<_, ()>(uniform_distribution_of![<El> src[0].clone(), src[1].clone(), src[2].clone()]), reps, rng),
            4 => by_clone(Ok::<_, ()>(uniform_distribution_of![src[0].clone(), src[1].clone(), src[2].clone(), src[3].clone()]), reps, rng),
            _ => return None,
        },
        other => {
            eprintln!("unknown flavour {other}");
            std::process::exit(2)
        }
    })
}

fn elems(coll: &Value) -> Vec<El> {
    arr(coll).iter().enumerate().map(|(k, v)| El { v: i(v), tag: k + 1 }).collect()
}

/// counting element generator: 101, 102, 103, ...
struct Counter(Cell<i64>);
impl Distribution<i64> for Counter {
    fn sample<R: Rng + ?Sized>(&self, _: &mut R) -> i64 {
        self.0.set(self.0.get() + 1);
        100 + self.0.get()
    }
}
impl Distribution<bool> for Counter {
    fn sample<R: Rng + ?Sized>(&self, rng: &mut R) -> bool {
        let v: i64 = self.sample(rng);
        v % 3 == 0 // a recognisable pattern over the stream positions
    }
}
impl Distribution<PushGene> for Counter {
    fn sample<R: Rng + ?Sized>(&self, rng: &mut R) -> PushGene {
        let v: i64 = self.sample(rng);
        PushGene::Instruction(PushInstruction::PrintString(PrintString(v.to_string())))
    }
}

fn plushy_vals(p: &Plushy) -> Vec<i64> {
    p.get_genes().iter().map(|g| match g {
        PushGene::Instruction(PushInstruction::PrintString(PrintString(t))) => t.parse().unwrap_or(-1),
        _ => -1,
    }).collect()
}

pub const COLLECTORS: [&str; 6] = ["vec_new", "vec_into", "vec_to", "bitstring", "plushy", "nested_population"];

/// two consecutive collections of sizes (size, then) from one counting element generator
fn collect(kind: &str, size: usize, then: usize, rng: &mut SmallRng) -> Value {
    let c = Counter(Cell::new(0));
    let bits = |b: &Bitstring| -> Vec<bool> { b.bits.clone() };
    match kind {
        "vec_new" => {
            let a: Vec<i64> = Generator::new(&c, size).sample(rng);
            let b: Vec<i64> = Generator::new(&c, then).sample(rng);
            json!({"first": a, "second": b, "drawn": c.0.get()})
        }
        "vec_into" => {
            let a: Vec<i64> = (&c).into_collection_generator(size).sample(rng);
            let b: Vec<i64> = (&c).into_collection_generator(then).sample(rng);
            json!({"first": a, "second": b, "drawn": c.0.get()})
        }
        "vec_to" => {
            let a: Vec<i64> = c.to_collection_generator(size).sample(rng);
            let b: Vec<i64> = c.to_collection_generator(then).sample(rng);
            json!({"first": a, "second": b, "drawn": c.0.get()})
        }
        "bitstring" => {
            // bits follow the stream pattern; report the stream values they stand for
            let a: Bitstring = c.to_collection_generator(size).sample(rng);
            let b: Bitstring = c.to_collection_generator(then).sample(rng);
            let decode = |bs: Vec<bool>, from: i64| -> Vec<i64> {
                bs.iter().enumerate().map(|(k, bit)| {
                    let v = 100 + from + k as i64 + 1;
                    if *bit == (v % 3 == 0) { v } else { -1 }
                }).collect()
            };
            let (la, lb) = (bits(&a), bits(&b));
            let na = la.len() as i64;
            json!({"first": decode(la, 0), "second": decode(lb, na), "drawn": c.0.get()})
        }
        "plushy" => {
            let a: Plushy = c.to_collection_generator(size).sample(rng);
            let b: Plushy = c.to_collection_generator(then).sample(rng);
            json!({"first": plushy_vals(&a), "second": plushy_vals(&b), "drawn": c.0.get()})
        }
        _ => {
            // a population of `size` individuals whose genomes have `then` genes each: flattened,
            // it must be the first size*then stream elements, and the scorer sees each genome once
            let genome_gen = c.to_collection_generator(then);
            let ind_gen = genome_gen.with_scorer_fn(|g: &Vec<i64>| g.len());
            let pop: Vec<EcIndividual<Vec<i64>, usize>> = ind_gen.into_collection_generator(size).sample(rng);
            let shape_ok = pop.len() == size && pop.iter().all(|ind| ind.genome.len() == then && ind.test_results == then);
            let flat: Vec<i64> = pop.iter().flat_map(|ind| ind.genome.clone()).collect();
            json!({"nested": true, "shape_ok": shape_ok, "flat": flat, "drawn": c.0.get()})
        }
    }
}

pub fn replay(args: &[String]) -> i32 {
    let cases = read_ndjson(arg_req(args, "--cases"));
    let reps = arg_u64(args, "--reps", 30) as usize;
    let mut out = Out::create(arg_req(args, "--out"));
    let (mut n, mut bad) = (0u64, 0u64);
    for (ci, c) in cases.iter().enumerate() {
        let case = &c["case"];
        let mut rng = run_rng(0, 0xC18, ci as u64);
        if case["op"] == "choice" {
            let src = elems(&case["coll"]);
            for fl in FLAVOURS {
                let (nums, samples) = match guarded(|| probe(fl, &src, reps, &mut rng)) {
                    Ok(Some(p)) => p,
                    // the flavour does not exist for this length (macro: literal lists; arrays: up to 7
                    // members, and zero-length ones live in the target `vh-empty`)
                    Ok(None) => continue,
                    Err(m) => {
                        n += 1; bad += 1;
                        out.line(&json!({"kind": "mismatch", "case": c, "flavour": fl, "observed": {"panic": m}}));
                        continue;
                    }
                };
                n += 1;
                let allowed = arr(&c["allowed"]);
                let obs: Vec<Value> = match nums {
                    None => vec![json!({"b": {"k": "empty_slice"}, "s": {"idx": 0, "val": 0}})],
                    Some(ns) => {
                        let mut v: Vec<Value> = samples.iter().map(|(idx, val)| json!({"b": {"k": "ok", "n": ns[0]}, "s": {"idx": idx, "val": val}})).collect();
                        if ns[1] != ns[0] || ns[2] != ns[0] {
                            v.push(json!({"b": {"k": "num_choices_disagree", "n": ns}, "s": {"idx": 0, "val": 0}}));
                        }
                        v
                    }
                };
                if let Some(ob) = obs.iter().find(|ob| !allowed.iter().any(|a| a == *ob)) {
                    bad += 1;
                    out.line(&json!({"kind": "mismatch", "case": c, "flavour": fl, "observed": ob}));
                }
            }
        } else {
            let (size, then) = (u(&case["size"]) as usize, u(&case["then"]) as usize);
            let exp = &arr(&c["allowed"])[0];
            for kind in COLLECTORS {
                n += 1;
                let ob = guarded(|| collect(kind, size, then, &mut rng)).unwrap_or_else(|m| json!({"panic": m}));
                let ok = if ob.get("nested").is_some() {
                    // first size*then stream elements, in order
                    let want: Vec<i64> = (1..=(size * then) as i64).map(|k| 100 + k).collect();
                    ob["shape_ok"] == true && ob["flat"] == json!(want) && u(&ob["drawn"]) as usize == size * then
                } else {
                    ob == *exp
                };
                if !ok {
                    bad += 1;
                    out.line(&json!({"kind": "mismatch", "case": c, "flavour": kind, "observed": ob}));
                }
            }
        }
    }
    out.line(&json!({"kind": "summary", "cases": n, "mismatches": bad}));
    out.finish();
    0
}

/// empirical law: position frequencies per flavour for collections of n members
pub fn law(args: &[String]) -> i32 {
    let n = arg_u64(args, "--n", 60_000) as usize;
    let seed = arg_u64(args, "--seed", 0);
    let mut out = Out::create(arg_req(args, "--out"));
    for (k, len) in [2usize, 3, 7, 100, 192, 255, 300].iter().enumerate() {
        let src: Vec<El> = (1..=*len).map(|t| El { v: (t % 2) as i64, tag: t }).collect();
        for (f, fl) in FLAVOURS.iter().enumerate() {
            let mut rng = run_rng(seed, 0x1A8, (k * 100 + f) as u64);
            // many members: more samples, so that every member is expected a few hundred times
            let n = if *len > 7 { n * 4 } else { n };
            let Some((_, samples)) = probe(fl, &src, n, &mut rng) else { continue };
            let mut counts = vec![0u64; *len];
            let mut other = 0u64;
            for (idx, _) in samples {
                if idx >= 1 && idx <= *len { counts[idx - 1] += 1 } else { other += 1 }
            }
            out.line(&json!({"flavour": fl, "len": len, "n": n, "counts": counts, "other": other}));
        }
    }
    out.finish();
    0
}

/// impl -> spec: every size 0..=600 plus large ones, for every constructor that takes a size
pub fn sizes(args: &[String]) -> i32 {
    let seed = arg_u64(args, "--seed", 0);
    let mut out = Out::create(arg_req(args, "--out"));
    let mut rng = run_rng(seed, 0xC18, 77);
    let all: Vec<usize> = (0..=600).chain([1023, 1024, 1025, 4032, 4033, 4096, 10_000, 65_537]).collect();
    for size in all {
        let mut rows: Vec<(&str, Result<(usize, i64), String>)> = Vec::new();
        rows.push(("bitstring_random", guarded(|| (Bitstring::random(size, &mut rng).bits.len(), -1))));
        rows.push(("bitstring_random_with_probability", guarded(|| (Bitstring::random_with_probability(size, 0.25, &mut rng).bits.len(), -1))));
        rows.push(("bitstring_collect", guarded(|| {
            let c = Counter(Cell::new(0));
            let b: Bitstring = c.to_collection_generator(size).sample(&mut rng);
            (b.bits.len(), c.0.get())
        })));
        rows.push(("vec_collect", guarded(|| {
            let c = Counter(Cell::new(0));
            let v: Vec<i64> = c.to_collection_generator(size).sample(&mut rng);
            (v.len(), c.0.get())
        })));
        // the size is a public field: the size delivered is the one configured NOW
        rows.push(("vec_collect_resized", guarded(|| {
            let c = Counter(Cell::new(0));
            let mut g = Generator::new(&c, size / 2 + 3);
            g.size = size;
            let v: Vec<i64> = g.sample(&mut rng);
            (v.len(), c.0.get())
        })));
        // an element type of size zero (units, markers): still exactly `size` elements
        rows.push(("vec_collect_zero_sized", guarded(|| {
            struct Units(Cell<i64>);
            impl Distribution<()> for Units {
                fn sample<R: Rng + ?Sized>(&self, _: &mut R) {
                    self.0.set(self.0.get() + 1);
                }
            }
            let c = Units(Cell::new(0));
            let v: Vec<()> = c.to_collection_generator(size).sample(&mut rng);
            (v.len(), c.0.get())
        })));
        rows.push(("plushy_collect", guarded(|| {
            let c = Counter(Cell::new(0));
            let p: Plushy = c.to_collection_generator(size).sample(&mut rng);
            (p.get_genes().len(), c.0.get())
        })));
        for (kind, r) in rows {
            match r {
                Ok((len, drawn)) => out.line(&json!({"ev": "sized", "run": size, "kind": kind, "size": size, "len": len, "drawn": drawn})),
                Err(m) => out.line(&json!({"ev": "sized", "run": size, "kind": kind, "size": size, "len": -1, "drawn": -1, "panic": m})),
            }
        }
    }
    // every bit of a random bitstring is its own draw: any two positions 1, 32, 64 or 128 apart
    // take all four value pairs over 400 bitstrings (copied or re-used bits show as a pair that
    // never differs); (3/4)^400 makes a miss by chance impossible in practice
    for n in [65usize, 70, 130, 200, 300] {
        let draws = 400;
        let strings: Vec<Vec<bool>> = (0..draws).map(|_| Bitstring::random(n, &mut rng).bits).collect();
        let lens_ok = strings.iter().all(|b| b.len() == n);
        let mut worst = (4usize, 0usize, 0usize);
        if lens_ok {
            for d in [1usize, 32, 64, 128] {
                for i in 0..n.saturating_sub(d) {
                    let mut seen = [false; 4];
                    for b in &strings {
                        seen[usize::from(b[i]) * 2 + usize::from(b[i + d])] = true;
                    }
                    let k = seen.iter().filter(|x| **x).count();
                    if k < worst.0 {
                        worst = (k, i, i + d);
                    }
                }
            }
        }
        out.line(&json!({"ev": "bits_free", "run": format!("bits{n}"), "kind": "bitstring_random", "size": n, "lens_ok": lens_ok,
                         "fewest_pairs": worst.0, "at": [worst.1, worst.2], "draws": draws}));
    }
    out.finish();
    0
}

/// Collections of 2^32 and more members (cheap when the members have size zero): every flavour
/// must accept them, report their true number of members and sample without failing. With
/// `--bytes` a 2^32+3-byte collection is sampled too and the top byte of the chosen position
/// tallied (each of the 256 values equally likely): members beyond 2^32 are reachable.
pub fn huge(args: &[String]) -> i32 {
    let seed = arg_u64(args, "--seed", 0);
    let bytes = args.iter().any(|a| a == "--bytes");
    let mut out = Out::create(arg_req(args, "--out"));
    let mut rng = run_rng(seed, 0xC18, 4242);
    // small NON-EMPTY arrays of zero-sized members (an array of them is zero-sized itself): every
    // array flavour builds a choice over exactly N members
    {
        macro_rules! zst_rows {
            ($n:expr) => {{
                let mut rows: Vec<(&str, Result<Option<usize>, String>)> = Vec::new();
                rows.push(("arr_into_owned", guarded(|| {
                    IntoDistribution::<()>::into_distribution([(); $n]).ok().map(|d| { let () = d.sample(&mut rng); d.num_choices().get() })
                })));
                rows.push(("arrref_into_ref", guarded(|| {
                    let a = [(); $n];
                    IntoDistribution::<&()>::into_distribution(&a).ok().map(|d| { let _: &() = d.sample(&mut rng); d.num_choices().get() })
                })));
                rows.push(("arrref_into_clone", guarded(|| {
                    let a = [(); $n];
                    IntoDistribution::<()>::into_distribution(&a).ok().map(|d| { let () = d.sample(&mut rng); d.num_choices().get() })
                })));
                rows.push(("arr_to_clone", guarded(|| {
                    let a = [(); $n];
                    ToDistribution::<()>::to_distribution(&a).ok().map(|d| { let () = d.sample(&mut rng); d.num_choices().get() })
                })));
                for (flavour, r) in rows {
                    let b = match r {
                        Ok(Some(n)) if n == $n => json!({"k": "ok", "n": "len"}),
                        Ok(Some(n)) => json!({"k": "ok", "n": n.to_string()}),
                        Ok(None) => json!({"k": "empty_slice"}),
                        Err(m) => json!({"k": "panic", "msg": m}),
                    };
                    out.line(&json!({"ev": "huge", "run": format!("zst{}", $n), "flavour": flavour, "len": $n.to_string(), "b": b}));
                }
            }};
        }
        zst_rows!(1usize);
        zst_rows!(3usize);
    }
    for len in [1usize << 32, (1 << 32) + 5, 1 << 33] {
        let mut rows: Vec<(&str, Result<Option<usize>, String>)> = Vec::new();
        rows.push(("vec_into_owned", guarded(|| {
            IntoDistribution::<()>::into_distribution(vec![(); len]).ok().map(|d| { let () = d.sample(&mut rng); d.num_choices().get() })
        })));
        rows.push(("one_of_cloning_new", guarded(|| {
            OneOfCloning::<Vec<()>, ()>::new(vec![(); len]).ok().map(|d| { let () = d.sample(&mut rng); d.num_choices().get() })
        })));
        rows.push(("slice_into_ref", guarded(|| {
            let v = vec![(); len];
            IntoDistribution::<&()>::into_distribution(&v[..]).ok().map(|d| { let _: &() = d.sample(&mut rng); d.num_choices().get() })
        })));
        rows.push(("slice_to_clone", guarded(|| {
            let v = vec![(); len];
            ToDistribution::<()>::to_distribution(&v[..]).ok().map(|d| { let () = d.sample(&mut rng); d.num_choices().get() })
        })));
        rows.push(("choose_cloning_new", guarded(|| {
            let v = vec![(); len];
            ChooseCloning::new(&v[..]).ok().map(|d| { let () = d.sample(&mut rng); d.num_choices().get() })
        })));
        for (flavour, r) in rows {
            let b = match r {
                Ok(Some(n)) if n == len => json!({"k": "ok", "n": "len"}),
                Ok(Some(n)) => json!({"k": "ok", "n": n.to_string()}),
                Ok(None) => json!({"k": "empty_slice"}),
                Err(m) => json!({"k": "panic", "msg": m}),
            };
            out.line(&json!({"ev": "huge", "run": len.to_string(), "flavour": flavour, "len": len.to_string(), "b": b}));
        }
    }
    if bytes {
        let len = (1usize << 32) + 3;
        let v: Vec<u8> = (0..len).map(|k| (k >> 24) as u8).collect();
        let n = 60_000usize;
        for flavour in ["vec_into_owned", "slice_to_clone"] {
            let mut counts = vec![0u64; 256];
            let r = guarded(|| {
                if flavour == "vec_into_owned" {
                    let d = IntoDistribution::<u8>::into_distribution(v.clone()).ok().expect("non-empty");
                    for _ in 0..n { counts[d.sample(&mut rng) as usize] += 1; }
                } else {
                    let d = ToDistribution::<u8>::to_distribution(&v[..]).ok().expect("non-empty");
                    for _ in 0..n { counts[d.sample(&mut rng) as usize] += 1; }
                }
            });
            out.line(&json!({"ev": "huge_law", "flavour": flavour, "len": len.to_string(), "n": n, "counts": counts,
                             "panic": r.err()}));
        }
    }
    out.finish();
    0
}

/// impl -> spec: larger random collections and sizes
pub fn trace(args: &[String]) -> i32 {
    let seed = arg_u64(args, "--seed", 0);
    let runs = arg_u64(args, "--runs", 100);
    let first = arg_u64(args, "--first-run", 0);
    let mut out = Out::create(arg_req(args, "--out"));
    for run in first..first + runs {
        let mut rng = run_rng(seed, 0xC18, run + 1000);
        if rng.random() {
            let len = if rng.random_range(0..6) == 0 { 0 } else { rng.random_range(1..=7usize) };
            let coll: Vec<i64> = (0..len).map(|_| rng.random_range(0..3)).collect();
            let fl = FLAVOURS[rng.random_range(0..FLAVOURS.len())];
            let src = elems(&json!(coll));
            let Some((nums, samples)) = probe(fl, &src, 5, &mut rng) else { continue };
            let b = nums.map_or(json!({"k": "empty_slice"}), |ns| json!({"k": "ok", "n": ns[0]}));
            out.line(&json!({"ev": "choice", "run": run, "flavour": fl, "coll": coll, "b": b,
                             "samples": samples.iter().map(|(a, v)| json!({"idx": a, "val": v})).collect::<Vec<_>>()}));
        } else {
            let (size, then) = (rng.random_range(0..=40usize), rng.random_range(0..=17usize));
            let kind = COLLECTORS[rng.random_range(0..5)];
            let ob = collect(kind, size, then, &mut rng);
            out.line(&json!({"ev": "collect", "run": run, "kind": kind, "size": size, "then": then, "res": ob}));
        }
    }
    out.finish();
    0
}
