//! C12: empirical frequencies of the real stochastic operators, bucketed into the cells of the
//! laws TLC derived from spec/ec/VariationLaw.tla.

use std::collections::BTreeMap;

use ec_core::{
    distributions::{collection::ConvertToCollectionGenerator, conversion::IntoDistribution},
    operator::{mutator::Mutator, recombinator::Recombinator},
};
use ec_linear::{
    genome::{bitstring::{Bitstring, BoolGenerator}, vector::Vector},
    mutator::{umad::Umad, with_one_over_length::WithOneOverLength, with_rate::WithRate},
    recombinator::uniform_xo::UniformXo,
};
use push::{
    genome::plushy::{ConvertToGeneGenerator, GeneGenerator, Plushy, PushGene},
    instruction::{IntInstruction, PushInstruction},
};
use rand::{distr::Distribution, rngs::SmallRng, Rng};
use serde_json::{json, Value};

use crate::util::{arg_req, arg_u64, read_ndjson, run_rng, s, u, Out};

struct NewInt;
impl Distribution<i64> for NewInt {
    fn sample<R: Rng + ?Sized>(&self, _: &mut R) -> i64 {
        1000
    }
}
struct NewGene;
impl Distribution<PushGene> for NewGene {
    fn sample<R: Rng + ?Sized>(&self, _: &mut R) -> PushGene {
        PushGene::Close
    }
}

fn tally(out: &mut Out, row: usize, target: &str, n: u64, counts: BTreeMap<String, u64>, other: u64) {
    let cells: Vec<Value> = counts
        .into_iter()
        .map(|(k, c)| json!({"key": serde_json::from_str::<Value>(&k).expect("key"), "count": c}))
        .collect();
    out.line(&json!({"row": row, "target": target, "n": n, "cells": cells, "other": other}));
}

fn key(bits: impl IntoIterator<Item = bool>) -> String {
    json!(bits.into_iter().map(u8::from).collect::<Vec<_>>()).to_string()
}

pub fn run(args: &[String]) -> i32 {
    let rows = read_ndjson(arg_req(args, "--laws"));
    let n = arg_u64(args, "--n", 100_000);
    let seed = arg_u64(args, "--seed", 0);
    let mut out = Out::create(arg_req(args, "--out"));
    for (ri, row) in rows.iter().enumerate() {
        let mut rng: SmallRng = run_rng(seed, 0xC12, ri as u64);
        match s(&row["op"]) {
            "coins" | "ool" => {
                let len = u(&row["n"]) as usize;
                let rate = u(&row["a"]) as f64 / u(&row["D"]) as f64;
                let mut targets: Vec<(&str, Box<dyn FnMut(&mut SmallRng) -> String>)> = Vec::new();
                if row["op"] == "ool" {
                    targets.push(("one_over_length_vec", Box::new(move |r| {
                        key(WithOneOverLength.mutate(vec![false; len], r).expect("len"))
                    })));
                    targets.push(("one_over_length_bits", Box::new(move |r| {
                        key(WithOneOverLength.mutate(Bitstring { bits: vec![true; len] }, r).expect("len").bits.into_iter().map(|b| !b))
                    })));
                } else {
                    targets.push(("with_rate_vec", Box::new(move |r| {
                        let Ok(c) = WithRate::new(rate as f32).mutate(vec![false; len], r);
                        key(c)
                    })));
                    targets.push(("with_rate_bits", Box::new(move |r| {
                        let Ok(c) = WithRate::new(rate as f32).mutate(Bitstring { bits: vec![true; len] }, r);
                        key(c.bits.into_iter().map(|b| !b))
                    })));
                    targets.push(("bitstring_random_with_probability", Box::new(move |r| {
                        key(Bitstring::random_with_probability(len, rate, r).bits)
                    })));
                    targets.push(("bool_generator", Box::new(move |r| {
                        let g = BoolGenerator::new(rate);
                        key((0..len).map(|_| g.sample(r)).collect::<Vec<bool>>())
                    })));
                    // the configured probability is a public field: the probability applied is the one
                    // configured NOW, also when it was changed after construction
                    targets.push(("bool_generator_retuned", Box::new(move |r| {
                        let mut g = BoolGenerator::new(if rate > 0.5 { 0.0 } else { 1.0 });
                        g.true_probability = rate;
                        key((0..len).map(|_| g.sample(r)).collect::<Vec<bool>>())
                    })));
                    // ... and when it was changed after the generator had already been used
                    targets.push(("bool_generator_used_then_retuned", Box::new(move |r| {
                        let mut g = BoolGenerator::new(if rate > 0.5 { 0.0 } else { 1.0 });
                        let _ = g.sample(r);
                        g.true_probability = rate;
                        key((0..len).map(|_| g.sample(r)).collect::<Vec<bool>>())
                    })));
                    targets.push(("bool_collection_used_then_retuned", Box::new(move |r| {
                        let mut cg = BoolGenerator::new(if rate > 0.5 { 0.0 } else { 1.0 }).into_collection_generator(len);
                        let _: Vec<bool> = cg.sample(r);
                        cg.element_generator.true_probability = rate;
                        let v: Vec<bool> = cg.sample(r);
                        key(v)
                    })));
                    // a mutation at ANOTHER rate (on another genome) ran just before on the same thread: every
                    // call applies its own configured rate
                    targets.push(("with_rate_vec_after_another_rate", Box::new(move |r| {
                        let Ok(_) = WithRate::new(0.000_5).mutate(vec![true; 37], r);
                        let Ok(c) = WithRate::new(rate as f32).mutate(vec![true; len], r);
                        key(c.into_iter().map(|b| !b))
                    })));
                    targets.push(("with_rate_bits_after_another_rate", Box::new(move |r| {
                        let Ok(_) = WithRate::new(0.999).mutate(Bitstring { bits: vec![false; 5] }, r);
                        let Ok(c) = WithRate::new(rate as f32).mutate(Bitstring { bits: vec![true; len] }, r);
                        key(c.bits.into_iter().map(|b| !b))
                    })));
                    targets.push(("bool_generator_retuned_collection", Box::new(move |r| {
                        let mut g = BoolGenerator::new(if rate > 0.5 { 0.0 } else { 1.0 });
                        g.true_probability = rate;
                        let v: Vec<bool> = g.into_collection_generator(len).sample(r);
                        key(v)
                    })));
                    if u(&row["D"]) == 2 {
                        targets.push(("uniform_xo_vec", Box::new(move |r| {
                            let c = UniformXo.recombine([vec![false; len], vec![true; len]], r).expect("same length");
                            key(c)
                        })));
                        targets.push(("uniform_xo_bits", Box::new(move |r| {
                            let c = UniformXo.recombine((Bitstring { bits: vec![false; len] }, Bitstring { bits: vec![true; len] }), r).expect("same length");
                            key(c.bits)
                        })));
                        targets.push(("bitstring_random", Box::new(move |r| key(Bitstring::random(len, r).bits))));
                    }
                }
                for (name, mut f) in targets {
                    let mut counts = BTreeMap::new();
                    for _ in 0..n {
                        crate::util::beat();
                        *counts.entry(f(&mut rng)).or_insert(0) += 1;
                    }
                    tally(&mut out, ri, name, n, counts, 0);
                }
            }
            "pair" => {
                // two genes of one long genome, at distances 1, 64 and 128
                let rate = u(&row["a"]) as f64 / u(&row["D"]) as f64;
                // (also pairs that reach into the last, partial 64-gene word of a 200- and a 70-gene genome)
                for (len, i, j) in [(200usize, 0usize, 1usize), (200, 0, 64), (200, 5, 133), (200, 3, 67), (200, 135, 199),
                                    (200, 130, 194), (70, 0, 64), (70, 5, 69), (70, 62, 63)] {
                    let mut targets: Vec<(String, Box<dyn FnMut(&mut SmallRng) -> String>)> = Vec::new();
                    targets.push((format!("with_rate_bits/{len}:{i},{j}"), Box::new(move |r| {
                        let Ok(c) = WithRate::new(rate as f32).mutate(Bitstring { bits: vec![false; len] }, r);
                        key([c.bits[i], c.bits[j]])
                    })));
                    targets.push((format!("with_rate_vec/{len}:{i},{j}"), Box::new(move |r| {
                        let Ok(c) = WithRate::new(rate as f32).mutate(vec![false; len], r);
                        key([c[i], c[j]])
                    })));
                    targets.push((format!("bitstring_random_with_probability/{len}:{i},{j}"), Box::new(move |r| {
                        let c = Bitstring::random_with_probability(len, rate, r);
                        key([c.bits[i], c.bits[j]])
                    })));
                    if u(&row["a"]) * 2 == u(&row["D"]) {
                        targets.push((format!("uniform_xo_bits/{len}:{i},{j}"), Box::new(move |r| {
                            let c = UniformXo.recombine([Bitstring { bits: vec![false; len] }, Bitstring { bits: vec![true; len] }], r).expect("len");
                            key([c.bits[i], c.bits[j]])
                        })));
                        targets.push((format!("bitstring_random/{len}:{i},{j}"), Box::new(move |r| {
                            let c = Bitstring::random(len, r);
                            key([c.bits[i], c.bits[j]])
                        })));
                        targets.push((format!("uniform_xo_vec/{len}:{i},{j}"), Box::new(move |r| {
                            let c = UniformXo.recombine((vec![false; len], vec![true; len]), r).expect("len");
                            key([c[i], c[j]])
                        })));
                    }
                    let m = (n / 4).max(1000);
                    for (name, mut f) in targets {
                        let mut counts = BTreeMap::new();
                        for _ in 0..m {
                        crate::util::beat();
                            *counts.entry(f(&mut rng)).or_insert(0) += 1;
                        }
                        tally(&mut out, ri, &name, m, counts, 0);
                    }
                }
            }
            "marginal" => {
                // every position of a 200-gene genome separately (and of a 70-gene one for the
                // forms whose randomness may be drawn in words)
                let rate = u(&row["a"]) as f64 / u(&row["D"]) as f64;
                let half = u(&row["a"]) * 2 == u(&row["D"]);
                for len in [200usize, 70] {
                    let mut targets: Vec<(String, Box<dyn FnMut(&mut SmallRng) -> Vec<bool>>)> = Vec::new();
                    targets.push((format!("with_rate_bits/{len}"), Box::new(move |r| {
                        let Ok(c) = WithRate::new(rate as f32).mutate(Bitstring { bits: vec![false; len] }, r);
                        c.bits
                    })));
                    targets.push((format!("with_rate_vec/{len}"), Box::new(move |r| {
                        let Ok(c) = WithRate::new(rate as f32).mutate(vec![false; len], r);
                        c
                    })));
                    targets.push((format!("bitstring_random_with_probability/{len}"), Box::new(move |r| {
                        Bitstring::random_with_probability(len, rate, r).bits
                    })));
                    if half {
                        targets.push((format!("uniform_xo_bits_arr/{len}"), Box::new(move |r| {
                            UniformXo.recombine([Bitstring { bits: vec![false; len] }, Bitstring { bits: vec![true; len] }], r).expect("len").bits
                        })));
                        targets.push((format!("uniform_xo_bits_tuple/{len}"), Box::new(move |r| {
                            UniformXo.recombine((Bitstring { bits: vec![false; len] }, Bitstring { bits: vec![true; len] }), r).expect("len").bits
                        })));
                        targets.push((format!("uniform_xo_vec_arr/{len}"), Box::new(move |r| {
                            UniformXo.recombine([vec![false; len], vec![true; len]], r).expect("len")
                        })));
                        targets.push((format!("uniform_xo_vec_tuple/{len}"), Box::new(move |r| {
                            UniformXo.recombine((vec![false; len], vec![true; len]), r).expect("len")
                        })));
                        targets.push((format!("bitstring_random/{len}"), Box::new(move |r| Bitstring::random(len, r).bits)));
                    }
                    let m = (n / 2).max(1000);
                    for (name, mut f) in targets {
                        let mut ones = vec![0u64; len];
                        let mut bad_len = 0u64;
                        for _ in 0..m {
                        crate::util::beat();
                            let c = f(&mut rng);
                            if c.len() != len {
                                bad_len += 1;
                                continue;
                            }
                            for (i, b) in c.iter().enumerate() {
                                ones[i] += u64::from(*b);
                            }
                        }
                        for (i, k) in ones.iter().enumerate() {
                            let mut counts = BTreeMap::new();
                            counts.insert(json!([1]).to_string(), *k);
                            counts.insert(json!([0]).to_string(), m - bad_len - *k);
                            tally(&mut out, ri, &format!("{name}@{i}"), m, counts, bad_len);
                        }
                    }
                }
            }
            "umad_empty" => {
                let e = u(&row["a"]) as f64 / u(&row["D"]) as f64;
                let other = if e > 0.5 { 0.25 } else { 0.75 }; // an addition rate that differs from the empty rate
                let mut targets: Vec<(&str, Box<dyn FnMut(&mut SmallRng) -> usize>)> = Vec::new();
                targets.push(("umad_new_with_empty_rate_vector", Box::new(move |r| {
                    let Ok(c) = Umad::new_with_empty_rate(other, e, 0.5, NewInt).mutate(Vector::<i64> { genes: vec![] }, r);
                    c.genes.len()
                })));
                targets.push(("umad_new_with_empty_rate_plushy", Box::new(move |r| {
                    let Ok(c) = Umad::new_with_empty_rate(other, e, 0.5, NewGene).mutate(Plushy::new(Vec::<PushGene>::new()), r);
                    c.get_genes().len()
                })));
                targets.push(("umad_new_vector", Box::new(move |r| {
                    // `new`: the empty-genome rate is the addition rate
                    let Ok(c) = Umad::new(e, 0.5, NewInt).mutate(Vector::<i64> { genes: vec![] }, r);
                    c.genes.len()
                })));
                for (name, mut f) in targets {
                    let mut counts = BTreeMap::new();
                    for _ in 0..n {
                        crate::util::beat();
                        *counts.entry(json!([f(&mut rng).min(2)]).to_string()).or_insert(0) += 1;
                    }
                    tally(&mut out, ri, name, n, counts, 0);
                }
            }
            "ool_long" => {
                // total flips over a few long genomes ~ Binomial(runs * len, 1/len)
                let len = u(&row["n"]) as usize;
                let runs = (n / 1000).clamp(60, 4000);
                for target in ["one_over_length_bits_long", "one_over_length_vec_long"] {
                    let mut flips = 0u64;
                    for _ in 0..runs {
                        crate::util::beat();
                        flips += if target.contains("bits") {
                            WithOneOverLength.mutate(Bitstring { bits: vec![false; len] }, &mut rng).expect("len").bits.iter().filter(|b| **b).count() as u64
                        } else {
                            WithOneOverLength.mutate(vec![false; len], &mut rng).expect("len").iter().filter(|b| **b).count() as u64
                        };
                    }
                    let total = runs * len as u64;
                    let mut counts = BTreeMap::new();
                    counts.insert("[1]".to_string(), flips);
                    counts.insert("[0]".to_string(), total - flips);
                    tally(&mut out, ri, target, total, counts, 0);
                }
            }
            "umad" => {
                let (add, del) = (u(&row["addA"]) as f64 / u(&row["D"]) as f64, u(&row["delA"]) as f64 / u(&row["D"]) as f64);
                let plen = 2usize;
                for target in ["umad_vector", "umad_plushy"] {
                    let mut patterns = BTreeMap::new();
                    let (other, mut total_len) = (0u64, 0u64);
                    for _ in 0..n {
                        crate::util::beat();
                        let child: Vec<i64> = if target == "umad_vector" {
                            let parent: Vector<i64> = (1..=plen as i64).collect();
                            let Ok(c) = Umad::new(add, del, NewInt).mutate(parent, &mut rng);
                            c.genes
                        } else {
                            let parent = Plushy::new((1..=plen as i64).map(|p| PushGene::Instruction(IntInstruction::push(p).into())));
                            let Ok(c) = Umad::new(add, del, NewGene).mutate(parent, &mut rng);
                            c.get_genes().iter().map(|g| match g {
                                PushGene::Close => 1000,
                                PushGene::Instruction(PushInstruction::IntInstruction(IntInstruction::Push(p))) => p.0,
                                PushGene::Instruction(_) => -1,
                            }).collect()
                        };
                        total_len += child.len() as u64;
                        // the observable: the child as a pattern over {parent gene p, new gene 0}
                        let pat: Vec<i64> = child.iter().map(|g| if *g == 1000 { 0 } else { *g }).collect();
                        *patterns.entry(json!(pat).to_string()).or_insert(0) += 1;
                    }
                    tally(&mut out, ri, &format!("{target}:child_pattern"), n, patterns, other);
                    out.line(&json!({"row": ri, "target": format!("{target}:mean_length"), "n": n, "parent_len": plen, "total_len": total_len}));
                }
            }
            "gene" => {
                let k = u(&row["n"]) as usize;
                let (c, d) = (u(&row["c"]), u(&row["D"]));
                let instrs: Vec<PushInstruction> = (0..k as i64).map(|j| IntInstruction::push(j + 1).into()).collect();
                let dist = IntoDistribution::<PushInstruction>::into_distribution(instrs).expect("non-empty");
                let default = c == 1 && d as usize == k + 1;
                let mut targets: Vec<(&str, Box<dyn Fn(&mut SmallRng) -> PushGene + '_>)> = Vec::new();
                let g1 = GeneGenerator::new(c as f32 / d as f32, &dist);
                targets.push(("gene_generator_new", Box::new(move |r| g1.sample(r))));
                if default {
                    let g2 = GeneGenerator::with_uniform_close_probability(&dist);
                    targets.push(("with_uniform_close_probability", Box::new(move |r| g2.sample(r))));
                    let g3 = dist.to_gene_generator();
                    targets.push(("to_gene_generator", Box::new(move |r| g3.sample(r))));
                } else {
                    let g4 = dist.to_gene_generator_with_close_probability(c as f32 / d as f32);
                    targets.push(("to_gene_generator_with_close_probability", Box::new(move |r| g4.sample(r))));
                }
                for (name, f) in &targets {
                    let mut counts = BTreeMap::new();
                    let mut other = 0u64;
                    for _ in 0..n {
                        crate::util::beat();
                        match f(&mut rng) {
                            PushGene::Close => *counts.entry("0".to_string()).or_insert(0) += 1,
                            PushGene::Instruction(PushInstruction::IntInstruction(IntInstruction::Push(p))) => {
                                *counts.entry(p.0.to_string()).or_insert(0) += 1;
                            }
                            PushGene::Instruction(_) => other += 1,
                        }
                    }
                    tally(&mut out, ri, name, n, counts, other);
                }
            }
            other => {
                eprintln!("unknown law {other}");
                return 2;
            }
        }
    }
    out.finish();
    0
}
