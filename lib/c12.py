"""C12 - configured probabilities are the probabilities applied."""
import json
import math
import os
import vlib
import stats

LEVEL = "other"


def cell_probs(row):
    return {json.dumps(c["key"]): c["num"] / row["den"] for c in row["cells"]}


def check_target(ck, row, t, label):
    """one tally of the harness against the probabilities of the matching law row"""
    n = t["n"]
    cells = 0
    if t.get("other"):
        ck.violation(f"law:{label}:{t['target']}:undecodable",
                     f"{t['other']} of {n} outcomes of {t['target']} fit no cell of the law {json.dumps(row)[:300]}",
                     {"kind": "law", "row": row, "n": n, "tally": t})
    probs = t["_probs"]
    seen = {json.dumps(c["key"]): c["count"] for c in t["cells"]}
    for k in seen:
        if k not in probs:
            ck.violation(f"law:{label}:{t['target']}:unknown-outcome",
                         f"{t['target']} produced outcome {k}, which the law does not contain",
                         {"kind": "law", "row": row, "n": n, "tally": t})
            return 0
    for k, p in probs.items():
        cells += 1
        if not stats.cell_ok(seen.get(k, 0), n, p):
            ck.violation(f"law:{label}:{t['target']}:cell",
                         f"{t['target']} ({label}): outcome {k} occurred {seen.get(k, 0)} times out of {n} "
                         f"({seen.get(k, 0) / n:.4f}); the specification gives {p:.4f} (per-cell alpha {stats.ALPHA})",
                         {"kind": "law", "row": row, "n": n, "tally": {k2: v for k2, v in t.items() if k2 != '_probs'}})
            break
    return cells


def label_of(row):
    if row["op"] in ("coins", "ool", "pair", "umad_empty", "ool_long", "marginal"):
        return f"{row['op']}:rate{row['a']}/{row['D']}:n{row['n']}"
    if row["op"] == "umad":
        return f"umad:add{row['addA']}/{row['D']}:del{row['delA']}/{row['D']}"
    return f"gene:n{row['n']}:close{row['c']}/{row['D']}"


def compare(ck, rows, N, tag="laws"):
    lp = os.path.join(ck.work, f"{tag}.ndjson")
    vlib.write_ndjson(lp, rows)
    out = os.path.join(ck.work, f"{tag}-tallies.ndjson")
    ck.harness(["law-var", "--laws", lp, "--n", N, "--seed", ck.seed, "--out", out], timeout=3400)
    tallies = vlib.read_ndjson(out)
    cells = 0
    for t in tallies:
        row = rows[t["row"]]
        label = label_of(row)
        if t["target"].endswith(":mean_length"):
            # E[size] = parent length * (keep + insertion marginals); Hoeffding bound on the mean
            pp = cell_probs(row)
            per_pos = sum(p * sum(json.loads(k)) for k, p in pp.items())
            mu = t["parent_len"] * per_pos
            mean = t["total_len"] / t["n"]
            bound = 2 * t["parent_len"] * math.sqrt(math.log(2 / stats.ALPHA) / (2 * t["n"]))
            cells += 1
            if abs(mean - mu) > bound:
                ck.violation(f"law:{label}:{t['target']}",
                             f"mean child length {mean:.4f} differs from the specified {mu:.4f} by more than {bound:.4f}",
                             {"kind": "law", "row": row, "n": N, "tally": t})
            continue
        probs = cell_probs(row)
        if row["op"] == "umad" and t["target"].endswith(":child_pattern"):
            # positions are independent: the law of the child (as a pattern over parent genes 1, 2 and
            # "new gene" 0) is the product of the per-position law, summed over the decision vectors
            # that yield the same child (a new gene after a deleted gene leaves no trace of which)
            pat = {}
            for a, pa in probs.items():
                for b, pb in probs.items():
                    child = []
                    for pos, o in ((1, json.loads(a)), (2, json.loads(b))):
                        child += ([pos] if o[0] else []) + ([0] if o[1] else [])
                    k = json.dumps(child)
                    pat[k] = pat.get(k, 0.0) + pa * pb
            probs = pat
        t["_probs"] = probs
        cells += check_target(ck, row, t, label)
    return tallies, cells


def run(ck):
    q = ck.tier == "quick"
    res = ck.tlc_model("ec/MC_VariationLaw", "ec/MC_VariationLaw.cfg", workers=1, keep_tags=("LAW",), timeout=1800)
    rows = res.tagged.get("LAW", [])
    if len(rows) < 20:
        raise vlib.ToolError("MC_VariationLaw printed too few laws")
    N = 100000 if q else 3000000
    tallies, cells = compare(ck, rows, N)
    ck.cov["explanation"] = (
        "The laws are DERIVED by TLC from VariationLaw.tla by counting equally likely draw vectors, and the "
        "closed-form statements of the property (rate applied independently per gene, one expected flip for "
        "1/length, keep = 1-del, insertion = add(1-del), size preserved iff del = add/(1+add), 1/2 per position "
        "for uniform crossover, close probability c and 1/(n+1) by default) are checked on them as ASSUMEs. The "
        "real operators are then sampled N times per configuration and every outcome cell is compared with the "
        "derived probability by a Chernoff-KL bound at per-cell alpha 1e-12: this decides 'within epsilon of the "
        "law', not exact equality.")
    ck.cov["evaluations"] = len(tallies) * N
    ck.cov["distinct_nontrivial"] = len(tallies)
    ck.cov["rule"] = "one tally per (law row, real operator form); cells = outcome vectors / per-position outcomes / gene kinds"
    ck.cov["samples"] = [rows[1], {k: v for k, v in tallies[1].items() if k != "_probs"}]
    ck.cov["states"] = res.distinct
    ck.cov["conformance"].update({"law_rows": len(rows), "tallies": len(tallies), "cells": cells,
                                  "samples_per_tally": N, "per_cell_alpha": stats.ALPHA,
                                  "detectable_deviation_at_p_half": round(stats.detectable(N, 0.5), 4),
                                  "detectable_deviation_at_p_quarter": round(stats.detectable(N, 0.25), 4)})
    ck.cov["checker_cmd"] = "tlc MC_VariationLaw (laws + closed forms); vh law-var; lib/stats.py"
    ck.assumptions += ["SmallRng is a good uniform source", "rates are multiples of 1/4, 1/3, 1/12 (exact in f32/f64 or off by < 1e-7)",
                       "genome lengths 2-4 for the exact cell laws"]


def replay(ck, obj):
    compare(ck, [obj["row"]], obj["n"], tag="one")
