"""C15 - scores, errors and individuals are ordered and aggregated consistently."""
import json
import os
import vlib

LEVEL = "model_checking"


def sig(m):
    c = m["case"]["case"]
    ob = m["observed"]
    exp = m["case"]["exp"]
    bad = sorted(k for k in ob if exp.get(k) != ob[k]) if isinstance(ob, dict) and isinstance(exp, dict) else ["answer"]
    return f"replay:{c['t']}:{c.get('kind', 'cross')}:{m['on']}:{'+'.join(bad)[:60]}"


def what(m):
    return (f"{json.dumps(m['case']['case'])} on {m['on']}: real answers {json.dumps(m['observed'])}, "
            f"spec {json.dumps(m['case']['exp'])}")


def do_replay(ck, path, tag):
    out = os.path.join(ck.work, f"ord-replay-{tag}.ndjson")
    ck.harness(["ord-replay", "--cases", path, "--out", out])
    res = vlib.read_ndjson(out)
    for m in res[:-1]:
        ck.violation(sig(m), what(m), {"kind": "ord-case", "case": m["case"], "on": m["on"],
                                        "observed": m["observed"]})
    return res[-1]


def sig_t(ev, prefix):
    return f"trace:built:{ev.get('via')}"


def what_t(ev, prefix):
    return f"individual does not carry the genome made / the scorer's result for it: {json.dumps(ev)}"


def construct(ck, runs):
    path = os.path.join(ck.work, "construct.ndjson")
    ck.harness(["ord-construct", "--seed", ck.seed, "--runs", runs, "--out", path])
    ck.validate_runs("ec/Trace_Ordering", "ec/Trace_Ordering.cfg", path, sig_t, what_t,
                     regen=lambda ev: {"seed": ck.seed, "runs": runs})
    return vlib.read_ndjson(path)[:1]


def run(ck):
    q = ck.tier == "quick"
    cfg = "ec/MC_Ordering_quick.cfg" if q else "ec/MC_Ordering_thorough.cfg"
    cpath = os.path.join(ck.work, "ord-cases.ndjson")
    res = ck.tlc_model("ec/MC_Ordering", cfg, workers=4, cases_path=cpath, timeout=1800)
    summ = do_replay(ck, cpath, "mc")
    # the order laws for ALL integers (TLC: values -2..2): spec/ec/OrderingProofs.tla, tlapm
    ck.tlaps("ec", ["OrderingCore.tla", "OrderingProofs.tla"], "OrderingProofs.tla")
    samples = construct(ck, 400 if q else 20000)
    ck.cov["evaluations"] = summ["cases"]
    ck.cov["distinct_nontrivial"] = res.ncases
    ck.cov["rule"] = ("every ordered pair of values -2..2 (mapped order-isomorphically onto "
                      "{MIN,-1,0,1,MAX}) per kind, every score/error cross pair, every pair of result "
                      "vectors up to VecLen; each evaluated on every type it applies to")
    ck.cov["exhaustive"] = True
    ck.cov["samples"] = res.case_samples[:2] + samples
    ck.cov["conformance"].update({"replay_evaluations": summ["cases"], "replay_mismatches": summ["mismatches"]})
    ck.cov["checker_cmd"] = "tlc MC_Ordering (order laws as ASSUMEs); vh ord-replay; vh ord-construct + tlc Trace_Ordering"
    ck.assumptions += ["sums of result vectors do not overflow i64 (vectors use small values)"]


def replay(ck, obj):
    if obj["kind"] == "ord-case":
        p = os.path.join(ck.work, "one.ndjson")
        vlib.write_ndjson(p, [obj["case"]])
        do_replay(ck, p, "one")
    else:
        construct(ck, obj["regen"]["runs"])
