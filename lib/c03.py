"""C03 - program evaluation is total and bounded; only stack overflow aborts it."""
import json
import os
import subprocess
import vlib
import vmcheck

LEVEL = "model_checking"


def sig_long(ev, prefix):
    if ev.get("ev") == "panic":
        return f"long:panic:family{ev.get('family')}"
    bad = []
    if ev.get("ev") == "bound":
        if any(ev["sizes"][k] > ev["max"][k] for k in ev["sizes"]):
            bad.append("size>max")
        if ev["status"] == "fatal" and ev["err"]["kind"] != "overflow":
            bad.append("fatal:" + ev["err"]["kind"])
        if not ev["prefix_ok"]:
            bad.append("output-not-prefix")
        if ev["flat"] and (ev["status"] != "ok" or ev["sizes"]["exec"] != ev["k"] - min(ev["limit"], ev["k"])):
            bad.append("step-count")
        if "bytes_each" in ev and ev["outbytes"] != ev["bytes_each"] * min(ev["limit"], ev["k"]):
            bad.append("bytes-printed")
    return f"long:family{ev.get('family')}:{'+'.join(bad) or ev.get('ev')}"


def what_long(ev, prefix):
    return f"long run violates the evaluation bounds of C03: {json.dumps(ev)}"


def long_runs(ck, runs, max_limit, first=0, tag="long"):
    path = os.path.join(ck.work, f"{tag}.ndjson")
    # the watchdog counts CPU TIME of the driver (a runaway evaluation burns it; a busy machine
    # does not): a normal batch needs seconds to a few minutes. The wall-clock timeout is a tool error.
    budget = 1200 + runs
    try:
        ck.harness(["vm-long", "--seed", ck.seed, "--runs", runs, "--first-run", first,
                    "--max-limit", max_limit, "--out", path], timeout=6 * budget, cpu_limit=budget)
    except vlib.CpuLimit:
        # a hang is an observed outcome: attribute it to the last `begin` without a `bound`
        evs = vlib.read_ndjson(path)
        last = evs[-1] if evs else {}
        ck.violation(f"long:hang:family{last.get('family')}",
                     f"evaluation did not return within the watchdog ({budget} s of CPU time): {json.dumps(last)}",
                     {"kind": "long", "regen": {"seed": ck.seed, "run": last.get("run"),
                                                "max_limit": max_limit}, "event": last})
        return 0
    n = sum(1 for _ in open(path))
    ck.validate_runs("vm/TraceBounds_PushVM", "vm/TraceBounds_PushVM.cfg", path, sig_long, what_long,
                     regen=lambda ev: {"seed": ck.seed, "run": ev.get("run"), "max_limit": max_limit})
    return n


def counted_runs(ck, depths, tag="counted"):
    """millions of steps with a closed-form step count (TraceBounds: Steps(d) = 5 * 2^d - 3)"""
    path = os.path.join(ck.work, f"{tag}.ndjson")
    ck.harness(["vm-counted", "--depths", ",".join(map(str, depths)), "--out", path], timeout=1800)
    ck.validate_runs("vm/TraceBounds_PushVM", "vm/TraceBounds_PushVM.cfg", path, sig_long, what_long,
                     regen=lambda ev: {"counted": True, "depths": depths})
    return sum(1 for _ in open(path))


def run(ck):
    q = ck.tier == "quick"
    # extreme numerics: every instruction on every boundary operand tuple must return
    # (no panic) and may abort only on overflow
    sres, ssumm = vmcheck.mc_step(ck, relevant=vmcheck.c03_relevant)
    rres, rsumm = vmcheck.mc_run(ck)
    stats, instrs = vmcheck.tv(ck, runs_quick=300, runs_thorough=8000)
    n = long_runs(ck, 300 if q else 4000, 20000 if q else 100000)
    n += counted_runs(ck, [0, 1, 5, 12, 18, 22] if q else [0, 1, 2, 3, 8, 14, 19, 21, 22, 23, 24])
    ck.cov["evaluations"] = ssumm["cases"] + rsumm["cases"] + stats["events"] + n
    ck.cov["distinct_nontrivial"] = rsumm["cases"]
    ck.cov["rule"] = ("MC_PushRun behaviours (program x stack limit x step count), distinct by "
                      "construction; liveness <>(status # running) checked without state constraint")
    ck.cov["exhaustive"] = True
    ck.cov["conformance"]["long_run_events"] = n
    ck.cov["checker_cmd"] = ("tlc MC_PushRun (StepBound SizeBound FatalOnlyOverflow Terminates); "
                             "vh vm-run-replay; vh vm-trace + tlc Trace_PushVM; vh vm-long + tlc TraceBounds_PushVM")
    ck.assumptions += [
        "every input variable a program mentions is bound",
        "a panic or a watchdog timeout of the real interpreter is an observed outcome no spec action allows",
        "long runs log scalars only; exact per-step states are decided on the short runs",
    ]


def replay(ck, obj):
    if obj.get("regen", {}).get("counted"):
        counted_runs(ck, obj["regen"]["depths"], tag="one-counted")
        return
    if obj["kind"] == "long":
        r = obj["regen"]
        long_runs(ck, 1, r["max_limit"], first=r["run"], tag="one-long")
    elif obj["kind"] == "trace" and obj.get("spec", "").endswith("TraceBounds_PushVM"):
        r = obj["regen"]
        long_runs(ck, 1, r["max_limit"], first=r["run"], tag="one-long")
    else:
        vmcheck.replay_one(ck, obj)
