"""C17 - type-erased (dyn) forms behave exactly like the operators they wrap."""
import json
import os
import re
import subprocess
import vlib

LEVEL = "other"
BIN = os.path.join(vlib.HARNESS, "target", "debug", "vh-erased")


def sig(ev, prefix):
    form = re.sub(r"[^A-Za-z&<>+ ]", "", ev.get("phase", ""))
    return f"trace:erased:{ev.get('op')}:{form}"


def what(ev, prefix):
    first = next((p for p in prefix if p.get("key") == ev.get("key") and p.get("phase") == "concrete"), None)
    return (f"the erased form {ev.get('phase')} of {ev.get('op')} differs from the operator it wraps: concrete "
            f"{json.dumps(first and first.get('val'))[:400]}; erased {json.dumps(ev.get('val'))[:400]}")


def build(ck):
    """The flavour table is its own cargo target: if it does not compile, a generated impl is
    missing (or has changed shape) - a violation of C17, reported with rustc's message."""
    env = dict(os.environ)
    env["CARGO_NET_OFFLINE"] = "true"
    p = subprocess.run(["cargo", "build", "--offline", "--bin", "vh-erased"], cwd=vlib.HARNESS, env=env,
                       stdout=subprocess.PIPE, stderr=subprocess.STDOUT, text=True, timeout=1200)
    if p.returncode == 0:
        return True
    errs = [ln for ln in p.stdout.splitlines() if ln.startswith("error")]
    in_table = "vh_erased.rs" in p.stdout
    if in_table and errs:
        ck.violation("compile:erased-flavour-table",
                     "the table instantiating every Dyn* trait behind every pointer flavour no longer compiles "
                     f"against the repository: {errs[0][:300]}",
                     {"kind": "compile", "errors": errs[:10], "tail": p.stdout[-3000:]})
        return False
    raise vlib.ToolError("vh-erased does not build:\n" + p.stdout[-2000:])


def trace(ck, seeds, tag="erased"):
    path = os.path.join(ck.work, f"{tag}-trace.ndjson")
    p = subprocess.run([BIN, "--seed", str(ck.seed), "--seeds", str(seeds), "--out", path],
                       stdout=subprocess.PIPE, stderr=subprocess.PIPE, text=True, timeout=3000)
    if p.returncode != 0:
        raise vlib.ToolError(f"vh-erased exited {p.returncode}: {p.stderr[-1500:]}")
    ck.validate_runs("ec/Trace_Functional", "ec/Trace_Functional.cfg", path, sig, what,
                     regen=lambda ev: {"seed": ck.seed, "seeds": seeds}, timeout=3000, max_rejections=8)
    return vlib.read_ndjson(path)


def run(ck):
    q = ck.tier == "quick"
    res = ck.tlc_model("ec/MC_Functional", "ec/MC_Functional.cfg", workers=2, timeout=600)
    if not build(ck):
        ck.cov["explanation"] = "flavour table failed to compile (see violation)"
        ck.cov["evaluations"] = 1
        ck.cov["distinct_nontrivial"] = 2
        return
    evs = trace(ck, 40 if q else 600)
    obs = [e for e in evs if e["ev"] == "obs"]
    forms = sorted({e["phase"] for e in obs})
    impls = sorted({e["op"] for e in obs})
    ck.cov["explanation"] = (
        "Functional.tla's observation key does not contain the wrapper: for each of the five erasable traits "
        "(DynSelector, DynMutator, DynRecombinator, DynOperator, DynChildMaker) and each wrapped implementation "
        "(library operators, one that always fails, one that consumes a data-dependent number of words) the "
        "concrete call and all 7 pointer kinds x 4 auto-trait sets are run from clones of one generator state; "
        "TLC checks that result (selected index / genome / value), error text, words consumed and the next "
        "word of the generator coincide. The flavour table is its own cargo target, so a missing generated "
        "impl is reported as a C17 violation with rustc's message.")
    ck.cov["evaluations"] = len(obs)
    ck.cov["distinct_nontrivial"] = len({e["key"] for e in obs})
    ck.cov["rule"] = "distinct keys = (trait, implementation, argument seed, generator seed); 29 forms observed per key"
    ck.cov["samples"] = obs[:2]
    ck.cov["states"] = res.distinct
    ck.cov["conformance"].update({"forms": len(forms), "implementations": impls})
    ck.cov["checker_cmd"] = "cargo build --bin vh-erased; vh-erased + tlc Trace_Functional"
    ck.assumptions += ["results compared through Debug / error Display renderings",
                       "Ref / RefMut flavours are built with Ref::map from a RefCell of the concrete operator"]


def replay(ck, obj):
    if obj["kind"] == "compile":
        build(ck)
    elif build(ck):
        trace(ck, obj["regen"]["seeds"], tag="one")
