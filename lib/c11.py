"""C11 - mutation keeps genome structure: flips stay in place, UMAD only inserts/deletes."""
import vlib
import varcheck

LEVEL = "model_checking"


def run(ck):
    q = ck.tier == "quick"
    res, cpath = varcheck.mc(ck)
    n, samples = varcheck.tv(ck, {"mut"}, 6000 if q else 400000)
    ck.cov["evaluations"] = n
    ck.cov["distinct_nontrivial"] = res.distinct
    ck.cov["rule"] = ("states of MC_Variation = every (operator, genome <= MaxLen, rate) instance with "
                      "every outcome the spec allows; random real calls (lengths 0..12, rates "
                      "0, 1/4, 1/2, 3/4, 1, 3/2; three UMAD constructors; Vec<bool>, Bitstring, "
                      "Vector, Plushy) are counted under evaluations")
    ck.cov["exhaustive"] = True
    ck.cov["samples"] = samples
    ck.cov["checker_cmd"] = "tlc MC_Variation (FlipShape, UmadShape, degenerate-rate identities); vh var-trace + tlc Trace_Variation"
    ck.assumptions += ["parent genes are tagged with their position and generated genes come from a "
                       "disjoint alphabet, so the decision vector explaining a child is unique",
                       "a rate strictly between 0 and 1 may produce any mask (measure-zero events are not claimed)"]


def replay(ck, obj):
    varcheck.replay_one(ck, obj, {"mut"})
