"""C09 - a generation step atomically replaces the population with as many fresh children."""
import json
import os
import vlib
import evocheck

LEVEL = "model_checking"


def sig(ev, prefix):
    if ev.get("ev") == "panic":
        return "trace:generation:panic"
    mode = next((p.get("mode") for p in prefix if p.get("ev") == "reset"), "?")
    extra = ""
    if ev.get("ev") == "return":
        extra = ":ok" if ev.get("ok") else ":err"
    if ev.get("ev") == "end":
        extra = ":ok" if ev.get("ok") else ":fail"
    return f"trace:generation:{mode}:{ev.get('ev')}{extra}"


def what(ev, prefix):
    reset = next((p for p in prefix if p.get("ev") == "reset"), {})
    return (f"generation step is not a behaviour of Generation.tla ({reset.get('mode')}, n={reset.get('n')}, "
            f"{reset.get('threads')} threads): first unmatched event {json.dumps(ev)[:900]}")


def tv(ck, runs, first=0, tag="gen"):
    path = os.path.join(ck.work, f"{tag}-trace.ndjson")
    ck.harness(["gen-trace", "--seed", ck.seed, "--runs", runs, "--first-run", first, "--out", path],
               timeout=3000)
    ck.validate_runs("ec/Trace_Generation", "ec/Trace_Generation.cfg", path, sig, what,
                     regen=lambda ev: {"seed": ck.seed, "run": ev.get("run")}, timeout=3000)
    evs = vlib.read_ndjson(path)
    # live randomness ACROSS runs too: every run of the driver steps inside a pool of its own; a word
    # drawn by a child of one run must not come back for a child of another (the trace specification
    # checks this inside each run)
    seen = {}
    for ev in evs:
        if ev.get("ev") == "end" and ev.get("ok") and "word" in ev:
            w = str(ev["word"])
            if w in seen and seen[w] != ev.get("run"):
                ck.violation("trace:generation:replayed-randomness",
                             f"a child of run {ev.get('run')} drew the same 64-bit word as a child of run {seen[w]} (stepping in another "
                             f"rayon pool of the same process): children are correlated copies of one draw: {json.dumps(ev)[:300]}",
                             {"kind": "trace", "regen": {"seed": ck.seed, "run": seen[w], "until": ev.get("run")}})
                break
            seen.setdefault(w, ev.get("run"))
    return evs


def schedules(ck, cfgs):
    """Spec -> implementation with the SCHEDULE as the case: TLC enumerates every schedule of one step
    (MC_GenSchedule: start / end order of the calls, which fail, serial and parallel), the harness's child
    maker forces each on the real step, and the recorded step is validated by Trace_Generation."""
    scheds, seen = [], set()
    for cfg in cfgs:
        res = ck.tlc_model("ec/MC_GenSchedule", cfg, workers=4, timeout=1500, keep_tags=("SCHED",))
        for d in res.tagged.get("SCHED", []):
            k = (d["mode"], d["n"], json.dumps(d["events"]))
            if k not in seen:
                seen.add(k)
                scheds.append(d)
    evs = []
    CH = 2000       # schedules per harness run / TLC validation (the whole thorough trace does not fit TLC's heap at once)
    for lo in range(0, len(scheds), CH):
        spath = os.path.join(ck.work, f"gen-schedules-{lo}.ndjson")
        vlib.write_ndjson(spath, scheds[lo:lo + CH])
        path = os.path.join(ck.work, f"gensched-trace-{lo}.ndjson")
        ck.harness(["gen-sched", "--schedules", spath, "--first-run", 1000000 + 2 * lo, "--out", path], timeout=3000)
        ck.validate_runs("ec/Trace_Generation", "ec/Trace_Generation.cfg", path, sig, what,
                         regen=lambda ev: {"schedules": True, "run": ev.get("run")}, timeout=3000)
        for e in vlib.read_ndjson(path):
            if e.get("ev") == "reset" and "sched" in e:
                e["sched"] += lo
            evs.append(e)
    # which schedules did the real step follow?  (observed start / end order == the schedule, possibly
    # followed by optional calls the schedule did not have)
    runs = {}
    for e in evs:
        runs.setdefault(e.get("run"), []).append(e)
    exact = extras = other = gave_up = 0
    realised = set()
    by_overlap = {}
    for r, es in runs.items():
        si = es[0].get("sched")
        if si is None or es[0].get("ev") != "reset":
            continue
        want = [[k, c] for k, c in scheds[si]["events"]]
        got = [["c", e["call"]] if e["ev"] == "start" else [("ok" if e["ok"] else "fail"), e["call"]]
               for e in es if e["ev"] in ("start", "end")]
        g = any(e.get("gave_up") for e in es if e["ev"] == "return")
        gave_up += g
        o = by_overlap.setdefault(f"{scheds[si]['mode']}/overlap{scheds[si]['overlap']}", [0, 0])
        o[1] += 1
        if got == want:
            exact += 1
            realised.add(si)
            o[0] += 1
        elif got[:len(want)] == want:
            extras += 1
            realised.add(si)
            o[0] += 1
        else:
            other += 1
    c = ck.cov["conformance"]
    c["forced_schedules"] = {"enumerated_by_tlc": len(scheds), "runs": len(runs), "followed_exactly": exact,
                             "followed_then_optional_calls": extras, "not_followed": other, "given_up_waiting": gave_up,
                             "distinct_schedules_realised": len(realised),
                             "followed_per_mode_and_overlap": {k: f"{v[0]}/{v[1]}" for k, v in sorted(by_overlap.items())}}
    return len(evs)


def run(ck):
    q = ck.tier == "quick"
    cfg = "ec/MC_Generation_quick.cfg" if q else "ec/MC_Generation_thorough.cfg"
    res = ck.tlc_model("ec/MC_Generation", cfg, workers=6 if q else 12, timeout=3000,
                       xmx="8g" if q else "24g")
    # set-like populations (children with equal keys collapse; the next step makes as many
    # children as the population then has) are explored in their own configuration
    cfg_set = "ec/MC_GenerationSet_quick.cfg" if q else "ec/MC_GenerationSet_thorough.cfg"
    res_set = ck.tlc_model("ec/MC_Generation", cfg_set, workers=6 if q else 12, timeout=3000,
                           xmx="8g" if q else "24g")
    total = 0
    samples = []
    modes = {}
    shards = 1 if q else 8
    per = 1200 if q else 4000
    for sh in range(shards):
        evs = tv(ck, per, first=sh * per, tag=f"gen{sh}")
        total += len(evs)
        for e in evs:
            if e["ev"] == "reset":
                k = f"{e['mode']}/{e.get('collection')}/n{e['n']}/t{e['threads']}"
                modes[k] = modes.get(k, 0) + 1
        if sh == 0:
            samples = evs[:4]
    total += schedules(ck, ["ec/MC_GenSchedule_q0.cfg", "ec/MC_GenSchedule_q1.cfg", "ec/MC_GenSchedule_q2.cfg",
                            "ec/MC_GenSchedule_q3.cfg"]
                       + (["ec/MC_GenSchedule_q4.cfg"] if q else ["ec/MC_GenSchedule_t4.cfg", "ec/MC_GenSchedule_t5.cfg"]))
    evo = evocheck.run(ck, 500 if q else 20000)
    total += len(evo)
    ck.cov["evaluations"] = total
    ck.cov["distinct_nontrivial"] = len(modes)
    ck.cov["conformance"]["set_like_population_model_states"] = getattr(res_set, "distinct", None)
    ck.cov["rule"] = ("model: every interleaving of claim / finish / fail / commit / abort for N0 children on "
                      "the given workers, serial and parallel mode, two consecutive steps, failure possible at "
                      "every call; conformance: distinct (mode, population size, pool size) configurations of "
                      "real runs on Vec / VecDeque / LinkedList / BTreeSet / HashSet populations (set-like ones with colliding "
                      "children, 1-3 consecutive steps), each with seeded failure positions and schedule perturbation")
    ck.cov["exhaustive"] = True
    ck.cov["samples"] = samples
    ck.cov["conformance"]["configurations"] = modes
    ck.cov["checker_cmd"] = ("tlc MC_Generation seq + set configs (NoTornPopulation SizePreserved CallsMatchSize AllFresh OwnRandomness "
                             "FailureAtomic NoPartialCommit ErrIffFailure SerialDiscipline StepsTerminate); "
                             "vh gen-trace + tlc Trace_Generation")
    ck.assumptions += [
        "all interleavings are enumerated on the model; on the code every schedule of <= 4 (thorough: 5) children that "
        "TLC enumerates (start / end order of the calls, which of them fail) is FORCED by the harness's child maker "
        "(forced_schedules in the evidence says how many the real step followed; one it did not follow is no verdict), "
        "and beyond that real rayon schedules are sampled (pools of 1..16 threads, sleeps/yields inside the child maker)",
        "L6: after a failure in parallel mode later children may or may not run; any failed child's error may be returned",
        "L8: the order of children in the new population is not compared",
        "'own live randomness' is observed as: the 64-bit words drawn by the children of one run are pairwise distinct",
    ]


def replay(ck, obj):
    r = obj["regen"]
    if r.get("schedules"):
        q = ck.tier == "quick"
        schedules(ck, ["ec/MC_GenSchedule_q0.cfg", "ec/MC_GenSchedule_q1.cfg", "ec/MC_GenSchedule_q2.cfg",
                       "ec/MC_GenSchedule_q3.cfg"]
                  + (["ec/MC_GenSchedule_q4.cfg"] if q else ["ec/MC_GenSchedule_t4.cfg", "ec/MC_GenSchedule_t5.cfg"]))
        return
    if r.get("evolution"):
        evocheck.tv(ck, 1, first=r["run"], tag="one")
        return
    tv(ck, 1 + max(0, r.get("until", r["run"]) - r["run"]), first=r["run"], tag="one")
