"""C01 - Push programs evaluate to the state the instruction semantics prescribe."""
import vlib
import vmcheck

LEVEL = "model_checking"


def run(ck):
    res, summ = vmcheck.mc_step(ck)
    rres, rsumm = vmcheck.mc_run(ck)
    stats, instrs = vmcheck.tv(ck)
    ck.cov["evaluations"] = summ["cases"] + rsumm["cases"] + stats["events"]
    ck.cov["distinct_nontrivial"] = summ["cases"] - summ["cuts"] + rsumm["cases"]
    ck.cov["rule"] = ("MC_PushStep: every instruction x every footprint state over the boundary "
                      "alphabets (distinct by construction, each executes the instruction); "
                      "MC_PushRun: every program over the control-flow alphabet x stack limit x "
                      "step count; cases cut because a number leaves the phi/psi windows are not counted")
    ck.cov["exhaustive"] = True
    ck.cov["checker_cmd"] = ("tlc MC_PushStep, MC_PushRun; vh vm-step-replay, vm-run-replay; "
                             "vh vm-trace + tlc Trace_PushVM")
    ck.assumptions += [
        "numbers compared only inside the phi/psi windows (DESIGN 3.2); cuts are counted",
        "L1: operands missing and destination full - fatal overflow or recoverable underflow",
        "L2: MIN mod -1 may skip or yield 0",
        "float predicates follow the OrderedFloat total order; error texts are not compared",
        "input variables are bound (an unbound name is a documented panic)",
    ]


def replay(ck, obj):
    vmcheck.replay_one(ck, obj)
