"""C01 - Push programs evaluate to the state the instruction semantics prescribe."""
import json
import os
import vlib
import vmcheck
import gpcheck

LEVEL = "model_checking"


def cases_stage(ck, runs, first=0, tag="cases"):
    """push::evaluation::Cases (the training-case collection every example scorer is built on) is
    not part of a listed property; its specification spec/eval/Cases.tla is checked and bound here."""
    path = os.path.join(ck.work, f"{tag}-trace.ndjson")
    ck.harness(["cases-trace", "--seed", ck.seed, "--runs", runs, "--first-run", first, "--len", 40, "--out", path])
    ck.validate_runs("eval/Trace_Cases", "eval/Trace_Cases.cfg", path,
                     lambda ev, prefix: f"trace:cases:{ev.get('name') or ev.get('ev')}",
                     lambda ev, prefix: ("a history of push::evaluation::Cases is not a behaviour of Cases.tla: first "
                                         f"unmatched event {json.dumps(ev)[:600]} after {json.dumps(prefix[-1])[:300] if prefix else ''}"),
                     regen=lambda ev: {"seed": ck.seed, "run": ev.get("run"), "cases": True}, timeout=1200)
    return len(vlib.read_ndjson(path))


def run(ck):
    cres = ck.tlc_model("eval/MC_Cases", "eval/MC_Cases.cfg", workers=2, timeout=900, tag="cases")
    ncases = cases_stage(ck, 40 if ck.tier == "quick" else 2000)
    ck.cov["conformance"]["evaluation_cases_model_states"] = cres.distinct
    ck.cov["conformance"]["evaluation_cases_events_validated"] = ncases
    ngp = gpcheck.stage(ck)
    res, summ = vmcheck.mc_step(ck)
    rres, rsumm = vmcheck.mc_run(ck)
    stats, instrs = vmcheck.tv(ck)
    ck.cov["evaluations"] = summ["cases"] + rsumm["cases"] + stats["events"] + ngp
    ck.cov["distinct_nontrivial"] = summ["cases"] - summ["cuts"] + rsumm["cases"]
    ck.cov["rule"] = ("MC_PushStep: every instruction x every footprint state over the boundary "
                      "alphabets (distinct by construction, each executes the instruction); "
                      "MC_PushRun: every program over the control-flow alphabet x stack limit x "
                      "step count; cases cut because a number leaves the phi/psi windows are not counted")
    ck.cov["exhaustive"] = True
    ck.cov["checker_cmd"] = ("tlc MC_PushStep, MC_PushRun, MC_PushGP; vh vm-step-replay, vm-run-replay, gp-replay; "
                             "vh vm-trace + tlc Trace_PushVM; vh gp-trace + tlc Trace_PushGP")
    ck.assumptions += [
        "numbers compared only inside the phi/psi windows (DESIGN 3.2); cuts are counted",
        "L1: operands missing and destination full - fatal overflow or recoverable underflow",
        "L2: MIN mod -1 may skip or yield 0",
        "float predicates follow the OrderedFloat total order; error texts are not compared",
        "input variables are bound (an unbound name is a documented panic)",
    ]


def replay(ck, obj):
    if obj.get("regen", {}).get("cases"):
        cases_stage(ck, 1, first=obj["regen"]["run"], tag="one")
        return
    if obj.get("kind") == "gp-replay" or (obj.get("regen") or {}).get("gp") or (obj.get("regen") or {}).get("gpevo"):
        gpcheck.replay(ck, obj)
        return
    vmcheck.replay_one(ck, obj)
