"""Shared machinery of the /verif checks: TLC runner + output parser, harness
builder/runner, trace validation loop, known-findings matcher, evidence writer.

Exit codes of a check: 0 = property held on everything explored (open known
findings are printed as KNOWN-FINDING lines), 1 = at least one VIOLATION line,
2 = tool error / timeout (never a verdict).
"""
import json
import os
import re
import shutil
import subprocess
import sys
import time

ROOT = os.path.dirname(os.path.dirname(os.path.abspath(__file__)))
SPEC = os.path.join(ROOT, "spec")
HARNESS = os.path.join(ROOT, "harness")
VH = os.path.join(HARNESS, "target", "debug", "vh")
WORK = os.path.join(ROOT, "work")
FINDINGS = os.path.join(ROOT, "known_findings.json")

TLC_JAR = "/opt/veriftools/tla/tla2tools.jar:/opt/veriftools/tla/CommunityModules-deps.jar"


class ToolError(Exception):
    pass


class CpuLimit(Exception):
    """the code under test used more CPU time than the driver's budget (a runaway computation)"""


class HarnessPanic(Exception):
    """a driver died of a panic of the code under test; the violation is already recorded"""


def log(msg):
    print(msg, flush=True)


def tla_unescape(s):
    """Undo the escaping TLC applies when it prints a string value."""
    out = []
    i = 0
    while i < len(s):
        c = s[i]
        if c == "\\" and i + 1 < len(s):
            n = s[i + 1]
            out.append({"n": "\n", "t": "\t", "r": "\r", "f": "\f"}.get(n, n))
            i += 2
        else:
            out.append(c)
            i += 1
    return "".join(out)


CASE_RE = re.compile(r'^<<"([A-Z][A-Z0-9_-]*)", "(.*)">>$')


class TLCResult:
    def __init__(self):
        self.rc = None
        self.generated = 0
        self.distinct = 0
        self.depth = 0
        self.errors = []        # "Error: ..." lines
        self.violated = []      # names of violated invariants / properties
        self.tagged = {}        # tag -> list of parsed JSON payloads
        self.rejected_at = None  # TRACE-REJECTED index
        self.out_path = None
        self.wall = 0.0
        self.cmd = ""
        self.coverage_zero = []


class Check:
    def __init__(self, pid, tier, seed, level):
        self.pid = pid
        self.tier = tier
        self.seed = seed
        self.level = level
        self.t0 = time.time()
        self.work = os.path.join(WORK, f"{pid}-{tier}")
        shutil.rmtree(self.work, ignore_errors=True)
        os.makedirs(self.work, exist_ok=True)
        self.replays = os.path.join(ROOT, "replays", pid)
        os.makedirs(self.replays, exist_ok=True)
        self.violations = []   # (signature, what, replay_path)
        self.known_hits = []   # (signature, what)
        self.cov = {
            "states": 0,
            "transitions": 0,
            "traces_validated_against_impl": 0,
            "evaluations": 0,
            "distinct_nontrivial": 0,
            "rule": "",
            "samples": [],
            "explanation": "",
            "checker_cmd": "",
            "exhaustive": False,
            "tlc_runs": [],
            "conformance": {},
        }
        self.assumptions = []
        self.hooks_off = False
        self._findings = self._load_findings()
        self._nrep = 0

    # ------------------------------------------------------------------ findings
    def _load_findings(self):
        try:
            with open(FINDINGS) as f:
                return json.load(f).get("findings", [])
        except FileNotFoundError:
            return []

    def _open_finding(self, signature):
        for f in self._findings:
            if f.get("status") == "open" and f.get("property") == self.pid:
                pat = f.get("signature", "")
                if pat == signature or (f.get("regex") and re.fullmatch(pat, signature)):
                    return f
        return None

    def violation(self, signature, what, replay_obj):
        """Record one discrepancy.  Matches against open known findings."""
        f = self._open_finding(signature)
        if f is not None:
            if signature not in [s for s, _ in self.known_hits]:
                self.known_hits.append((signature, f.get("what", what)))
            return
        if any(s == signature for s, _, _ in self.violations) and len(self.violations) >= 1:
            # one replay file per signature is enough; count the rest
            self.cov["conformance"]["extra_violations_same_signature"] = \
                self.cov["conformance"].get("extra_violations_same_signature", 0) + 1
            return
        self._nrep += 1
        safe = re.sub(r"[^A-Za-z0-9_.-]+", "_", signature)[:80]
        path = os.path.join(self.replays, f"{self.tier}-{self._nrep:03d}-{safe}.json")
        replay_obj = dict(replay_obj)
        replay_obj.setdefault("property", self.pid)
        replay_obj["signature"] = signature
        replay_obj["what"] = what
        with open(path, "w") as fh:
            json.dump(replay_obj, fh, indent=1)
        self.violations.append((signature, what, path))

    # ------------------------------------------------------------------ harness
    def build_harness(self, timeout=900):
        """cargo build of the harness against /repo. Falls back, in this order, to (1) the harness without
        its optional API flavours, (2) a build in which the repository's verification hooks (the extra
        #[push_state] structs, cfg unhindered_ec_verif) are NOT compiled: if one of those is what no
        longer compiles, every check that does not need it still makes its observations (C19, which
        needs the hook structs, reports their failure to compile itself)."""
        t = time.time()
        base = dict(os.environ)
        base["CARGO_NET_OFFLINE"] = "true"
        nohooks = dict(base)
        nohooks["RUSTFLAGS"] = "--check-cfg cfg(unhindered_ec_verif)"       # overrides the config's --cfg
        attempts = [([], base, None),
                    (["--no-default-features"], base,
                     "WITHOUT the optional flavours (selectors on a VecDeque, erased selector with a custom error "
                     "type, zero-length array conversions)"),
                    ([], nohooks, "WITHOUT the repository's verification hooks (cfg unhindered_ec_verif off)"),
                    (["--no-default-features"], nohooks, "WITHOUT the optional flavours and WITHOUT the verification hooks")]
        first = None
        for extra, env, what in attempts:
            p = subprocess.run(["cargo", "build", "--offline", "--bin", "vh"] + extra, cwd=HARNESS, env=env,
                               stdout=subprocess.PIPE, stderr=subprocess.STDOUT, text=True, timeout=timeout)
            if p.returncode == 0:
                if what:
                    errs = [ln for ln in first.splitlines() if ln.startswith("error")][:3]
                    log(f"note: the harness was built {what}: " + " | ".join(errs))
                    self.assumptions.append(f"the harness was built {what} because the full build did not compile "
                                            "against this tree: " + " | ".join(errs))
                    self.hooks_off = env is nohooks
                break
            first = first or p.stdout
        self.cov["conformance"]["harness_build_s"] = round(time.time() - t, 1)
        if p.returncode != 0:
            tail = "\n".join(first.splitlines()[-60:])
            raise ToolError("harness build failed (the repository under test does not compile "
                            "against the harness):\n" + tail)

    def harness(self, args, timeout=600, check=True, cpu_limit=None):
        """cpu_limit: seconds of CPU TIME the driver may use (RLIMIT_CPU); exceeding it kills the
        process with a signal, which raises CpuLimit - unlike the wall-clock `timeout` (a tool
        error) this does not depend on how busy the machine is."""
        # never shorter than the in-driver hang monitor needs (600 s of CPU time, longer on a busy machine)
        timeout = max(timeout, 2400)
        pre = None
        if cpu_limit:
            import resource

            def pre():
                resource.setrlimit(resource.RLIMIT_CPU, (int(cpu_limit), int(cpu_limit) + 5))
        p = subprocess.run([VH] + [str(a) for a in args], stdout=subprocess.PIPE,
                           stderr=subprocess.PIPE, text=True, timeout=timeout, preexec_fn=pre)
        if cpu_limit and p.returncode < 0:
            raise CpuLimit(f"harness {args[0]} was killed by signal {-p.returncode} after using its CPU-time budget of {cpu_limit} s")
        if check and p.returncode == 4:
            # a call into the code under test burnt minutes of CPU time without returning
            msg = next((ln for ln in p.stdout.splitlines() if ln.startswith("HANG-OBSERVED")), "")
            self.violation(f"hang:{args[0]}",
                           f"a call into the code under test did not return (driver `{args[0]}`): {msg[:600]}",
                           {"kind": "hang", "args": [str(a) for a in args], "detail": msg})
            raise HarnessPanic(args[0])
        if check and p.returncode == 3:
            # the code under test panicked where the driver did not expect it: an observation
            msg = next((ln for ln in p.stdout.splitlines() if ln.startswith("UNGUARDED-PANIC")), "")
            self.violation(f"panic:{args[0]}",
                           f"the code under test panicked inside harness driver `{args[0]}`: {msg[:600]}",
                           {"kind": "unguarded-panic", "args": [str(a) for a in args], "detail": msg})
            raise HarnessPanic(args[0])
        if check and p.returncode != 0:
            raise ToolError(f"harness {' '.join(map(str, args))} exited {p.returncode}: "
                            f"{p.stderr[-2000:]}")
        return p

    # ---------------------------------------------------------------------- TLAPS
    def tlaps(self, subdir, files, main, key="tlaps_obligations_proved", timeout=900):
        """Run tlapm on spec/<subdir>/<main> (copied with `files` into the work directory). A proof
        that does not go through says something about the specification or the prover, never about
        the code under test: it is recorded in the evidence and logged, never a verdict."""
        dst = os.path.join(self.work, "tlaps-" + main.replace(".tla", ""))
        shutil.rmtree(dst, ignore_errors=True)
        os.makedirs(dst)
        for f in files:
            shutil.copy(os.path.join(SPEC, subdir, f), dst)
        try:
            p = subprocess.run(["tlapm", "--threads", "6", main], cwd=dst, stdout=subprocess.PIPE,
                               stderr=subprocess.STDOUT, text=True, timeout=timeout)
            m = re.search(r"All (\d+) obligations proved", p.stdout)
            self.cov["conformance"][key] = int(m.group(1)) if m else 0
            if not m:
                log(f"note: tlapm did not prove every obligation of {main}: " + p.stdout[-300:])
        except (OSError, subprocess.TimeoutExpired) as e:
            log(f"note: tlapm not run ({e})")
            self.cov["conformance"][key] = None

    # ---------------------------------------------------------------------- TLC
    def tlc(self, module, cfg, workers=4, timeout=900, env=None, simulate=None, depth=None,
            deque=False, xmx="6g", coverage=False, tag=None, keep_tags=("CASE",),
            extra=(), cases_path=None):
        """Run TLC on spec/<module>.tla with spec/<cfg>.  Returns TLCResult."""
        res = TLCResult()
        tag = tag or os.path.basename(cfg).replace(".cfg", "")
        meta = os.path.join(self.work, "tlc-" + tag)
        shutil.rmtree(meta, ignore_errors=True)
        out_path = os.path.join(self.work, tag + ".out")
        libs = ":".join(os.path.join(SPEC, d) for d in sorted(os.listdir(SPEC)) if os.path.isdir(os.path.join(SPEC, d)))
        jopts = f"-Xss1g -Xmx{xmx} -DTLA-Library={libs}"
        if deque:
            jopts += " -Dtlc2.tool.queue.IStateQueue=StateDeque"
        e = dict(os.environ)
        e["JAVA_TOOL_OPTIONS"] = jopts
        if env:
            e.update({k: str(v) for k, v in env.items()})
        cmd = ["java", "-XX:+UseParallelGC", "-cp", TLC_JAR, "tlc2.TLC",
               "-workers", str(workers), "-metadir", meta, "-cleanup", "-noGenerateSpecTE"]
        if coverage:
            cmd += ["-coverage", "1"]
        if simulate:
            cmd += ["-simulate", simulate]
        if depth:
            cmd += ["-depth", str(depth)]
        cmd += list(extra)
        cmd += ["-config", os.path.join(SPEC, cfg), os.path.join(SPEC, module + ".tla")]
        res.cmd = " ".join(cmd[4:])
        t = time.time()
        try:
            with open(out_path, "w") as fh:
                p = subprocess.run(cmd, stdout=fh, stderr=subprocess.STDOUT, env=e,
                                   timeout=timeout, cwd=self.work)
            res.rc = p.returncode
        except subprocess.TimeoutExpired:
            raise ToolError(f"TLC timed out after {timeout}s on {cfg}")
        finally:
            shutil.rmtree(meta, ignore_errors=True)
        res.wall = time.time() - t
        res.out_path = out_path
        res.ncases = 0
        res.case_samples = []
        cfh = open(cases_path, "w") if cases_path else None
        with open(out_path, errors="replace") as fh:
            for line in fh:
                line = line.rstrip("\n")
                m = CASE_RE.match(line)
                if m:
                    if cfh is not None and m.group(1) == "CASE":
                        txt = tla_unescape(m.group(2))
                        cfh.write(txt + "\n")
                        res.ncases += 1
                        if res.ncases in (1, 1000, 20000):
                            res.case_samples.append(json.loads(txt))
                        continue
                    if m.group(1) in keep_tags:
                        res.tagged.setdefault(m.group(1), []).append(
                            json.loads(tla_unescape(m.group(2))))
                    continue
                if line.startswith('<<"TRACE-REJECTED"'):
                    res.rejected_at = int(re.findall(r"-?\d+", line)[0])
                    continue
                m = re.match(r"^(\d+) states generated.*?(\d+) distinct states found", line)
                if m:
                    res.generated = int(m.group(1))
                    res.distinct = int(m.group(2))
                    continue
                m = re.match(r"^The depth of the complete state graph search is (\d+)", line)
                if m:
                    res.depth = int(m.group(1))
                m = re.match(r"^Error: (Invariant|Action property|Temporal property) (\S+) is violated", line)
                if m:
                    res.violated.append(m.group(2))
                if line.startswith("Error:"):
                    res.errors.append(line)
        if cfh is not None:
            cfh.close()
        self.cov["tlc_runs"].append({
            "cfg": cfg, "generated": res.generated, "distinct": res.distinct,
            "depth": res.depth, "wall_s": round(res.wall, 1), "rc": res.rc,
            "mode": "simulate " + simulate if simulate else "bfs"})
        return res

    def tlc_model(self, module, cfg, **kw):
        """Model-check a spec; any error here is a tool/spec error (exit 2): the specs do
        not depend on the code under test, so nothing it reports is a verdict on the code."""
        res = self.tlc(module, cfg, **kw)
        if res.errors or res.rc != 0:
            raise ToolError(f"TLC reported errors on {cfg} (see {res.out_path}): {res.errors[:3]}")
        self.cov["states"] += res.distinct
        self.cov["transitions"] += res.generated
        return res

    def validate_trace(self, module, cfg, trace_path, timeout=900, env=None, xmx="4g"):
        """Trace validation: returns (accepted, index_of_first_unmatched_event or None)."""
        e = {"TRACE": trace_path}
        if env:
            e.update(env)
        res = self.tlc(module, cfg, workers=1, deque=True, env=e, timeout=timeout, xmx=xmx,
                       tag="tv-" + os.path.basename(trace_path))
        post_fail = [x for x in res.errors if "Postcondition" in x]
        other = [x for x in res.errors if "Postcondition" not in x]
        if other:
            raise ToolError(f"TLC error during trace validation ({res.out_path}): {other[:3]}")
        if res.rejected_at is not None:
            return False, res.rejected_at, res
        if post_fail:
            raise ToolError(f"postcondition failed without index ({res.out_path})")
        if res.rc != 0:
            raise ToolError(f"TLC rc={res.rc} during trace validation ({res.out_path})")
        return True, None, res

    def validate_runs(self, module, cfg, trace_path, signature_of, what_of, regen=None,
                      max_rejections=6, timeout=900, env=None, group_key="run"):
        """Validate a trace made of independent runs (events carry `run`, each run starts
        with a `reset` event).  On rejection the offending run is reported, removed and the
        rest validated again, so one discrepancy does not hide the remaining events."""
        with open(trace_path) as fh:
            lines = [ln for ln in fh if ln.strip()]
        total_events = len(lines)
        runs_total = len({json.loads(ln).get(group_key) for ln in lines})
        rejected = 0
        cur = trace_path
        while True:
            if not lines:
                break
            ok, idx, res = self.validate_trace(module, cfg, cur, timeout=timeout, env=env)
            if ok:
                break
            ev = json.loads(lines[idx - 1])
            run = ev.get(group_key)
            run_lines = [json.loads(ln) for ln in lines if json.loads(ln).get(group_key) == run]
            pos = next(i for i, x in enumerate(run_lines) if x == ev)
            prefix = run_lines[:pos + 1]
            rejected += 1
            self.violation(signature_of(ev, prefix), what_of(ev, prefix), {
                "kind": "trace", "spec": module, "cfg": cfg,
                "first_unmatched_event": ev,
                "run_prefix": prefix[-40:],
                "regen": (regen(ev) if regen else None)})
            lines = [ln for ln in lines if json.loads(ln).get(group_key) != run]
            if rejected >= max_rejections:
                self.cov["conformance"]["trace_validation_cut_after_rejections"] = rejected
                break
            cur = os.path.join(self.work, f"{os.path.basename(trace_path)}.minus{rejected}")
            with open(cur, "w") as fh:
                fh.writelines(lines)
        self.cov["traces_validated_against_impl"] += runs_total - rejected if rejected < max_rejections else 0
        c = self.cov["conformance"]
        c["trace_events"] = c.get("trace_events", 0) + total_events
        c["trace_runs"] = c.get("trace_runs", 0) + runs_total
        c["trace_runs_rejected"] = c.get("trace_runs_rejected", 0) + rejected
        return rejected

    # ----------------------------------------------------------------- finishing
    def finish(self):
        wall = time.time() - self.t0
        cov = self.cov
        for k in ("rule", "explanation", "checker_cmd"):
            if not cov[k]:
                del cov[k]
        ev = {
            "property_id": self.pid,
            "tier": self.tier,
            "seed": self.seed,
            "level": self.level,
            "coverage": cov,
            "assumptions": self.assumptions,
            "wall_s": round(wall, 1),
            "violations": len(self.violations),
            "known_findings_hit": [s for s, _ in self.known_hits],
        }
        os.makedirs(os.path.join(ROOT, "evidence"), exist_ok=True)
        with open(os.path.join(ROOT, "evidence", f"{self.pid}.json"), "w") as fh:
            json.dump(ev, fh, indent=1)
        for sig, what in self.known_hits:
            log(f"KNOWN-FINDING: property={self.pid} {what} [{sig}]")
        for n, (sig, what, path) in enumerate(self.violations):
            log(f"VIOLATION property={self.pid} replay={path}")
            log(f"  {sig}: {what[:1500]}")
            if n >= 11 and len(self.violations) > 12:
                log(f"  ... and {len(self.violations) - 12} more distinct discrepancies (replay files "
                    f"under {self.replays})")
                break
        if self.violations:
            return 1
        log(f"OK property={self.pid} tier={self.tier} wall={wall:.1f}s")
        return 0


def write_ndjson(path, items):
    with open(path, "w") as fh:
        for it in items:
            fh.write(json.dumps(it, separators=(",", ":")) + "\n")


def read_ndjson(path):
    with open(path) as fh:
        return [json.loads(ln) for ln in fh if ln.strip()]
