"""C08 - lexicase filters by randomly ordered cases; winners are never dominated."""
import hashlib
import json
import os
import vlib
import selcheck
import stats

LEVEL = "model_checking"
SELS = {"lexicase"}


def run(ck):
    q = ck.tier == "quick"
    res, cpath = selcheck.mc_selection(ck)
    summ = selcheck.replay_selection(ck, cpath, "lex", only=SELS, reps=6 if q else 40)
    n1, s1 = selcheck.tv_selection(ck, 6000 if q else 300000, only=SELS, tag="c08")
    laws = [l for l in res.tagged.get("LAW", []) if l["case"]["sel"] == "lexicase"]
    laws.sort(key=lambda l: hashlib.md5(json.dumps(l, sort_keys=True).encode()).hexdigest())
    # half: the case order changes the winner set; half: three or more co-survivors share the win
    ties = [l for l in laws if sum(1 for x in l["num"] if x > 0) >= 3]
    others = [l for l in laws if l not in ties]
    k = 20 if q else 200
    # the order-revealing populations (one individual per arrangement of 0..m-1): always included
    perm = [l for l in laws if len(l["case"]["pop"]) >= 6]
    laws = perm + [l for l in others if l not in perm][:k] + ties[:k]
    N = 60000 if q else 1000000
    rows = selcheck.law_rows(ck, "sel-law", laws, N, "lexicase")
    cells = selcheck.check_rows(ck, rows, "lexicase-winner",
                                lambda law: "m" + hashlib.md5(json.dumps(law["case"], sort_keys=True).encode()).hexdigest()[:8])
    # the case order is uniformly random: the first visited case is each case with probability 1/c
    for r in rows:
        c = r["law"]["case"]["c"]
        if c < 2:
            continue
        fc = {k: v for k, v in r["first_case"]}
        tot = sum(fc.values())
        if tot < r["n"]:
            continue  # some selections needed no comparison at all
        bad = stats.check_law([fc.get(i, 0) for i in range(c)], tot, [1 / c] * c)
        cells += c
        if bad:
            ck.violation(f"law:lexicase-first-case:c{c}",
                         f"first visited case is not uniform over the {c} cases: case {bad[0][0]} came first "
                         f"{bad[0][1]} times out of {tot}", {"kind": "law", "law": r["law"], "n": r["n"],
                                                              "first_case": r["first_case"]})
    ck.cov["evaluations"] = summ["cases"] + n1 + len(rows) * N
    ck.cov["distinct_nontrivial"] = res.ncases
    ck.cov["rule"] = ("as C06, restricted to lexicase (both polarities, case counts 0..m+1, ragged vectors); "
                      "law cases = result matrices on which the case order changes the winner set")
    ck.cov["exhaustive"] = True
    ck.cov["samples"] = s1[:1] + [{"law": rows[0]["law"], "counts": rows[0]["counts"], "n": rows[0]["n"]}]
    ck.cov["conformance"].update({"law_configurations": len(rows), "law_cells": cells, "samples_per_configuration": N,
                                  "detectable_deviation_at_p_half": round(stats.detectable(N, 0.5), 4),
                                  "per_cell_alpha": stats.ALPHA})
    ck.cov["checker_cmd"] = ("tlc MC_Selection (LexSurvives, LexNeverDominated, LexDegenerate, LexAcceptsExact); "
                             "vh sel-replay; vh sel-trace + tlc Trace_Selection (LexicaseAccepts on the logged "
                             "comparisons); vh sel-law vs TLC-derived law")
    ck.assumptions += ["the visited case order is observed through the probe results' Ord::cmp calls"]


def replay(ck, obj):
    if obj["kind"] == "sel-case":
        p = os.path.join(ck.work, "one.ndjson")
        vlib.write_ndjson(p, [obj["case"]])
        selcheck.replay_selection(ck, p, "one", reps=200)
    elif obj["kind"] == "law":
        rows = selcheck.law_rows(ck, "sel-law", [obj["law"]], obj["n"], "one")
        selcheck.check_rows(ck, rows, "lexicase-winner", lambda law: "replay")
    else:
        selcheck.replay_trace_one(ck, obj)
