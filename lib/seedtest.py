#!/usr/bin/env python3
"""seedtest.py <mutant-dir> <seed-id> [--checks C01,C02] [--tier quick] [--skip-confirm]

Confirms a seeded change produced by an independent sub-agent and runs the registered
checks against it:
  1. in the scratch worktree that contains <mutant-dir> (never /repo): the change applies,
     the workspace test suite still passes with it, the demonstration fails with it and
     passes without it;
  2. on /repo: git apply, run ./check <id> for each listed property, git checkout -- . ;
  3. stores patch, demonstration and meta.json (what it breaks, what it needs, what was run,
     which checks caught it) under /verif/seeded/<seed-id>/.
"""
import argparse
import json
import os
import re
import shutil
import subprocess
import sys

ROOT = os.path.dirname(os.path.dirname(os.path.abspath(__file__)))


def sh(cmd, cwd=None, timeout=3600):
    p = subprocess.run(cmd, shell=True, cwd=cwd, stdout=subprocess.PIPE, stderr=subprocess.STDOUT,
                       text=True, timeout=timeout)
    return p.returncode, p.stdout


def main():
    ap = argparse.ArgumentParser()
    ap.add_argument("mutdir")
    ap.add_argument("seed_id")
    ap.add_argument("--checks", default="")
    ap.add_argument("--tier", default="quick")
    ap.add_argument("--skip-confirm", action="store_true")
    ap.add_argument("--isolated", action="store_true")
    ap.add_argument("--neutral", action="store_true", help="a change under which the property still holds: any VIOLATION is a false alarm; stored under neutral/")
    a = ap.parse_args()
    mutdir = os.path.abspath(a.mutdir)
    wt = mutdir.split("/out/")[0]
    patch = os.path.join(mutdir, "patch.diff")
    meta = json.load(open(os.path.join(mutdir, "meta.json")))
    prop = meta["property"]
    checks = [c for c in a.checks.split(",") if c] or [prop]
    demo = next((os.path.join(mutdir, f) for f in ("demo.rs",) if os.path.exists(os.path.join(mutdir, f))), None)
    pkg = meta.get("demo_package", "packages/push").split()[0].rstrip("/")
    confirm = {}
    if not a.skip_confirm:
        sh("git checkout -- . && git clean -fdq packages", cwd=wt)
        rc, out = sh(f"git apply --check {patch}", cwd=wt)
        confirm["applies"] = rc == 0
        testdir = os.path.join(wt, pkg, "tests")
        os.makedirs(testdir, exist_ok=True)
        dst = os.path.join(testdir, "verif_seed_demo.rs")
        if demo:
            shutil.copy(demo, dst)
            rc, out = sh(f"cargo test --offline -p {pkg_name(wt, pkg)} --test verif_seed_demo 2>&1 | tail -15", cwd=wt)
            confirm["demo_passes_clean"] = "test result: ok" in out
        sh(f"git apply {patch}", cwd=wt)
        if demo:
            rc, out = sh(f"cargo test --offline -p {pkg_name(wt, pkg)} --test verif_seed_demo 2>&1 | tail -15", cwd=wt)
            confirm["demo_fails_with_change"] = (("test result: FAILED" in out) or ("panicked" in out)
                                                or ("could not compile" in out))
            os.remove(dst)
        rc, out = sh("cargo test --workspace --offline 2>&1 | grep -E '^test result|FAILED|failed' | head -40", cwd=wt)
        confirm["suite_passes_with_change"] = ("FAILED" not in out and "failed" not in out.replace("0 failed", ""))
        confirm["suite_tail"] = out[-600:]
        sh("git checkout -- . && git clean -fdq packages", cwd=wt)
    results = {}
    prev_meta = os.path.join(ROOT, "neutral" if a.neutral else "seeded", a.seed_id, "meta.json")
    if a.skip_confirm and os.path.exists(prev_meta):
        pm = json.load(open(prev_meta))
        confirm = pm.get("confirmed_in_scratch_worktree", {})
        results = pm.get("checks_run", {})      # earlier runs are kept, re-run checks are replaced
    if a.isolated:
        # private mount namespace: a scratch worktree with the change applied is bound over /repo and a
        # scratch copy of /verif over /verif, so /repo itself is never touched and several seeded
        # changes can be checked at the same time; paths seen by cargo and the checks are unchanged
        base = f"/tmp/sp/{a.seed_id}"
        sh(f"git -C /repo worktree remove --force {base}/repo; rm -rf {base}; mkdir -p {base}")
        rc, out = sh(f"git -C /repo worktree add --detach {base}/repo HEAD")
        if rc != 0:
            print("cannot create scratch worktree:", out)
            return 2
        rc, out = sh(f"git apply {patch}", cwd=f"{base}/repo")
        if rc != 0:
            print("patch does not apply:", out)
            sh(f"git -C /repo worktree remove --force {base}/repo; rm -rf {base}")
            return 2
        # the COMMITTED machinery (edits in progress in /verif do not leak into the run), plus the
        # harness build cache to save a cold build
        sh(f"mkdir -p {base}/verif && git -C {ROOT} archive HEAD -- . ':!seeded' ':!neutral' | tar -x -C {base}/verif")
        sh(f"rsync -a {ROOT}/harness/target {base}/verif/harness/ 2>/dev/null")
        try:
            for c in checks:
                inner = (f"mount --bind {base}/repo /repo && mount --bind {base}/verif /verif && cd /verif && "
                         f"./check {c} --tier {a.tier}")
                rc, out = sh(f"unshare -m bash -c '{inner}'", timeout=14400)
                vio = [ln for ln in out.splitlines() if ln.startswith("VIOLATION")]
                first = out.splitlines()[out.splitlines().index(vio[0]) + 1][:400] if vio else ""
                results[c] = {"exit": rc, "violations": len(vio), "first": first,
                              "tail": out[-300:] if rc not in (0, 1) else ""}
                print(f"  {a.seed_id} {c}: exit={rc} violations={len(vio)} {first[:160]}")
        finally:
            sh(f"git -C /repo worktree remove --force {base}/repo; rm -rf {base}")
    else:
      # run the checks on /repo with the change applied
      rc, out = sh("git status --porcelain", cwd="/repo")
      if out.strip():
        print("refusing: /repo has uncommitted changes:\n" + out)
        return 2
      rc, out = sh(f"git apply {patch}", cwd="/repo")
      if rc != 0:
        print("patch does not apply to /repo:", out)
        return 2
      try:
        for c in checks:
            rc, out = sh(f"./check {c} --tier {a.tier}", cwd=ROOT, timeout=7200)
            vio = [ln for ln in out.splitlines() if ln.startswith("VIOLATION")]
            first = out.splitlines()[out.splitlines().index(vio[0]) + 1][:400] if vio else ""
            results[c] = {"exit": rc, "violations": len(vio), "first": first,
                          "tail": out[-300:] if rc not in (0, 1) else ""}
            print(f"  {a.seed_id} {c}: exit={rc} violations={len(vio)} {first[:160]}")
      finally:
        sh("git checkout -- .", cwd="/repo")
    dst = os.path.join(ROOT, "neutral" if a.neutral else "seeded", a.seed_id)
    os.makedirs(dst, exist_ok=True)
    if os.path.abspath(patch) != os.path.abspath(os.path.join(dst, "patch.diff")):
        shutil.copy(patch, os.path.join(dst, "patch.diff"))
        if demo:
            shutil.copy(demo, os.path.join(dst, "demo.rs"))
    json.dump({
        "property": prop,
        "summary": meta.get("summary"),
        "needs": meta.get("needs"),
        "kind": "neutral" if a.neutral else "breaking",
        "why_property_still_holds": meta.get("why_property_still_holds"),
        "what_incidental_detail_changes": meta.get("what_incidental_detail_changes"),
        "demo_package": pkg,
        "demo_how": meta.get("demo_how"),
        "confirmed_in_scratch_worktree": confirm,
        "checks_run": {c: {k: v for k, v in r.items() if k != "tail" or v} for c, r in results.items()},
        "caught_by": [c for c, r in results.items() if r["exit"] == 1 and r["violations"] > 0],
        "note": (json.load(open(prev_meta)).get("note") if os.path.exists(prev_meta) else None),
        "how_run": ("isolated: scratch worktree with the change bound over /repo in a private mount namespace"
                    if a.isolated else "git -C /repo apply; ./check; git -C /repo checkout -- ."),
        "tier": a.tier,
    }, open(os.path.join(dst, "meta.json"), "w"), indent=1)
    return 0


def pkg_name(wt, pkg):
    txt = open(os.path.join(wt, pkg, "Cargo.toml")).read()
    return re.search(r'^name\s*=\s*"([^"]+)"', txt, re.M).group(1)


if __name__ == "__main__":
    sys.exit(main())
