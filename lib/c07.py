"""C07 - best, worst and tournament selection apply the intended selection pressure."""
import json
import math
import os
import vlib
import selcheck
import stats

LEVEL = "model_checking"
SELS = {"best", "worst", "tournament"}


def comb(n, k):
    return math.comb(n, k)


def run(ck):
    q = ck.tier == "quick"
    res, cpath = selcheck.mc_selection(ck)
    summ = selcheck.replay_selection(ck, cpath, "pressure", only=SELS, reps=6 if q else 40)
    n1, s1 = selcheck.tv_selection(ck, 4000 if q else 200000, only=SELS, tag="c07")
    laws = [l for l in res.tagged.get("LAW", []) if l["case"]["sel"] == "tournament"]
    N = 60000 if q else 1500000
    rows = selcheck.law_rows(ck, "sel-law", laws, N, "tournament")
    cells = selcheck.check_rows(ck, rows, "tournament-winner",
                                lambda law: f"n{len(law['case']['pop'])}k{law['case']['k']}")
    # every k-subset equally likely: the drawn subset is observed through the comparisons
    for r in rows:
        c = r["law"]["case"]
        n, k = len(c["pop"]), c["k"]
        if k < 2:
            continue
        total = comb(n, k)
        seen = {tuple(s): cnt for s, cnt in r["subsets"]}
        for s in seen:
            if len(s) != k or len(set(s)) != k:
                ck.violation(f"law:tournament-subset:n{n}k{k}:size",
                             f"a tournament of size {k} compared the individuals {s} (not {k} distinct ones)",
                             {"kind": "law", "law": r["law"], "n": r["n"], "subsets": r["subsets"][:20]})
                break
        else:
            counts = list(seen.values()) + [0] * (total - len(seen))
            bad = stats.check_law(counts, r["n"], [1 / total] * total)
            cells += total
            if bad:
                ck.violation(f"law:tournament-subset:n{n}k{k}:nonuniform",
                             f"{k}-subsets of a population of {n} are not drawn uniformly: a subset occurred "
                             f"{bad[0][1]} times out of {r['n']}, expected 1/{total}",
                             {"kind": "law", "law": r["law"], "n": r["n"], "subsets": r["subsets"][:40]})
    ck.cov["evaluations"] = summ["cases"] + n1 + len(rows) * N
    ck.cov["distinct_nontrivial"] = res.ncases
    ck.cov["rule"] = "as C06, restricted to best / worst / tournament; law cases = tournaments on populations with distinct scores (n <= 6, every k)"
    ck.cov["exhaustive"] = True
    ck.cov["samples"] = s1[:1] + [{"law": rows[-1]["law"], "counts": rows[-1]["counts"], "n": rows[-1]["n"]}]
    ck.cov["conformance"].update({"law_configurations": len(rows), "law_cells": cells, "samples_per_configuration": N,
                                  "detectable_deviation_at_p_half": round(stats.detectable(N, 0.5), 4),
                                  "per_cell_alpha": stats.ALPHA})
    ck.cov["checker_cmd"] = ("tlc MC_Selection (Pressure, TournamentExtremes, TournamentLaw); vh sel-replay; "
                             "vh sel-trace + tlc Trace_Selection; vh sel-law vs TLC-derived law")
    ck.assumptions += ["the drawn k-subset is observed through the probe individuals' Ord::cmp calls",
                       "SmallRng is a good uniform source; laws are decided at the stated alpha / deviation"]


def replay(ck, obj):
    if obj["kind"] == "sel-case":
        p = os.path.join(ck.work, "one.ndjson")
        vlib.write_ndjson(p, [obj["case"]])
        selcheck.replay_selection(ck, p, "one", reps=200)
    elif obj["kind"] == "law":
        rows = selcheck.law_rows(ck, "sel-law", [obj["law"]], obj["n"], "one")
        selcheck.check_rows(ck, rows, "tournament-winner", lambda law: "replay")
    else:
        selcheck.replay_trace_one(ck, obj)
