"""Statistical acceptance with an explicit false-alarm budget (DESIGN 3.4).

A cell with specified probability p and observed count k out of n is accepted iff the
Chernoff-KL tail bound  exp(-n * KL(k/n || p))  is at least alpha/2 - i.e. the deviation is
one a correct implementation shows with probability >= alpha (two-sided).  The bound is
conservative (never more false alarms than alpha per cell).  p = 0 requires k = 0 and p = 1
requires k = n exactly (support)."""
import math

ALPHA = 1e-12


def kl(q, p):
    t = 0.0
    if q > 0:
        t += q * math.log(q / p)
    if q < 1:
        t += (1 - q) * math.log((1 - q) / (1 - p))
    return t


def cell_ok(k, n, p, alpha=ALPHA):
    if p <= 0:
        return k == 0
    if p >= 1:
        return k == n
    q = k / n
    return n * kl(q, p) <= math.log(2 / alpha)


def check_law(counts, n, probs, alpha=ALPHA):
    """counts[i] observed for cell i with probability probs[i] (fractions or floats).
    Returns list of (cell, count, expected probability) that are rejected."""
    bad = []
    for i, (k, p) in enumerate(zip(counts, probs)):
        if not cell_ok(k, n, float(p), alpha):
            bad.append((i, k, float(p)))
    return bad


def detectable(n, p, alpha=ALPHA):
    """smallest absolute deviation from p that is rejected at sample size n (for evidence)"""
    lo, hi = 0.0, min(p, 1 - p) if 0 < p < 1 else 0.0
    if hi == 0:
        return 0.0
    for _ in range(60):
        mid = (lo + hi) / 2
        if n * kl(p + mid, p) > math.log(2 / alpha):
            hi = mid
        else:
            lo = mid
    return hi
