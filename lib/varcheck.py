"""Shared pieces of C10 / C11: MC_Variation, replay of its deterministic cases, trace
validation of random real calls against Trace_Variation."""
import json
import os
import vlib


def mc(ck, emit=True):
    q = ck.tier == "quick"
    cfg = "ec/MC_Variation_quick.cfg" if q else "ec/MC_Variation_thorough.cfg"
    cpath = os.path.join(ck.work, "var-cases.ndjson")
    res = ck.tlc_model("ec/MC_Variation", cfg, workers=6 if q else 12, timeout=3000,
                       cases_path=cpath, keep_tags=("SEGS",), xmx="8g" if q else "20g")
    return res, cpath


def sig_case(m):
    c = m["case"]["case"]
    ob = m["observed"]
    return f"replay:{c['op']}:{m.get('form')}:{ob.get('k')}"


def what_case(m):
    c = m["case"]
    return (f"{json.dumps(c['case'])} (form {m.get('form')}): real code gave "
            f"{json.dumps(m['observed'])}, spec allows {json.dumps(c['allowed'])}")


def replay(ck, cpath, tag):
    out = os.path.join(ck.work, f"var-replay-{tag}.ndjson")
    ck.harness(["var-replay", "--cases", cpath, "--out", out])
    res = vlib.read_ndjson(out)
    for m in res[:-1]:
        ck.violation(sig_case(m), what_case(m), {"kind": "var-case", "case": m["case"],
                                                  "form": m.get("form"), "observed": m["observed"]})
    return res[-1]


def sig_trace(ev, prefix):
    op = ev.get("op") or ev.get("case", {}).get("op")
    return f"trace:{ev['ev']}:{op}:{ev.get('form', '')}:{ev['res'].get('k')}"


def what_trace(ev, prefix):
    return f"real call not explainable by any choice of the hidden random decisions: {json.dumps(ev)}"


def tv(ck, kinds, runs):
    raw = os.path.join(ck.work, "var-trace-raw.ndjson")
    ck.harness(["var-trace", "--seed", ck.seed, "--runs", runs, "--out", raw], timeout=1800)
    path = os.path.join(ck.work, "var-trace.ndjson")
    n = 0
    ops = {}
    with open(raw) as f, open(path, "w") as g:
        for ln in f:
            e = json.loads(ln)
            if e["ev"] in kinds:
                g.write(ln)
                n += 1
                op = e.get("op") or e["case"]["op"]
                ops[op] = ops.get(op, 0) + 1
    ck.validate_runs("ec/Trace_Variation", "ec/Trace_Variation.cfg", path, sig_trace, what_trace,
                     regen=lambda ev: {"seed": ck.seed, "run": ev["run"]}, timeout=2400)
    ck.cov["conformance"]["trace_events_by_operator"] = ops
    return n, vlib.read_ndjson(path)[:2]


def replay_one(ck, obj, kinds):
    if obj["kind"] == "var-case":
        p = os.path.join(ck.work, "one.ndjson")
        vlib.write_ndjson(p, [obj["case"]])
        replay(ck, p, "one")
    elif obj["kind"] == "trace":
        r = obj["regen"]
        raw = os.path.join(ck.work, "one-raw.ndjson")
        ck.harness(["var-trace", "--seed", r["seed"], "--runs", 1, "--first-run", r["run"], "--out", raw])
        ck.validate_runs("ec/Trace_Variation", "ec/Trace_Variation.cfg", raw, sig_trace, what_trace)
    else:
        raise vlib.ToolError(f"unknown replay kind {obj['kind']}")
