"""C02 - a failed instruction leaves the machine state untouched and is skipped."""
import vlib
import vmcheck

LEVEL = "model_checking"


def run(ck):
    # every (instruction, boundary state) at which underflow / overflow / an arithmetic fault
    # strikes: the real error must carry a state equal (PushState ==) to the pre-state
    res, summ = vmcheck.mc_step(ck, only_failing=True)
    # interpreter level: FailureIsNoop / RecoverableContinues on the model, replay of behaviours
    rres, rsumm = vmcheck.mc_run(ck)
    stats, instrs = vmcheck.tv(ck, runs_quick=300, runs_thorough=8000)
    ck.cov["evaluations"] = summ["cases"] + rsumm["cases"] + stats["events"]
    ck.cov["distinct_nontrivial"] = summ["cases"] - summ["cuts"]
    ck.cov["rule"] = ("fault points = (instruction, state) cases of MC_PushStep whose allowed "
                      "outcomes include a recoverable or fatal failure; each is distinct and makes "
                      "the real instruction fail")
    ck.cov["exhaustive"] = True
    ck.cov["checker_cmd"] = ("tlc MC_PushStep (FailedUnchanged), MC_PushRun (FailureIsNoop); "
                             "vh vm-step-replay on failing cases; vh vm-trace + tlc Trace_PushVM")
    ck.assumptions += [
        "the state inside the real Err is compared with a clone of the pre-state by PushState's "
        "own == (all stacks, max sizes, stdout, inputs, step limit)",
        "L1 as in C01",
    ]


def replay(ck, obj):
    vmcheck.replay_one(ck, obj)
