"""C16 - all randomness comes from the supplied generator; evaluation is deterministic."""
import json
import os
import vlib

LEVEL = "other"


def sig(ev, prefix):
    return f"trace:functional:{ev.get('op')}:{ev.get('phase')}"


def what(ev, prefix):
    first = next((p for p in prefix if p.get("key") == ev.get("key") and p is not ev), None)
    return (f"two observations of the same (operator, arguments, generator state) differ: first "
            f"{json.dumps(first)[:500]}; then {json.dumps(ev)[:500]}")


def validate(ck, path, regen):
    ck.validate_runs("ec/Trace_Functional", "ec/Trace_Functional.cfg", path, sig, what, regen=regen,
                     timeout=2400, max_rejections=8)


def run(ck):
    q = ck.tier == "quick"
    res = ck.tlc_model("ec/MC_Functional", "ec/MC_Functional.cfg", workers=2, timeout=600)
    p1 = os.path.join(ck.work, "fn-trace.ndjson")
    ck.harness(["fn-trace", "--seed", ck.seed, "--seeds", 80 if q else 1500, "--out", p1], timeout=3000)
    validate(ck, p1, lambda ev: {"cmd": "fn-trace", "seed": ck.seed})
    p2 = os.path.join(ck.work, "fn-push-trace.ndjson")
    ck.harness(["fn-push-trace", "--seed", ck.seed, "--runs", 300 if q else 20000, "--out", p2], timeout=3000)
    validate(ck, p2, lambda ev: {"cmd": "fn-push-trace", "seed": ck.seed, "run": ev.get("run")})
    # evaluation is a function of program, inputs and limits - NOT of how long it takes: runs of up to
    # 2*10^7 steps with a closed-form step count must finish exactly when the limit allows (shared with C03)
    import c03
    ck.cov["conformance"]["counted_long_run_events"] = c03.counted_runs(ck, [12, 22] if q else [12, 20, 22, 23])
    e1, e2 = vlib.read_ndjson(p1), vlib.read_ndjson(p2)
    ops = sorted({e["op"] for e in e1 if e["ev"] == "obs"})
    keys = {e["key"] for e in e1 + e2 if e["ev"] == "obs"}
    ck.cov["explanation"] = (
        "Functional.tla states the stateless-function contract; the binding is differential trace validation: "
        "each of the operators / generators below is called on ONE operator value from equal generator states "
        "(SmallRng and ChaCha StdRng behind a word-counting wrapper) - immediately again, again after an "
        "interleaved history of other calls, and from another thread - and TLC checks that a key "
        "(operator, arguments, generator state) never has two different values (result, words consumed, next "
        "word of the generator). Push programs are run from states whose inputs were declared in six different "
        "orders in six separately built hash maps; all final states and outputs must coincide (agreement with "
        "the PushVM specification itself is C01).")
    ck.cov["evaluations"] = sum(1 for e in e1 + e2 if e["ev"] == "obs")
    ck.cov["distinct_nontrivial"] = len(keys)
    ck.cov["rule"] = "distinct keys = (operator, argument seed, generator kind, generator seed) resp. (push, program)"
    ck.cov["samples"] = [e1[1], e2[1]]
    ck.cov["states"] = res.distinct
    ck.cov["conformance"].update({"operators": ops, "operator_count": len(ops), "push_programs": sum(1 for e in e2 if e["ev"] == "reset")})
    ck.cov["checker_cmd"] = "tlc MC_Functional; vh fn-trace, fn-push-trace + tlc Trace_Functional"
    ck.assumptions += ["a dependence on hidden state shows as two different observations of one key with "
                       "overwhelming probability, not certainty",
                       "results are compared through their Debug rendering"]


def replay(ck, obj):
    if obj.get("regen", {}).get("counted"):
        import c03
        c03.counted_runs(ck, obj["regen"]["depths"], tag="one-counted")
        return
    r = obj["regen"]
    p = os.path.join(ck.work, "one.ndjson")
    if r["cmd"] == "fn-trace":
        ck.harness(["fn-trace", "--seed", r["seed"], "--seeds", 30, "--out", p])
    else:
        ck.harness(["fn-push-trace", "--seed", r["seed"], "--runs", 1, "--first-run", r["run"], "--out", p])
    validate(ck, p, None)
