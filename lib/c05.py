"""C05 - genome-to-program translation is total and structure preserving."""
import json
import os
import vlib

LEVEL = "model_checking"


def shape(prog):
    return "".join("i" if "i" in it else "[" + shape(it["b"]) + "]" for it in prog) \
        if isinstance(prog, list) else "panic"


def sig(m):
    ob = m["observed"]
    if isinstance(ob, dict) and "panic" in ob:
        return "replay:plushy:panic"
    classes = "".join("}" if "c" in g else str(g["o"]) for g in m["case"]["genes"])
    return f"replay:plushy:{classes}"


def what(m):
    return (f"genome {json.dumps(m['case']['genes'])}: real translation {json.dumps(m['observed'])}, "
            f"spec Parse = {json.dumps(m['case']['prog'])}")


def do_replay(ck, path, tag):
    out = os.path.join(ck.work, f"plushy-replay-{tag}.ndjson")
    ck.harness(["plushy-replay", "--cases", path, "--out", out])
    res = vlib.read_ndjson(out)
    for m in res[:-1]:
        ck.violation(sig(m), what(m), {"kind": "plushy-case", "case": m["case"],
                                        "observed": m["observed"]})
    return res[-1]


def sig_trace(ev, prefix):
    if ev.get("ev") == "render":
        return f"trace:plushy:render:len{len(ev['genes'])}"
    if isinstance(ev.get("prog"), dict):
        return "trace:plushy:panic"
    return f"trace:plushy:len{len(ev['genes'])}"


def what_trace(ev, prefix):
    if ev.get("ev") == "render":
        return (f"the printed form of a {len(ev['genes'])}-gene genome is not Render(genome): genes="
                f"{json.dumps(ev['genes'])[:500]} printed tokens={json.dumps(ev['tokens'])[:500]}")
    if ev.get("ev") == "parse_long":
        return (f"real translation of a LONG genome ({len(ev['genes'])} genes) is not the token sequence of its translation "
                f"(Plushy!TokStream): last genes {json.dumps(ev['genes'][-8:])}, {len(ev['tokens'])} tokens in the real program, "
                f"the last ones {json.dumps(ev['tokens'][-10:])}")
    if ev.get("ev") == "parse_flat":
        opens = sum(1 for g in ev["genes"] if g.get("o", 0) > 0)
        return (f"real translation of a deeply nested genome ({len(ev['genes'])} genes, {opens} block openers in a "
                f"row) is not Parse(genome): last genes {json.dumps(ev['genes'][-8:])}, last tokens of the real "
                f"program {json.dumps(ev['tokens'][-14:])}")
    return (f"real translation of a {len(ev['genes'])}-gene genome is not Parse(genome): "
            f"genes={json.dumps(ev['genes'])[:600]} prog={json.dumps(ev['prog'])[:600]}")


def run(ck):
    q = ck.tier == "quick"
    cfg = "plushy/MC_Plushy_quick.cfg" if q else "plushy/MC_Plushy_thorough.cfg"
    cpath = os.path.join(ck.work, "plushy-cases.ndjson")
    res = ck.tlc_model("plushy/MC_Plushy", cfg, workers=6 if q else 12, timeout=3000,
                       cases_path=cpath, keep_tags=("TABLE",), xmx="8g" if q else "20g")
    summ = do_replay(ck, cpath, "mc")
    # table conformance: num_opens() of every instruction the crate lists
    table = res.tagged["TABLE"][0]
    tpath = os.path.join(ck.work, "num-opens.ndjson")
    ck.harness(["num-opens", "--out", tpath])
    rows = vlib.read_ndjson(tpath)
    for r in rows:
        ins = r["ins"]
        if "whole" in r:
            # the instruction's own type (the payload of the enum) contradicts the enum about itself
            ck.violation(f"table:num_opens:{ins['f']}.{ins['o']}",
                         f"{ins['f']}.{ins['o']} says it opens {r['opens']} blocks, the instruction enum says {r['whole']}",
                         {"kind": "num-opens", "ins": ins, "observed": r["opens"], "spec": r["whole"]})
            continue
        want = table.get(ins["o"], 0) if ins["f"] == "exec" else 0
        if r["opens"] != want:
            ck.violation(f"table:num_opens:{ins['f']}.{ins['o']}",
                         f"{ins['f']}.{ins['o']} opens {r['opens']} blocks, documented {want}",
                         {"kind": "num-opens", "ins": ins, "observed": r["opens"], "spec": want})
    # impl -> spec
    runs = 400 if q else 20000
    shards = 1 if q else 8
    for sh in range(shards):
        trace = os.path.join(ck.work, f"plushy-trace-{sh}.ndjson")
        per = runs // shards
        ck.harness(["plushy-trace", "--seed", ck.seed, "--runs", per, "--first-run", sh * per,
                    "--maxlen", 200, "--out", trace])
        ck.validate_runs("plushy/Trace_Plushy", "plushy/Trace_Plushy.cfg", trace, sig_trace,
                         what_trace, regen=lambda ev: {"seed": ck.seed, "run": ev["run"]},
                         timeout=2400)
    first = vlib.read_ndjson(os.path.join(ck.work, "plushy-trace-0.ndjson"))
    ck.cov["evaluations"] = summ["cases"] + runs
    ck.cov["distinct_nontrivial"] = summ["cases"]
    ck.cov["rule"] = ("every gene sequence up to MaxLen over {close, opens-0, opens-1, opens-2} "
                      "(all distinct); plus random genomes of up to 200 genes")
    ck.cov["exhaustive"] = True
    ck.cov["conformance"].update({"replay_cases": summ["cases"], "replay_mismatches": summ["mismatches"],
                                  "num_opens_rows": len(rows),
                                  "max_nesting_in_random_genomes": max(
                                      (shape(e["prog"]).count("[") for e in first if "prog" in e), default=0),
                                  "deeply_nested_genomes": sum(1 for e in first if e["ev"] == "parse_flat"),
                                  "long_genomes_genes": [len(e["genes"]) for e in first if e["ev"] == "parse_long"]})
    ck.cov["samples"] = res.case_samples[:2] + [{"genes": e["genes"][:12], "prog_shape": shape(e["prog"])} for e in first if "prog" in e][:1]
    ck.cov["checker_cmd"] = "tlc MC_Plushy; vh plushy-replay; vh num-opens; vh plushy-trace + tlc Trace_Plushy"
    ck.assumptions += ["instructions that open one block are told apart only by variant (three exist)"]


def replay(ck, obj):
    if obj["kind"] == "plushy-case":
        p = os.path.join(ck.work, "one.ndjson")
        vlib.write_ndjson(p, [obj["case"]])
        do_replay(ck, p, "one")
    elif obj["kind"] == "trace":
        r = obj["regen"]
        trace = os.path.join(ck.work, "one-trace.ndjson")
        ck.harness(["plushy-trace", "--seed", r["seed"], "--runs", 1, "--first-run", r["run"],
                    "--maxlen", 200, "--out", trace])
        ck.validate_runs("plushy/Trace_Plushy", "plushy/Trace_Plushy.cfg", trace, sig_trace, what_trace)
    else:
        ck.harness(["num-opens", "--out", os.path.join(ck.work, "t.ndjson")])
        for r in vlib.read_ndjson(os.path.join(ck.work, "t.ndjson")):
            if r["ins"] == obj["ins"] and r["opens"] != obj["spec"]:
                ck.violation(obj["signature"], obj["what"], obj)
