"""C18 - generators deliver exactly the requested collections and uniform member choices."""
import json
import os
import subprocess
import vlib
import stats

LEVEL = "model_checking"


def sig(m):
    c = m["case"]["case"]
    return f"replay:{c['op']}:{m.get('flavour')}"


def what(m):
    return (f"{json.dumps(m['case']['case'])} in flavour {m.get('flavour')}: real code gave "
            f"{json.dumps(m['observed'])}; spec allows {json.dumps(m['case']['allowed'])[:600]}")


def do_replay(ck, path, tag, reps):
    out = os.path.join(ck.work, f"ch-replay-{tag}.ndjson")
    ck.harness(["ch-replay", "--cases", path, "--out", out, "--reps", reps], timeout=1800)
    res = vlib.read_ndjson(out)
    for m in res[:-1]:
        ck.violation(sig(m), what(m), {"kind": "ch-case", "case": m["case"], "flavour": m.get("flavour"),
                                        "observed": m["observed"]})
    return res[-1]


def sig_t(ev, prefix):
    return f"trace:{ev['ev']}:{ev.get('flavour') or ev.get('kind')}"


def what_t(ev, prefix):
    return f"real use differs from Choices.tla: {json.dumps(ev)[:1200]}"


def tv(ck, runs, first=0, tag="ch"):
    path = os.path.join(ck.work, f"{tag}-trace.ndjson")
    ck.harness(["ch-trace", "--seed", ck.seed, "--runs", runs, "--first-run", first, "--out", path], timeout=1800)
    ck.validate_runs("ec/Trace_Choices", "ec/Trace_Choices.cfg", path, sig_t, what_t,
                     regen=lambda ev: {"seed": ck.seed, "run": ev["run"]}, timeout=2400)
    return vlib.read_ndjson(path)


def sizes(ck):
    """every size 0..600 + large ones through every sized constructor, validated by TLC (SizedEv)"""
    path = os.path.join(ck.work, "ch-sizes.ndjson")
    ck.harness(["ch-sizes", "--seed", ck.seed, "--out", path], timeout=1800)
    ck.validate_runs("ec/Trace_Choices", "ec/Trace_Choices.cfg", path,
                     lambda ev, prefix: f"trace:sized:{ev.get('kind')}",
                     lambda ev, prefix: ((f"bits {ev.get('at')} of {ev.get('size')}-bit random bitstrings took only "
                                          f"{ev.get('fewest_pairs')} of the 4 possible value pairs in {ev.get('draws')} draws: they are "
                                          f"not separate draws") if ev.get("ev") == "bits_free" else
                                         (f"{ev.get('kind')} asked for {ev.get('size')} elements delivered "
                                          f"{ev.get('len')} (drew {ev.get('drawn')}): {json.dumps(ev)[:400]}")),
                     regen=lambda ev: {"sizes": True}, timeout=2400)
    return vlib.read_ndjson(path)


def huge(ck):
    """collections of 2^32 and more members in every flavour that can hold them (zero-sized members);
    thorough: a 2^32+3-byte collection sampled, top byte of the chosen position uniform over 256"""
    path = os.path.join(ck.work, "ch-huge.ndjson")
    args = ["ch-huge", "--seed", ck.seed, "--out", path] + ([] if ck.tier == "quick" else ["--bytes"])
    ck.harness(args, timeout=3000)
    evs = vlib.read_ndjson(path)
    laws = [e for e in evs if e["ev"] == "huge_law"]
    vlib.write_ndjson(path, [e for e in evs if e["ev"] == "huge"])
    ck.validate_runs("ec/Trace_Choices", "ec/Trace_Choices.cfg", path,
                     lambda ev, prefix: f"trace:huge:{ev.get('flavour')}:{ev.get('b', {}).get('k')}",
                     lambda ev, prefix: (f"a collection of {ev.get('len')} members in flavour {ev.get('flavour')} was not built with "
                                         f"its true number of members: {json.dumps(ev.get('b'))}"),
                     regen=lambda ev: {"huge": True}, timeout=1200)
    for e in laws:
        if e.get("panic"):
            ck.violation(f"law:huge:{e['flavour']}:panic", f"sampling a {e['len']}-member collection panicked: {e['panic']}",
                         {"kind": "huge", "row": e})
            continue
        bad = stats.check_law(e["counts"], e["n"], [1 / 256] * 256)
        if bad:
            ck.violation(f"law:huge:{e['flavour']}",
                         f"members of a {e['len']}-member collection are not chosen uniformly: positions with top byte "
                         f"{bad[0][0]} were drawn {bad[0][1]} times out of {e['n']} (expected 1/256)", {"kind": "huge", "row": e})
    return len(evs)


def empty_arrays(ck):
    """zero-length arrays in every conversion flavour: separate target, so that a compile-time
    rejection is attributable to C18 instead of breaking the harness"""
    env = dict(os.environ)
    env["CARGO_NET_OFFLINE"] = "true"
    p = subprocess.run(["cargo", "build", "--offline", "--bin", "vh-empty"], cwd=vlib.HARNESS, env=env,
                       stdout=subprocess.PIPE, stderr=subprocess.STDOUT, text=True, timeout=1800)
    if p.returncode != 0:
        if "vh_empty.rs" in p.stdout:
            errs = [ln for ln in p.stdout.splitlines() if ln.startswith("error")][:4]
            ck.violation("compile:empty-array-conversion",
                         "building a uniform choice from an EMPTY array no longer compiles (it must be rejected "
                         "with an error value when built): " + " | ".join(errs),
                         {"kind": "empty-arrays", "rustc": p.stdout[-3000:]})
            return []
        raise vlib.ToolError("vh-empty does not build:\n" + p.stdout[-2000:])
    r = subprocess.run([os.path.join(vlib.HARNESS, "target", "debug", "vh-empty")], stdout=subprocess.PIPE,
                       stderr=subprocess.PIPE, text=True, timeout=120)
    rows = [json.loads(ln) for ln in r.stdout.splitlines() if ln.startswith("{")]
    if r.returncode != 0 or len(rows) != 5:
        raise vlib.ToolError(f"vh-empty exited {r.returncode}: {r.stderr[-800:]}")
    for row in rows:
        if row["outcome"] != "error_value":
            ck.violation(f"replay:empty-array:{row['flavour']}:{row['outcome']}",
                         f"an empty array in flavour {row['flavour']} was {row['outcome']} instead of rejected "
                         f"with an error value", {"kind": "empty-arrays", "row": row})
    return rows


def law(ck, n):
    out = os.path.join(ck.work, "ch-law.ndjson")
    ck.harness(["ch-law", "--n", n, "--seed", ck.seed, "--out", out], timeout=3000)
    rows = vlib.read_ndjson(out)
    cells = 0
    for r in rows:
        k = r["len"]
        if r["other"]:
            ck.violation(f"law:choice:{r['flavour']}:n{k}:non-member",
                         f"{r['other']} of {r['n']} samples were no member of the collection ({r['flavour']}, n={k})",
                         {"kind": "law", "n": n, "row": r})
        bad = stats.check_law(r["counts"], r["n"], [1 / k] * k)
        cells += k
        if bad:
            ck.violation(f"law:choice:{r['flavour']}:n{k}",
                         f"members are not chosen uniformly ({r['flavour']}, {k} members): position "
                         f"{bad[0][0] + 1} was drawn {bad[0][1]} times out of {r['n']}, expected 1/{k}",
                         {"kind": "law", "n": n, "row": r})
    return rows, cells


def run(ck):
    q = ck.tier == "quick"
    cfg = "ec/MC_Choices_quick.cfg" if q else "ec/MC_Choices_thorough.cfg"
    cpath = os.path.join(ck.work, "ch-cases.ndjson")
    res = ck.tlc_model("ec/MC_Choices", cfg, workers=4, cases_path=cpath, timeout=1800)
    summ = do_replay(ck, cpath, "mc", 40 if q else 400)
    evs = tv(ck, 2000 if q else 100000)
    sz = sizes(ck)
    ea = empty_arrays(ck)
    hg = huge(ck)
    N = 60000 if q else 2000000
    rows, cells = law(ck, N)
    ck.cov["conformance"].update({"size_sweep_events": len(sz), "empty_array_flavours": len(ea),
                                  "huge_collection_events": hg})
    ck.cov["evaluations"] = summ["cases"] + len(evs) + len(sz) + len(rows) * N
    ck.cov["distinct_nontrivial"] = summ["cases"]
    ck.cov["rule"] = ("every collection of 0..MaxLen members over two values (duplicates) x 17 conversion "
                      "flavours; every pair of consecutive collection sizes 0..MaxSize x 6 collectors (Vec via "
                      "new / into_ / to_collection_generator, Bitstring, Plushy, nested population)")
    ck.cov["exhaustive"] = True
    ck.cov["samples"] = res.case_samples[:2] + evs[:1] + rows[:1]
    ck.cov["conformance"].update({"replay_evaluations": summ["cases"], "replay_mismatches": summ["mismatches"],
                                  "law_rows": len(rows), "law_cells": cells, "samples_per_row": N,
                                  "detectable_deviation_at_p_half": round(stats.detectable(N, 0.5), 4)})
    ck.cov["checker_cmd"] = ("tlc MC_Choices (EmptyRejectedAtBuild Membership NumChoicesExact AllMembersReachable "
                             "ExactSize); vh ch-replay; vh ch-trace + tlc Trace_Choices; vh ch-law")
    ck.assumptions += ["borrowing flavours: the sample is located by address in the source collection; cloning "
                       "flavours: elements carry a position tag"]


def replay(ck, obj):
    if obj["kind"] == "ch-case":
        p = os.path.join(ck.work, "one.ndjson")
        vlib.write_ndjson(p, [obj["case"]])
        do_replay(ck, p, "one", 400)
    elif obj["kind"] == "law":
        law(ck, obj["n"])
    elif obj["kind"] == "empty-arrays":
        empty_arrays(ck)
    elif obj["kind"] == "huge" or obj.get("regen", {}).get("huge"):
        huge(ck)
    elif obj.get("regen", {}).get("sizes"):
        sizes(ck)
    else:
        tv(ck, 1, first=obj["regen"]["run"], tag="one")
