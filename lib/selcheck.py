"""Shared pieces of C06 / C07 / C08 / C13: MC_Selection / MC_Weighted, support replay,
trace validation, and comparison of TLC-derived laws with empirical frequencies."""
import json
import os
import vlib
import stats


def mc_selection(ck):
    q = ck.tier == "quick"
    cfg = "ec/MC_Selection_quick.cfg" if q else "ec/MC_Selection_thorough.cfg"
    cpath = os.path.join(ck.work, "sel-cases.ndjson")
    res = ck.tlc_model("ec/MC_Selection", cfg, workers=6 if q else 12, timeout=3000,
                       cases_path=cpath, keep_tags=("LAW",), xmx="8g" if q else "24g")
    return res, cpath


def sig_sel(m):
    c = m["case"]["case"]
    return f"replay:{c['sel']}:{m.get('container')}:{m['observed'].get('k')}"


def what_sel(m):
    c = m["case"]
    return (f"selector config {json.dumps(c['case'])} on a {m.get('container')}: real selection gave "
            f"{json.dumps(m['observed'])}; spec allows {json.dumps(c['allowed'])}")


def replay_selection(ck, cpath, tag, only=None, reps=8):
    src = cpath
    if only:
        src = os.path.join(ck.work, f"sel-cases-{tag}.ndjson")
        with open(cpath) as f, open(src, "w") as g:
            for ln in f:
                if json.loads(ln)["case"]["sel"] in only:
                    g.write(ln)
    out = os.path.join(ck.work, f"sel-replay-{tag}.ndjson")
    ck.harness(["sel-replay", "--cases", src, "--out", out, "--reps", reps, "--seed", ck.seed], timeout=1800)
    res = vlib.read_ndjson(out)
    for m in res[:-1]:
        ck.violation(sig_sel(m), what_sel(m), {"kind": "sel-case", "case": m["case"],
                                                "container": m.get("container"), "observed": m["observed"]})
    return res[-1]


def sig_trace(ev, prefix):
    if ev["ev"] == "dyn":
        return f"trace:dyn:{ev['res'].get('k')}:overflow={ev.get('overflow')}"
    if ev["ev"] == "nested":
        return f"trace:nested:{ev['res'].get('k')}:erased={ev.get('erased')}"
    c = ev["case"]
    return f"trace:{c['sel']}:{ev.get('container')}:{ev['res'].get('k')}"


def what_trace(ev, prefix):
    return f"real selection not explainable by Selection.tla: {json.dumps(ev)[:1800]}"


def tv_selection(ck, runs, only=None, tag="sel"):
    raw = os.path.join(ck.work, f"{tag}-trace-raw.ndjson")
    ck.harness(["sel-trace", "--seed", ck.seed, "--runs", runs, "--out", raw], timeout=1800)
    path = raw
    if only:
        path = os.path.join(ck.work, f"{tag}-trace.ndjson")
        with open(raw) as f, open(path, "w") as g:
            for ln in f:
                if json.loads(ln)["case"]["sel"] in only:
                    g.write(ln)
    ck.validate_runs("ec/Trace_Selection", "ec/Trace_Selection.cfg", path, sig_trace, what_trace,
                     regen=lambda ev: {"cmd": "sel-trace", "seed": ck.seed, "run": ev["run"]}, timeout=2400)
    evs = vlib.read_ndjson(path)
    return len(evs), evs[:2]


def tv_nested(ck, runs):
    path = os.path.join(ck.work, "nested-trace.ndjson")
    ck.harness(["wt-nested-trace", "--seed", ck.seed, "--runs", runs, "--out", path], timeout=1800)
    ck.validate_runs("ec/Trace_Selection", "ec/Trace_Selection.cfg", path, sig_trace, what_trace,
                     regen=lambda ev: {"cmd": "wt-nested-trace", "seed": ck.seed, "run": ev["run"]}, timeout=2400)
    evs = vlib.read_ndjson(path)
    return len(evs), evs[:1]


def replay_trace_one(ck, obj):
    r = obj["regen"]
    path = os.path.join(ck.work, "one-trace.ndjson")
    ck.harness([r["cmd"], "--seed", r["seed"], "--runs", 1, "--first-run", r["run"], "--out", path])
    ck.validate_runs("ec/Trace_Selection", "ec/Trace_Selection.cfg", path, sig_trace, what_trace)


def law_rows(ck, cmd, laws, n, tag):
    lp = os.path.join(ck.work, f"laws-{tag}.ndjson")
    vlib.write_ndjson(lp, laws)
    out = os.path.join(ck.work, f"law-counts-{tag}.ndjson")
    ck.harness([cmd, "--cases", lp, "--n", n, "--seed", ck.seed, "--out", out], timeout=3000)
    return vlib.read_ndjson(out)


def check_rows(ck, rows, label, name_of):
    """winner / member frequencies against num/den"""
    cells = 0
    for r in rows:
        law = r["law"]
        n = r["n"]
        probs = [x / law["den"] for x in law["num"]]
        if r["other"]:
            ck.violation(f"law:{label}:{name_of(law)}:non-member-results",
                         f"{r['other']} of {n} selections did not return a member for {json.dumps(law['case'])}",
                         {"kind": "law", "law": law, "n": n, "row": r})
        bad = stats.check_law(r["counts"], n, probs)
        cells += len(probs)
        if bad:
            i, k, p = bad[0]
            ck.violation(f"law:{label}:{name_of(law)}:cell{i + 1}",
                         f"{json.dumps(law['case'])}: member {i + 1} was chosen {k} times out of {n} "
                         f"({k / n:.4f}); the specification gives {law['num'][i]}/{law['den']} = {p:.4f} "
                         f"(rejected at per-cell alpha {stats.ALPHA})",
                         {"kind": "law", "law": law, "n": n, "counts": r["counts"]})
    return cells
