"""C13 - weighted selector combinations choose members in proportion to their weights."""
import hashlib
import json
import os
import vlib
import selcheck
import stats

LEVEL = "model_checking"


def sig(m):
    c = m["case"]["case"]
    return f"replay:{c['op']}:{m['observed'].get('k')}"


def what(m):
    return (f"{json.dumps(m['case']['case'])}: real code gave {json.dumps(m['observed'])}; spec allows "
            f"{json.dumps(m['case']['allowed'])}")


def do_replay(ck, path, tag, reps):
    out = os.path.join(ck.work, f"wt-replay-{tag}.ndjson")
    ck.harness(["wt-replay", "--cases", path, "--out", out, "--reps", reps, "--seed", ck.seed], timeout=1800)
    res = vlib.read_ndjson(out)
    for m in res[:-1]:
        ck.violation(sig(m), what(m), {"kind": "wt-case", "case": m["case"], "observed": m["observed"]})
    return res[-1]


def run(ck):
    q = ck.tier == "quick"
    cfg = "ec/MC_Weighted_quick.cfg" if q else "ec/MC_Weighted_thorough.cfg"
    cpath = os.path.join(ck.work, "wt-cases.ndjson")
    res = ck.tlc_model("ec/MC_Weighted", cfg, workers=6 if q else 12, timeout=3000, cases_path=cpath,
                       keep_tags=("LAW",), xmx="8g" if q else "20g")
    summ = do_replay(ck, cpath, "mc", 30 if q else 400)
    laws = res.tagged.get("LAW", [])
    # statistical comparison on the laws where at least two members have positive weight
    laws = [l for l in laws if sum(1 for x in l["num"] if x > 0) >= 2]
    laws.sort(key=lambda l: hashlib.md5(json.dumps(l, sort_keys=True).encode()).hexdigest())
    laws = laws[:60 if q else 1200]
    # the same laws with every weight scaled up so that the total sits just below / far below 2^32
    # (ScaleInvariant: only ratios matter) - arithmetic at the 32-bit boundary
    def total(law):
        c = law["case"]
        if c["op"] == "select":
            def w(t):
                return t["w"] if t["t"] == "leaf" else w(t["a"]) + w(t["b"])
            return w(c["tree"])
        return sum(c["ws"])
    scaled = []
    for i, l in enumerate(laws[:24 if q else 300]):
        tot = total(l)
        big = (2 ** 32 - 1) // tot                  # the largest factor for which the sum still fits
        for sc in ((big, 2 ** 29) if i % 2 == 0 else (2 ** 30 // tot * 1 or 1, big - 1)):
            if sc >= 1 and (l["case"]["op"] != "select" or tot * sc <= 2 ** 32 - 1):
                scaled.append(dict(l, scale=sc))
    laws = laws + scaled
    N = 60000 if q else 1000000
    rows = selcheck.law_rows(ck, "wt-law", laws, N, "weighted")
    cells = selcheck.check_rows(ck, rows, "weighted",
                                lambda law: "t" + hashlib.md5(json.dumps(law["case"], sort_keys=True).encode()).hexdigest()[:8])
    ck.cov["evaluations"] = summ["cases"] + len(rows) * N
    ck.cov["distinct_nontrivial"] = res.ncases
    ck.cov["rule"] = ("every binary tree shape with up to MaxLeaves leaves x weights {0,1,2,3} per leaf, every "
                      "dynamic list, every construction sequence over {0,1,MAX-1,MAX} of length <= 4")
    ck.cov["exhaustive"] = True
    ck.cov["samples"] = res.case_samples[:2] + [{"law": rows[0]["law"], "counts": rows[0]["counts"], "n": N}]
    ck.cov["conformance"].update({"replay_evaluations": summ["cases"], "replay_mismatches": summ["mismatches"],
                                  "law_configurations": len(rows), "law_cells": cells,
                                  "samples_per_configuration": N,
                                  "detectable_deviation_at_p_half": round(stats.detectable(N, 0.5), 4),
                                  "per_cell_alpha": stats.ALPHA})
    ck.cov["checker_cmd"] = ("tlc MC_Weighted (ExactlyOneMember ZeroNeverUsed AllZeroIsError Proportional "
                             "OverflowAtBuild); vh wt-replay; vh wt-law vs TLC-derived law")
    ck.assumptions += ["tree shapes are built as a carrier enum around the real WeightedPair; chains also "
                       "through the real WithWeightedItem API",
                       "construction weights near u32::MAX are modelled as values near WMax = 100"]


def replay(ck, obj):
    if obj["kind"] == "wt-case":
        p = os.path.join(ck.work, "one.ndjson")
        vlib.write_ndjson(p, [obj["case"]])
        do_replay(ck, p, "one", 400)
    else:
        rows = selcheck.law_rows(ck, "wt-law", [obj["law"]], obj["n"], "one")
        selcheck.check_rows(ck, rows, "weighted", lambda law: "replay")
