#!/usr/bin/env python3
"""automut.py gen | test [--lanes N] | check [--jobs N] | report

Systematic small mutants (classical mutation operators: relational / arithmetic / boolean operator
swaps, off-by-one constants, min<->max, checked<->wrapping/saturating, dropped `.rev()`, ...) of
the files each property is anchored in - the complement of the sub-agents' hand-written changes.

  gen    candidates from properties.jsonl anchors (test modules, comments and attributes are skipped)
  test   in N scratch worktrees under /tmp/am (never /repo): apply one candidate, run the
         repository's whole test suite; keep the candidates that still compile AND pass it
  check  run the property's own quick check on every surviving candidate (isolated: a scratch
         worktree bound over /repo in a private mount namespace, the COMMITTED /verif)
  report summary; survivors the check did not catch need a human look (many are equivalent)

State lives in /tmp/am (candidates, survivors); results are written to /verif/automut/results.json.
"""
import argparse
import concurrent.futures as cf
import hashlib
import json
import os
import random
import re
import subprocess
import sys

ROOT = os.path.dirname(os.path.dirname(os.path.abspath(__file__)))
AM = "/tmp/am"

RULES = [
    (r" <= ", " < "), (r" < ", " <= "), (r" >= ", " > "), (r" > ", " >= "),
    (r" == ", " != "), (r" != ", " == "),
    (r" && ", " || "), (r" \|\| ", " && "),
    (r" \+ 1\b", " + 0"), (r" - 1\b", " - 0"), (r" \+ 1\b", " + 2"),
    (r" \+ ", " - "), (r" - ", " + "), (r" \* ", " + "),
    (r"\.min\(", ".max("), (r"\.max\(", ".min("),
    (r"checked_add", "wrapping_add"), (r"checked_sub", "wrapping_sub"), (r"checked_mul", "wrapping_mul"),
    (r"saturating_add", "wrapping_add"), (r"saturating_sub", "wrapping_sub"),
    (r"\.rev\(\)", ""), (r"\.reverse\(\)", ""), (r"\.is_empty\(\)", ".is_empty() == false"),
    (r"\btrue\b", "false"), (r"\bfalse\b", "true"),
    (r"\b0\b", "1"), (r"\b1\b", "0"), (r"\b1\b", "2"), (r"\b2\b", "1"), (r"\b2\b", "3"),
    (r"\.first\(\)", ".last()"), (r"\.last\(\)", ".first()"),
    (r"\.pop\(\)\?", ".pop()?; let _ = 0"),   # placeholder, usually does not compile: filtered by `test`
    (r"Ordering::Less", "Ordering::Greater"), (r"Ordering::Greater", "Ordering::Less"),
    (r"\.lt\(", ".le("), (r"\.gt\(", ".ge("), (r"\.le\(", ".lt("), (r"\.ge\(", ".gt("),
    (r"\.any\(", ".all("), (r"\.all\(", ".any("),
    (r"unwrap_or\(0\)", "unwrap_or(1)"), (r"\.then\(", ".then_some(()).and_then(|()| None::<()>).or(Some(())).map(|()| "),
    (r"\.skip\(1\)", ".skip(0)"), (r"\.take\(", ".take(1 + "),
    (r"Some\(1\)", "Some(0)"), (r"Some\(0\)", "Some(1)"),
    (r"\.max_stack_size", ".max_stack_size.saturating_add(1)"),
    (r"usize::MAX", "usize::MAX - 1"), (r"i64::MAX", "i64::MAX - 1"), (r"i64::MIN", "i64::MIN + 1"),
]


def sh(cmd, cwd=None, timeout=3600):
    import signal
    p = subprocess.Popen(cmd, shell=True, cwd=cwd, stdout=subprocess.PIPE, stderr=subprocess.STDOUT, text=True, start_new_session=True)
    try:
        out, _ = p.communicate(timeout=timeout)
        return p.returncode, out
    except subprocess.TimeoutExpired:
        # the whole process group: a mutant can make rustc (a proc macro) or a test spin forever
        try:
            os.killpg(p.pid, signal.SIGKILL)
        except OSError:
            pass
        p.communicate()
        return 124, "timeout"


def code_lines(path):
    """(line number, text) of lines outside test modules, comments, attributes, doc strings"""
    out = []
    in_tests = False
    for n, ln in enumerate(open(path).read().split("\n"), 1):
        st = ln.strip()
        if st.startswith("#[cfg(test)]") or st.startswith("mod test") or st.startswith("mod tests"):
            in_tests = True
        if in_tests:
            continue
        if not st or st.startswith("//") or st.startswith("#[") or st.startswith("#!") or st.startswith("use ") or st.startswith("///"):
            continue
        if "unhindered_ec_verif" in ln:
            continue
        out.append((n, ln))
    return out


def gen(a):
    os.makedirs(AM, exist_ok=True)
    props = [json.loads(x) for x in open(os.path.join(ROOT, "properties.jsonl"))]
    rng = random.Random(a.seed)
    anchored = {}
    for p in props:
        for f in p["anchors"]["files"]:
            if os.path.isfile(os.path.join("/repo", f)) and "verif_alt_state" not in f:
                anchored.setdefault(f, []).append(p["id"])
    cands = []
    for f in sorted(anchored):
        mine = []
        seen = set()
        for n, ln in code_lines(os.path.join("/repo", f)):
            code = ln.split("//")[0]
            st = code.strip()
            if st.startswith("*") or st.startswith("/*") or st.startswith("help =") or st.startswith("reason ="):
                continue
            typey = bool(re.search(r"\b(impl|where|dyn|fn|type|struct|enum|trait|pub use)\b", code)) or st.endswith(":") or ": " in st and st.endswith(",") and "(" not in st
            # structural mutants: a dropped statement, a negated condition, two swapped arguments
            if a.structural and not typey:
                st2 = code.rstrip()
                extra = []
                if re.match(r"^\s*(self|state|stack|genome|rng|[a-z_]+)\.[\w\.:<>]+\([^;{}]*\)\??;\s*$", st2) and "let " not in st2 and "return" not in st2:
                    extra.append((re.sub(r"\S.*$", "", code) + "{}", "drop statement"))
                m = re.match(r"^(\s*(?:\} else )?if )(?!let )(.+) \{\s*$", st2)
                if m:
                    extra.append((f"{m.group(1)}!({m.group(2)}) {{", "negate condition"))
                for m in re.finditer(r"\((\w+), (\w+)\)", code):
                    if m.group(1) != m.group(2) and code[:m.start()].count('"') % 2 == 0 and not re.search(r"\|\s*$", code[:m.start()]):
                        extra.append((code[:m.start()] + f"({m.group(2)}, {m.group(1)})" + code[m.end():], "swap arguments"))
                for new, rule in extra:
                    new = new + ln[len(code):]
                    if new != ln and (n, new) not in seen:
                        seen.add((n, new))
                        mine.append({"properties": anchored[f], "file": f, "line": n, "old": ln, "new": new, "rule": rule})
                continue
            for pat, rep in RULES:
                if typey and pat in (r" \+ ", r" - ", r" \* ", r" < ", r" > ", r" <= ", r" >= "):
                    continue
                for m in re.finditer(pat, code):
                    if code[:m.start()].count('"') % 2 == 1:
                        continue
                    new = code[:m.start()] + re.sub(pat, rep, code[m.start():m.end()], count=1) + code[m.end():] + ln[len(code):]
                    if new == ln or (n, new) in seen:
                        continue
                    seen.add((n, new))
                    mine.append({"properties": anchored[f], "file": f, "line": n, "old": ln, "new": new, "rule": f"{pat} -> {rep}"})
        rng.shuffle(mine)
        chosen = mine[:a.per_file]
        cands += chosen
        print(f, "anchoring", anchored[f], "candidates", len(mine), "chosen", len(chosen))
    old = json.load(open(f"{AM}/cands.json")) if a.append and os.path.exists(f"{AM}/cands.json") else []
    have = {(c["file"], c["line"], c["new"]) for c in old}
    cands = [c for c in cands if (c["file"], c["line"], c["new"]) not in have]
    for k, c in enumerate(cands):
        c["id"] = f"{a.prefix}{k:04d}"
        c["property"] = c["properties"][0]
    cands = old + cands
    json.dump(cands, open(f"{AM}/cands.json", "w"), indent=0)
    print(len(cands), "candidates ->", f"{AM}/cands.json")


def lane_dir(k):
    return f"{AM}/wt{k}"


def test_one(c, k):
    wt = lane_dir(k)
    path = os.path.join(wt, c["file"])
    src = open(path).read().split("\n")
    if src[c["line"] - 1] != c["old"]:
        return c["id"], "stale", ""
    src[c["line"] - 1] = c["new"]
    open(path, "w").write("\n".join(src))
    try:
        rc, out = sh("cargo test --workspace --offline 2>&1 | grep -E '^test result|FAILED|failed|^error|could not compile' | head -30", cwd=wt, timeout=1500)
        if "could not compile" in out or "error" in out.split("test result")[0]:
            verdict = "no-compile"
        elif "FAILED" in out or re.search(r"[1-9]\d* failed", out):
            verdict = "killed-by-tests"
        elif out.count("test result: ok") >= 8:
            verdict = "survives-tests"
        else:
            verdict = "unclear"
        patch = ""
        if verdict == "survives-tests":
            _, patch = sh("git diff", cwd=wt)
        return c["id"], verdict, patch
    finally:
        sh("git checkout -- .", cwd=wt)


def test(a):
    cands = json.load(open(f"{AM}/cands.json"))
    done_path = f"{AM}/tested.json"
    done = json.load(open(done_path)) if os.path.exists(done_path) else {}
    for k in range(a.lanes):
        if not os.path.isdir(lane_dir(k)):
            rc, out = sh(f"git -C /repo worktree add --detach {lane_dir(k)} HEAD")
            print(out[-200:])
            sh("cargo test --workspace --offline --no-run 2>&1 | tail -1", cwd=lane_dir(k), timeout=3000)
    todo = [c for c in cands if c["id"] not in done]
    if a.limit:
        todo = todo[:a.limit]
    import queue
    lanes = queue.Queue()
    for k in range(a.lanes):
        lanes.put(k)

    def work(c):
        k = lanes.get()
        try:
            return c, test_one(c, k)
        finally:
            lanes.put(k)
    with cf.ThreadPoolExecutor(a.lanes) as ex:
        for c, (cid, verdict, patch) in ex.map(work, todo):
            done[cid] = verdict
            print(cid, verdict, c["file"].split("/")[-1], c["line"], c["rule"], flush=True)
            if verdict == "survives-tests":
                d = f"{AM}/surv/{cid}"
                os.makedirs(d, exist_ok=True)
                open(f"{d}/patch.diff", "w").write(patch)
                json.dump(c, open(f"{d}/meta.json", "w"), indent=1)
            json.dump(done, open(done_path, "w"))
    from collections import Counter
    print(Counter(done.values()))


def check_one(cid, tier):
    d = f"{AM}/surv/{cid}"
    c = json.load(open(f"{d}/meta.json"))
    base = f"/tmp/sp/{cid}"
    sh(f"git -C /repo worktree remove --force {base}/repo; rm -rf {base}; mkdir -p {base}")
    rc, out = sh(f"git -C /repo worktree add --detach {base}/repo HEAD")
    if rc != 0:
        return cid, {"exit": 2, "first": "worktree: " + out[-200:]}
    try:
        rc, out = sh(f"git apply {d}/patch.diff", cwd=f"{base}/repo")
        if rc != 0:
            return cid, {"exit": 2, "first": "apply: " + out[-200:]}
        sh(f"mkdir -p {base}/verif && git -C {ROOT} archive HEAD -- . ':!seeded' ':!neutral' ':!automut' | tar -x -C {base}/verif")
        sh(f"rsync -a {ROOT}/harness/target {base}/verif/harness/ 2>/dev/null")
        per = {}
        best = {"exit": 0, "first": ""}
        for prop in c["properties"]:
            inner = (f"mount --bind {base}/repo /repo && mount --bind {base}/verif /verif && cd /verif && ./check {prop} --tier {tier}")
            rc, out = sh(f"unshare -m bash -c '{inner}'", timeout=7200)
            vio = [ln for ln in out.splitlines() if ln.startswith("VIOLATION")]
            lines = out.splitlines()
            first = lines[lines.index(vio[0]) + 1][:300] if vio and lines.index(vio[0]) + 1 < len(lines) else ""
            per[prop] = rc
            if rc == 1 and best["exit"] != 1:
                best = {"exit": 1, "first": f"[{prop}] " + first}
            elif rc not in (0, 1) and best["exit"] == 0:
                best = {"exit": rc, "first": out[-300:]}
        best["per_property"] = per
        return cid, best
    finally:
        sh(f"git -C /repo worktree remove --force {base}/repo; rm -rf {base}")


def check(a):
    os.makedirs(os.path.join(ROOT, "automut"), exist_ok=True)
    res_path = os.path.join(ROOT, "automut", "results.json")
    res = json.load(open(res_path)) if os.path.exists(res_path) else {}
    ids = sorted(os.listdir(f"{AM}/surv")) if os.path.isdir(f"{AM}/surv") else []
    todo = [i for i in ids if i not in res or a.redo and res[i]["check"].get("exit") != 1]
    with cf.ThreadPoolExecutor(a.jobs) as ex:
        for cid, r in ex.map(lambda i: check_one(i, a.tier), todo):
            c = json.load(open(f"{AM}/surv/{cid}/meta.json"))
            prev = res.get(cid, {})
            res[cid] = {"properties": c["properties"], "file": c["file"], "line": c["line"], "old": c["old"].strip(), "new": c["new"].strip(),
                        "rule": c["rule"], "check": r, "triage": prev.get("triage")}
            print(cid, c["file"].split("/")[-1], c["line"], "exit", r.get("exit"), r.get("first", "")[:120], flush=True)
            json.dump(res, open(res_path, "w"), indent=1, sort_keys=True)


def report(a):
    res = json.load(open(os.path.join(ROOT, "automut", "results.json")))
    tpath = os.path.join(ROOT, "automut", "triage.json")
    for k, v in (json.load(open(tpath)) if os.path.exists(tpath) else {}).items():
        if k in res:
            res[k]["triage"] = v
    tested = json.load(open(f"{AM}/tested.json")) if os.path.exists(f"{AM}/tested.json") else {}
    from collections import Counter
    print("tested:", Counter(tested.values()))
    print("survivors checked:", len(res), " caught:", sum(1 for r in res.values() if r["check"].get("exit") == 1))
    for cid, r in sorted(res.items()):
        if r["check"].get("exit") != 1:
            print(f"  NOT CAUGHT {cid} {r['file']}:{r['line']} [{r['rule']}] exit={r['check'].get('exit')} triage={r.get('triage')}\n      - {r['old']}\n      + {r['new']}")


def main():
    ap = argparse.ArgumentParser()
    ap.add_argument("cmd", choices=["gen", "test", "check", "report"])
    ap.add_argument("--lanes", type=int, default=4)
    ap.add_argument("--jobs", type=int, default=3)
    ap.add_argument("--per-prop", type=int, default=40)
    ap.add_argument("--per-file", type=int, default=6)
    ap.add_argument("--seed", type=int, default=1)
    ap.add_argument("--limit", type=int, default=0)
    ap.add_argument("--tier", default="quick")
    ap.add_argument("--redo", action="store_true")
    ap.add_argument("--append", action="store_true")
    ap.add_argument("--structural", action="store_true", help="dropped statements / negated conditions / swapped arguments instead of the token rules")
    ap.add_argument("--prefix", default="a")
    a = ap.parse_args()
    {"gen": gen, "test": test, "check": check, "report": report}[a.cmd](a)


if __name__ == "__main__":
    sys.exit(main())
