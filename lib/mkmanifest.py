#!/usr/bin/env python3
"""Regenerates /verif/MANIFEST.json from the table below (single source of truth)."""
import json
import os

ROOT = os.path.dirname(os.path.dirname(os.path.abspath(__file__)))

CHECKS = {
    "C01": dict(
        cat="model_checking", ref="DESIGN.md §4 C01",
        technique="TLA+ spec PushInstr/PushVM (every instruction + interpreter loop); TLC exhaustive over the single-instruction universe and over all small programs; spec->impl replay of every TLC case on the real PushState; impl->spec trace validation of random programs by TLC; end-to-end stages PushScore/PushGP/PushEvolution (genome -> program -> built state -> run -> error -> lexicase/UMAD generation) and Cases",
        text="The instruction semantics of the property are an explicit TLA+ specification. TLC enumerates every instruction x every boundary state of its footprint (depth <= operands+1 over boundary alphabets incl. i64 extremes, NaN, infinities, signed zeros; destination full / one below full) and every program of <= 3/4 items over a control-flow alphabet; each case is executed on the real interpreter and must give an allowed outcome; random 60-gene programs over the full instruction set are run step by step and every step must be a Step of the specification. Further stages: run_to_completion as a function (RunFrom, proved equal to the actions by TLC: RunAgrees) scores whole genomes the way the push examples do - every genome of <= 3/4 genes is replayed through the real pipeline, random genomes and whole lexicase/UMAD generations (serial and parallel) are trace-validated against PushGP/PushEvolution; evaluation interrupted half way and resumed, and output read twice, must agree with the uninterrupted evaluation.",
        note="Numbers are compared inside the phi/psi windows only (cuts are counted in evidence). Float predicates follow the OrderedFloat total order. Error texts are not compared. Trusts TLC, the harness projections and the builder used to construct pre-states."),
    "C02": dict(
        cat="model_checking", ref="DESIGN.md §4 C02",
        technique="TLA+ PushInstr/PushVM: invariant FailedUnchanged over the fault-point universe and action property FailureIsNoop on the interpreter model (TLC); replay of every fault-point case on the real code comparing the state inside Err with the pre-state by PushState ==; trace validation of random runs",
        text="Every point at which underflow, overflow or an arithmetic fault can strike an instruction (each footprint stack empty / one short / enough / one below full / full) is a state of the TLC universe; on the model failure = no-op is an invariant, on the real code every such case must hand back a state equal to the pre-state (all stacks, limits, stdout, inputs) with the allowed error kind; after a recoverable error the real interpreter must continue exactly like the model.",
        note="Same windows and latitude (L1) as C01. Over-full stacks (maximum lowered below the size through stack_mut) are outside the universe."),
    "C03": dict(
        cat="model_checking", ref="DESIGN.md §4 C03",
        technique="TLA+ PushVM interpreter loop: TLC checks StepBound, SizeBound, FatalOnlyOverflow, the variant and liveness <>(halted) under weak fairness over all small programs x limits; replay of all behaviours; trace validation of random runs; long real runs (<=1e5 steps) validated against TraceBounds_PushVM with a hang watchdog",
        text="Totality and boundedness are invariants and a liveness property of the interpreter model, checked by TLC for all programs of <= 3/4 items (incl. dup_block / exec.dup growth idioms) x stack limits x step limits; the real interpreter is replayed on all of them, trace-validated on random programs, and run for up to 1e5 steps on exponential, self-replicating, flat and extreme-arithmetic programs where sizes, abort cause, output-prefix monotonicity (for flat programs) the exact step count, (for printing programs up to 1.5 MB) the exact number of bytes printed and (for counted programs of millions of steps) completion exactly at the step limit the specification computes are validated by TLC.",
        note="Inputs mentioned by programs are bound. A panic or watchdog timeout is an observed outcome no action allows. Real schedules beyond 1e5 steps / stacks beyond 1e3 are not explored."),
    "C04": dict(
        cat="model_checking", ref="DESIGN.md §4 C04",
        technique="TLA+ spec BoundedStack.tla; TLC exhaustive over the state/operation universe with the property's clauses as action properties; every emitted case replayed on the real Stack; random histories of the real Stack trace-validated by TLC; TLAPS proofs (BoundedStackProofs.tla) of the per-step clauses for unbounded contents",
        text="TLC explores every stack content up to the configured depth x every capacity x every operation and checks all-or-nothing, LIFO order, payload and capacity clauses on the specification; each explored (state, operation) is executed on a real Stack<u8> and must produce an allowed outcome (exhaustive in that scope), and long random histories on one real object must be behaviours of the specification. The per-step clauses (all-or-nothing, error kinds, inert observers, capacity) are also proved with tlapm for arbitrary contents and capacities (106 obligations); bulk insertions from iterators that announce up to usize::MAX items or never end are replayed too.",
        note="Trusts TLC, the Json module, and the harness projection (contents read by popping a clone). Element type u8. Scope: depth<=3/5, capacities 0..3/0..5, bulk<=2/3 exhaustively; random histories of 150/200 operations beyond that."),
    "C05": dict(
        cat="model_checking", ref="DESIGN.md §4 C05",
        technique="TLA+ spec Plushy.tla: recursive-descent Parse vs an independent block-stack state machine, TLC over all gene sequences <= 6/8; every genome replayed through the real From<Plushy>; num_opens table conformance; random 200-gene genomes trace-validated",
        text="TLC checks on every gene sequence up to 6 (thorough 8) genes over {close, opens 0/1/2} that the two independent definitions of the translation agree, that the result reads depth-first as the genome's instructions, is well formed, and that translation terminates; every one of those genomes is translated by the real code and compared; num_opens() of every instruction the crate lists is compared with the documented table; random genomes of up to 200 genes (deep nesting, trailing opens, runs of closes) are checked by TLC against Parse.",
        note="One-block instructions are distinguished only by variant (three exist). Trusts TLC and the gene<->instruction encoding of the harness."),
    "C09": dict(
        cat="model_checking", ref="DESIGN.md §4 C09",
        technique="TLA+ spec Generation.tla (claim / finish / fail / commit / abort per child, serial and parallel modes); TLC explores every interleaving and failure position for N=3/4 children on 2/3 workers over two steps with atomicity, freshness, own-randomness and liveness properties; MC_GenSchedule.tla enumerates every schedule of one step (start / end order of <= 4/5 calls, which fail, serial and parallel) and the harness's child maker FORCES each on the real serial_next / par_next, the recorded step trace-validated; further real runs in rayon pools of 1-16 threads trace-validated against the same actions; Evolution.tla (whole-run composition) model-checked and trace-validated against real example-style pipelines",
        text="The one concurrent component is modelled as explicit per-child actions; TLC checks over all schedules and every set of failing calls that the population is never torn, is replaced by exactly N fresh distinct children or left untouched with the error of a failed child, that no two children share a draw and that every step terminates. Real steps (N in {0,1,2,3,8,33}, pools of 1..16 threads, failures at seeded call positions, perturbed schedules, two consecutive steps on one Generation) are recorded by an instrumented child-maker operator and must be behaviours of that specification. Set-like populations (BTreeSet, HashSet: children with equal keys collapse, the next step makes as many children as the population then has) and VecDeque / LinkedList populations are modelled (kind, key) and run. A second specification, Evolution.tla, composes Selection, Variation, the scorer contract and the generation step into the whole run of the repository's examples; TLC checks it over every initial population for 8 configurations and validates, stage by stage, real count_ones-style pipelines (DynWeighted mix, Select.apply_twice, then_map(GenomeExtractor), Recombine, Mutate, GenomeScorer, serial_next / par_next). Return events carry what the population says about its own size and emptiness; a 64-bit word drawn by a child never comes back in another run (another pool) of the process.",
        note="Every schedule TLC enumerates for <= 4 (thorough 5) children is forced on the real step by the harness's own child maker (no hook needed); one the step does not follow - rayon makes no further calls after a failure - is recorded, validated and counted, never a verdict. Larger steps are sampled. Own randomness is observed as pairwise-distinct 64-bit draws."),
    "C10": dict(
        cat="model_checking", ref="DESIGN.md §4 C10",
        technique="TLA+ spec Variation.tla (cut points / masks / exchange ranges as explicit choices); TLC exhaustive over lengths 0..4/6 with the property's clauses as invariants; deterministic cases replayed on the real code; random real crossovers trace-validated (TLC infers the hidden cut points); segment-coverage obligation against the TLC-derived child sets",
        text="TLC checks on all parents up to length 4 (thorough 6) and all bit-pattern pairs x every index / range (incl. inverted, out of range) that children are position-wise, one contiguous segment, that every segment and every mask is reachable, that exchanges move exactly the addressed genes and that misuse is an error; every deterministic case is executed on the real TwoPointXo / UniformXo / Bitstring primitives in all four input forms; thousands of random real crossovers must be explainable by some cut pair / mask; and the set of distinct children observed per length must equal the set TLC derived (so a segment that can never occur is a violation).",
        note="L7: only the support of the cut-point distribution is claimed. Bitstring parents are all-0/all-1 or complementary so provenance is visible. Trusts TLC and the harness encodings."),
    "C11": dict(
        cat="model_checking", ref="DESIGN.md §4 C11",
        technique="TLA+ spec Variation.tla (flip masks and UMAD keep/insert decisions as explicit choices); TLC exhaustive over genomes <= 4/6, rates {0,1/4,1/2,1,3/2}, three UMAD constructors, with FlipShape / UmadShape / degenerate-rate identities as invariants; random real mutations trace-validated, TLC infers the decision vector",
        text="TLC enumerates every outcome the specification allows for every small genome, rate and UMAD configuration and checks the clauses of the property (same length, in place, survivors in order, at most one insertion per position, new genes from the generator, the four degenerate-rate identities, the empty-parent cases), and that the membership test used for trace validation accepts exactly those outcomes; random real calls of WithRate, WithOneOverLength (Vec<bool>, Bitstring) and Umad (Vector, Plushy with close markers in the parent and from the generator; lengths 0..12) must each be explainable by some decision vector; bit flips of genomes of 255 .. 2^24+1 genes must succeed, keep the length and obey the degenerate-rate identities.",
        note="Genes are tagged so explanations are unique. Rates strictly inside (0,1) may produce any mask; measure-zero events are not claimed."),
    "C06": dict(
        cat="model_checking", ref="DESIGN.md §4 C06",
        technique="TLA+ spec Selection.tla (+Weighted.tla): every random decision an explicit choice; TLC invariant ResultSound over all small populations x configurations; every configuration replayed on Vec/VecDeque/array populations of probe individuals (member identity by address); random selections incl. weighted / nested / type-erased combinations trace-validated by TLC",
        text="For every selector configuration over every population of 0..3/4 individuals (empty, singleton, ties, duplicates, tournament sizes up to n+1, lexicase case counts around the available results, ragged results) TLC derives the exact set of allowed results (a member index or the documented error with its payload) and checks soundness; the real selectors are run on each of them repeatedly and must return that very element (located by address) or exactly that error, never panic; thousands of random selections, including random weighted trees of the real selectors and their Box<dyn DynSelector> form, must be explainable by the specification. DynWeighted objects are extended step by step with selections in between; tournaments larger than the population are replayed with sizes up to usize::MAX; every configuration is also run on populations of the repository's EcIndividual with shared genomes; large populations (257-1279 members, extremes at chosen positions) are part of the traces. Half of all selections go through long-lived selector objects and one refilled population vector (history-dependent state shows); the population answers for its own size and emptiness.",
        note="Member identity = address equality with an element of the population passed in. Error texts are not compared; payloads are."),
    "C07": dict(
        cat="model_checking", ref="DESIGN.md §4 C07",
        technique="TLA+ Selection.tla: TLC checks Pressure / TournamentExtremes and derives the tournament law by counting k-subsets (closed form C(r-1,k-1)/C(n,k) checked as invariant); trace validation with the drawn subset observed through probe comparisons; empirical winner and subset frequencies compared with the TLC-derived law under an explicit error budget",
        text="Maximality / minimality and 'winner at least as good as k-1 others', k=1 = uniform, k=n = best are TLC invariants over all small populations; for the real code every observed tournament must have compared exactly k distinct members with the winner maximal among them (the subset is observed because probe individuals log Ord::cmp), and over 60k (thorough 1.5M) draws per configuration the winner frequencies must match the law TLC derived by counting subsets and all C(n,k) subsets must be equally frequent (per-cell alpha 1e-12). Best / worst / whole-population tournaments are additionally validated on populations of 257-1279 members whose extremes sit at chosen positions, and on EcIndividual populations with shared genomes.",
        note="Statistical part decides 'within epsilon of the law' (epsilon reported in evidence), not exact equality. Assumes the supplied RNG is uniform."),
    "C08": dict(
        cat="model_checking", ref="DESIGN.md §4 C08",
        technique="TLA+ Selection.tla lexicase: TLC checks survivorship, non-domination, degenerate cases and that the trace-acceptance predicate accepts exactly the runs of the filter; real selections trace-validated from the logged per-case comparisons; winner and first-case frequencies compared with the TLC-derived law",
        text="On every result matrix of up to 3 individuals x 2/3 cases over 3 values, both polarities, TLC checks that winners survive some case order, are never Pareto-dominated, that zero cases / one individual degenerate correctly and derives each individual's exact selection probability; every real selection logs the comparisons its probe results took part in and TLC checks that the visited cases are distinct, that exactly the survivors were compared at each case, that filtering did not stop early and that the winner is a final survivor; winner frequencies and the first visited case must match the derived law. Order-revealing populations (one individual per arrangement of the case values, 3 and 4 cases) make the winner law equal to the law of the case order.",
        note="As C07 for the statistical part. Case order is observed through Ord::cmp of probe results."),
    "C12": dict(
        cat="other", ref="DESIGN.md §4 C12",
        technique="TLA+ spec VariationLaw.tla: probability laws derived by TLC by counting equally likely draw vectors, the property's closed forms checked as ASSUMEs; the real operators sampled 1e5/3e6 times per configuration and compared cell by cell with the derived law under an explicit false-alarm budget",
        text="A statement about distributions: the specification says what each law is (coins as explicit draws) and TLC checks the property's consequences on it exactly (independence, one expected flip, keep = 1-del, insertion = add(1-del), size preserved iff del = add/(1+add), 1/2 per position, close probability c / default 1/(n+1)); conformance of WithRate, WithOneOverLength, Umad (Vector, Plushy), UniformXo, Bitstring::random*, GeneGenerator (all constructors) is statistical: every outcome cell within a Chernoff-KL bound at per-cell alpha 1e-12 (detectable deviation reported in evidence, about 1.2% absolute at p = 1/2 for quick). No exhaustive claim. Every position of 200- and 70-gene genomes is tallied separately for every input form (one coin per position).",
        note="Assumes SmallRng is uniform. Decides 'within epsilon of the law'. Rates are small rationals; genome lengths 2-4 for exact cell laws."),
    "C13": dict(
        cat="model_checking", ref="DESIGN.md §4 C13",
        technique="TLA+ spec Weighted.tla; TLC over all tree shapes <= 3/4 leaves x weights 0..3, dynamic lists and construction sequences (Proportional as cross-multiplied invariant for every shape); replay on real Weighted/WeightedPair/WithWeightedItem/DynWeighted with marker members; empirical member frequencies vs the law",
        text="TLC checks for every binary tree shape and weight assignment that exactly one member of positive weight is delegated to, that P(leaf) x total = weight for every nesting, that all-zero is the zero-weight error and that chain construction overflows exactly when the running sum exceeds the maximum (sticky afterwards); each tree, list and construction sequence is executed on the real combinators (members are markers that count invocations and return an identifiable individual) and member frequencies over 60k/1M selections are compared with the derived law. ScaleInvariant (only ratios matter) is checked by TLC and licenses running the same laws with weights scaled to just below 2^32; dynamic lists are also extended after they were first asked to select.",
        note="Trees are carrier enums around the real WeightedPair (types are static, shapes are data). Weights near u32::MAX are modelled near WMax=100."),
    "C14": dict(
        cat="model_checking", ref="DESIGN.md §4 C14",
        technique="TLA+ spec Compose.tla (big-step Eval threading stream position, call count and call log); TLC over every well-typed expression of depth <= 2 x input shape x failure position with LeftToRight / StopsAtFirstFailure / ErrorLocates invariants; every case replayed on the real combinators built through the Composable API; random deeper compositions trace-validated",
        text="Evaluation order, data flow, randomness consumption and error location of then / and / map (pair, array, vector) / repeat / identity / constant and the Mutate / Recombine wrappers (by value, by reference and around a boxed trait object) are an explicit evaluation function; TLC enumerates all small well-typed expressions with a failure injected at every component call and checks the clauses; each case is executed on the real combinators with component operators that log (id, input, stream position) under a counting RNG, comparing value, error path, call log and words consumed; random compositions of depth 5 (tens of calls) are checked by TLC against the same function. Select / GenomeExtractor / GenomeScorer are expressions of the specification too (scorer-call log, the genome maker's error passed through untouched), including pipeline-shaped compositions; error steps are read independently of the wording of error messages. Every second case is applied to a composition object that was applied before (without failure, failing early, failing late).",
        note="Combinator and error types are private to ec-core; the harness builds compositions with the public Composable methods and reads error variants from Debug/Display/source(). Select / GenomeExtractor / GenomeScorer wrappers are covered under C15-C17."),
    "C16": dict(
        cat="other", ref="DESIGN.md §4 C16",
        technique="TLA+ spec Functional.tla (an operator application is a function of configuration, arguments and generator state); differential trace validation: repeated, interleaved and cross-thread calls on one operator value from equal generator states, and Push runs from differently declared inputs, checked by TLC for 'one key, one value'",
        text="The stateless-function contract that every other specification here assumes is stated explicitly; 30+ operators and generators of the three crates (selectors incl. weighted and dyn lists, Select/Mutate/Recombine pipelines, GenomeScorer, WithRate, WithOneOverLength, Umad, both crossovers in all forms, collection / bool / gene / Plushy / individual generators, OneOfCloning, ChooseCloning, Choose) are observed under SmallRng and StdRng behind a word-counting wrapper; TLC rejects any trace in which one (operator, arguments, generator state) has two different (result, words consumed, next word). A weighted selector list assembled all at once or piece by piece with selections in between is one key too. Push programs are run from six differently ordered, separately built input maps (with decoy re-bindings), millions-of-steps counted runs must finish exactly at the computed limit.",
        note="The specification's own role is small (stated in DESIGN). Hidden state shows up with overwhelming probability, not certainty."),
    "C17": dict(
        cat="other", ref="DESIGN.md §4 C17",
        technique="TLA+ spec Functional.tla with wrapper-free keys; differential trace validation over all 7 pointer kinds x 4 auto-trait sets x 5 erased traits x several wrapped implementations; the flavour table is a separate cargo target so a missing generated impl is a reported violation",
        text="For DynSelector, DynMutator, DynRecombinator, DynOperator and DynChildMaker, behind &, &mut, Box, Arc, Rc, Ref and RefMut, each with no / Send / Sync / Send+Sync bounds, the erased call must return the same individual / genome / value, the same error text, consume the same number of words and leave the generator in the same state as the concrete operator, for library operators, an always-failing one and one that consumes a data-dependent number of words; erased error types: the boxed default, a harness type with dedicated and catch-all conversions, and the repository's own wrapper errors (CrossoverGeneError, DynWeightedError) whose text and diagnostic must be the wrapped error's. Two threads are inside make_child of one erased child maker at once (Arc and & flavours with Send + Sync). Exhaustive over flavours; seeds are sampled.",
        note="Differential; results compared through Debug / Display renderings."),
    "C18": dict(
        cat="model_checking", ref="DESIGN.md §4 C18",
        technique="TLA+ spec Choices.tla; TLC over all collections <= 4/6 (with duplicates) and all size pairs; every case replayed in all 17 conversion flavours and 6 collectors; random uses trace-validated; position frequencies vs the uniform law",
        text="Empty collections must be rejected at build time in every flavour (Vec / array / slice; owning, borrowing, cloning; into_ / to_distribution; OneOfCloning::new, ChooseCloning::new, the macro); num_choices must equal the number of members through the trait by value, & and &mut; samples must be that very member (by address for borrowing flavours) and each position equally likely (60k / 2M samples per flavour and size); collection generators must return exactly the requested number of consecutive stream elements for Vec, Bitstring, Plushy and a nested population, consulting the element generator exactly that many times. Every size 0..600 and large sizes are requested from every sized constructor (Bitstring::random, ::random_with_probability, collection generators for Vec / Bitstring / Plushy); uniformity is also checked for 100-300 members; zero-length arrays are converted in a separate build target whose failure to compile is reported as the violation.",
        note="Statistical part at per-cell alpha 1e-12. Assumes the RNG is uniform."),
    "C15": dict(
        cat="model_checking", ref="DESIGN.md §4 C15",
        technique="TLA+ spec Ordering.tla: order laws checked by TLC on the small domain; one implementation test per spec case (every pair, cross pair, vector pair) evaluated on Score, Error, TestResult, TestResults, EcIndividual; construction clause trace-validated",
        text="Reflexivity, antisymmetry, transitivity, totality, exact reversal for errors, operator-family coherence, cross-kind incomparability and 'vectors and individuals compare as their totals' are checked by TLC on values -2..2 / vectors <= 2/3; every case is evaluated with every comparison operator on the real types with values mapped onto {MIN,-1,0,1,MAX}; IndividualGenerator and GenomeScorer are traced with a recording genome maker and scorer; copies must compare equal to their sources; totals of 8-100 extreme values whose in-order running sum stays in range (and float vectors where the order of additions matters) must equal the in-order sum.",
        note="A total whose IN-ORDER running sum overflows is outside the property."),
    "C19": dict(
        cat="model_checking", ref="DESIGN.md §4 C19",
        technique="TLA+ spec Builder.tla with the builder's type-state as explicit state (Legal = the type-level guard of each generated method, Apply = its run-time effect); TLC over all call sequences <= 5/6 with the property's clauses as invariants, and the type-state legality table under a VIEW; Rust programs GENERATED from TLC's sequences: well-typed ones compiled and run on PushState and on a second struct, ill-typed ones must be rejected by rustc",
        text="TLC explores every builder call sequence of up to 5 (thorough 6) calls and checks contents-as-supplied (first value on top, repeated loads stack up), maximum = last set, program order, inputs by name, overflow reported at the overflowing call, build impossible without sizes + program decision + step limit, and no resize after values; a stratified sample of those sequences (all short ones) is turned into Rust, compiled and run against the real generated builder of PushState and of AltState (different number / order / naming of stacks, renamed methods, newtype-twin stacks, accessors cross-checked against fields); for every reachable type-state x call kind the legality table becomes one generated function that must compile iff the specification says the call is legal. The legality table is explored once per last call kind (3858 (type-state, call) pairs for the four structs), so every transition of the type-state machine is followed by the calls it must refuse.",
        note="Generated-test approach (model-based test generation) rather than model checking of rustc. AltState is a cfg-guarded hook inside the push crate because the macro's HasStack impls fail coherence in external crates (recorded in DESIGN as an observation)."),
}

PENDING = {}

ALL = [f"C{i:02d}" for i in range(1, 20)]


def main():
    checks = []
    for pid in ALL:
        if pid not in CHECKS:
            continue
        c = CHECKS[pid]
        checks.append({
            "property_id": pid,
            "quick_cmd": f"./check {pid} --tier quick",
            "thorough_cmd": f"./check {pid} --tier thorough",
            "evidence_file": f"/verif/evidence/{pid}.json",
            "replay_cmd_template": f"./check {pid} --replay {{path}}",
            "engine": "tla-mbv",
            "level_claimed": {"category": c["cat"], "text": c["text"], "design_ref": c["ref"]},
            "level_note": c["note"],
            "technique": c["technique"],
        })
    na = [{"property_id": pid,
           "reason": PENDING.get(pid, "check not built yet in this round; the TLA+ technique applies (see DESIGN.md §4) and the property will be claimed once its specification and conformance harness are committed")}
          for pid in ALL if pid not in CHECKS]
    m = {
        "version": 1,
        "setup_cmd": "cd /verif/harness && CARGO_NET_OFFLINE=true cargo build --offline --bin vh --bin vh-erased",
        "hooks": {
            "guard": "unhindered_ec_verif",
            "enable": "rustflags --cfg unhindered_ec_verif in /verif/harness/.cargo/config.toml and /verif/harness-gen/.cargo/config.toml; the only hooks are three extra #[push_state(builder)] structs in push::push_vm::verif_alt_state (AltState, MiniState, SplitState) used by C19; every other observation goes through the public API and harness-supplied probe types",
            "baseline_off_cmd": "cd /repo && cargo test --workspace --no-fail-fast --offline",
            "source_commits": ["64d4a14", "2d6ff76", "bdaedf6", "b214757"],
            "add_only": True,
        },
        "engines": [{
            "name": "tla-mbv",
            "path": "/verif/check",
            "serves_properties": [c["property_id"] for c in checks],
            "kind_free_text": "explicit TLA+ specifications (spec/), TLC model checking, spec->impl replay of TLC-emitted cases and impl->spec trace validation through the Rust harness (harness/)",
        }],
        "checks": checks,
        "not_applicable": na,
        "notes": "Every check is ./check <id> --tier quick|thorough; exit 0/1/2 = held / VIOLATION / tool error. Genuine defects repaired in /repo are listed in known_findings.json as fixed entries.",
    }
    with open(os.path.join(ROOT, "MANIFEST.json"), "w") as fh:
        json.dump(m, fh, indent=1)
        fh.write("\n")


if __name__ == "__main__":
    main()
