#!/usr/bin/env python3
"""Regenerates /verif/MANIFEST.json from the table below (single source of truth)."""
import json
import os

ROOT = os.path.dirname(os.path.dirname(os.path.abspath(__file__)))

CHECKS = {
    "C04": dict(
        cat="model_checking", ref="DESIGN.md §4 C04",
        technique="TLA+ spec BoundedStack.tla; TLC exhaustive over the state/operation universe with the property's clauses as action properties; every emitted case replayed on the real Stack; random histories of the real Stack trace-validated by TLC",
        text="TLC explores every stack content up to the configured depth x every capacity x every operation and checks all-or-nothing, LIFO order, payload and capacity clauses on the specification; each explored (state, operation) is executed on a real Stack<u8> and must produce an allowed outcome (exhaustive in that scope), and long random histories on one real object must be behaviours of the specification.",
        note="Trusts TLC, the Json module, and the harness projection (contents read by popping a clone). Element type u8. Scope: depth<=3/5, capacities 0..3/0..5, bulk<=2/3 exhaustively; random histories of 150/200 operations beyond that."),
}

PENDING = {}

ALL = [f"C{i:02d}" for i in range(1, 20)]


def main():
    checks = []
    for pid in ALL:
        if pid not in CHECKS:
            continue
        c = CHECKS[pid]
        checks.append({
            "property_id": pid,
            "quick_cmd": f"./check {pid} --tier quick",
            "thorough_cmd": f"./check {pid} --tier thorough",
            "evidence_file": f"/verif/evidence/{pid}.json",
            "replay_cmd_template": f"./check {pid} --replay {{path}}",
            "engine": "tla-mbv",
            "level_claimed": {"category": c["cat"], "text": c["text"], "design_ref": c["ref"]},
            "level_note": c["note"],
            "technique": c["technique"],
        })
    na = [{"property_id": pid,
           "reason": PENDING.get(pid, "check not built yet in this round; the TLA+ technique applies (see DESIGN.md §4) and the property will be claimed once its specification and conformance harness are committed")}
          for pid in ALL if pid not in CHECKS]
    m = {
        "version": 1,
        "setup_cmd": "cd /verif/harness && CARGO_NET_OFFLINE=true cargo build --offline --bin vh",
        "hooks": {
            "guard": "unhindered_ec_verif",
            "enable": "RUSTFLAGS --cfg unhindered_ec_verif (set in /verif/harness/.cargo/config.toml); no hook commits exist: all observation goes through the public API and harness-supplied probe types",
            "baseline_off_cmd": "cd /repo && cargo test --workspace --no-fail-fast --offline",
            "source_commits": [],
            "add_only": True,
        },
        "engines": [{
            "name": "tla-mbv",
            "path": "/verif/check",
            "serves_properties": [c["property_id"] for c in checks],
            "kind_free_text": "explicit TLA+ specifications (spec/), TLC model checking, spec->impl replay of TLC-emitted cases and impl->spec trace validation through the Rust harness (harness/)",
        }],
        "checks": checks,
        "not_applicable": na,
        "notes": "Every check is ./check <id> --tier quick|thorough; exit 0/1/2 = held / VIOLATION / tool error. Genuine defects repaired in /repo are listed in known_findings.json as fixed entries.",
    }
    with open(os.path.join(ROOT, "MANIFEST.json"), "w") as fh:
        json.dump(m, fh, indent=1)
        fh.write("\n")


if __name__ == "__main__":
    main()
