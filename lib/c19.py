"""C19 - the generated state builder builds the configured state and rejects misuse."""
import hashlib
import json
import os
import subprocess
import vlib
import buildergen

LEVEL = "model_checking"
GEN = os.path.join(vlib.ROOT, "harness-gen")
UNBOUNDED = 1000000


def cargo(args, timeout=1800):
    env = dict(os.environ)
    env["CARGO_NET_OFFLINE"] = "true"
    return subprocess.run(["cargo"] + args, cwd=GEN, env=env, stdout=subprocess.PIPE, stderr=subprocess.PIPE,
                          text=True, timeout=timeout)


def expected_of(c, mini=False):
    if c["status"] == "overflow":
        return {"status": "overflow", "at": len(c["hist"])}
    if mini:
        return {"status": "built", "vals": c["vals"], "max": c["max"], "exec": c["exec"], "execMax": c["execMax"]}
    third = UNBOUNDED
    for h in c["hist"]:
        if h["k"] == "max_all":
            third = h["n"]
    return {"status": "built", "vals": c["vals"], "max": c["max"], "exec": c["exec"], "execMax": c["execMax"],
            "limit": c["limit"], "inputs": c["inputs"], "third_max": third, "third_size": 0}


def diag_errors(stdout, fname):
    """(line, message) of every rustc error whose primary span lies in src/bin/<fname>; and the
    number of errors elsewhere"""
    here, elsewhere = [], 0
    for ln in stdout.splitlines():
        if not ln.startswith("{"):
            continue
        try:
            m = json.loads(ln)
        except ValueError:
            continue
        msg = m.get("message") or {}
        if m.get("reason") != "compiler-message" or msg.get("level") != "error":
            continue
        spans = [s for s in msg.get("spans", []) if s.get("is_primary")]
        hit = [s for s in spans if s.get("file_name", "").endswith(fname)]
        if hit:
            here.append((hit[0]["line_start"], msg.get("message", "")[:200]))
        elif spans or "aborting" not in msg.get("message", ""):
            if "aborting due to" not in msg.get("message", "") and "could not compile" not in msg.get("message", ""):
                elsewhere += 1
    return here, elsewhere


def hook_structs_compile(ck):
    """The generated crate needs push built WITH the hook structs (AltState, MiniState, SplitState: the macro
    applied to structs other than PushState). If the macro no longer accepts one of them - they use only
    documented attribute forms - that is the property's violation, reported with rustc's message."""
    p = cargo(["build", "--offline", "--lib", "--message-format=json"])
    if p.returncode == 0:
        return True
    msgs = []
    for ln in p.stdout.splitlines():
        if ln.startswith("{"):
            try:
                m = json.loads(ln)
            except ValueError:
                continue
            msg = m.get("message") or {}
            if m.get("reason") == "compiler-message" and msg.get("level") == "error":
                spans = [sp.get("file_name", "") for sp in msg.get("spans", [])]
                msgs.append((msg.get("message", "")[:300], spans))
    in_hook = [m for m, spans in msgs if any("verif_alt_state.rs" in f for f in spans)]
    if in_hook:
        ck.violation("compile:macro-rejects-a-supported-struct",
                     "#[push_state(builder)] no longer compiles on a struct that uses only documented attribute forms "
                     "(push::push_vm::verif_alt_state: AltState / MiniState / SplitState): " + " | ".join(in_hook[:3]),
                     {"kind": "hook-structs", "errors": in_hook[:6]})
        return False
    raise vlib.ToolError("harness-gen library does not build:\n" + p.stderr[-2500:])


def run_well_typed(ck, cases, tag="wt"):
    src = buildergen.gen_wt(cases)
    with open(os.path.join(GEN, "src", "bin", "wt.rs"), "w") as fh:
        fh.write(src)
    p = cargo(["build", "--offline", "--bin", "wt", "--message-format=json"])
    if p.returncode != 0:
        here, elsewhere = diag_errors(p.stdout, "wt.rs")
        if not here:
            raise vlib.ToolError("generated well-typed crate does not build:\n" + p.stderr[-2500:])
        # a call sequence the type-state permits was rejected by the compiler
        lines = src.split("\n")
        for line, msg in here[:5]:
            fn = next((lines[i] for i in range(line - 1, -1, -1) if lines[i].startswith("fn c")), "?")
            cid = int(fn[4:fn.index("(")]) if fn.startswith("fn c") else -1
            case = next((c for c in cases if c["id"] == cid), None)
            ck.violation(f"compile:well-typed-rejected:{case and case['kind']}:{case and case['hist'][-1]['k']}",
                         f"a builder call sequence the type-state permits does not compile: {msg}; sequence "
                         f"{json.dumps(case and case['hist'])}", {"kind": "wt", "case": case, "error": msg})
        return 0
    exe = os.path.join(vlib.HARNESS, "target", "gen", "debug", "wt")
    r = subprocess.run([exe], stdout=subprocess.PIPE, stderr=subprocess.PIPE, text=True, timeout=600)
    if r.returncode != 0:
        ck.violation("panic:generated-builder-sequences",
                     f"running the generated well-typed builder sequences panicked: {r.stderr[-600:]}",
                     {"kind": "wt-panic", "stderr": r.stderr[-2000:]})
        return 0
    byid = {c["id"]: c for c in cases}
    n = 0
    for ln in r.stdout.splitlines():
        o = json.loads(ln)
        n += 1
        if str(o["id"]).startswith("F"):
            # the float stack (fixed group of the generated crate): bit-for-bit values, input, maximum
            if o["obs"] != o["want"]:
                bad = sorted(k for k in set(o["obs"]) | set(o["want"]) if o["obs"].get(k) != o["want"].get(k))
                ck.violation(f"replay:builder:float:{'+'.join(bad)}",
                             f"PushState builder given float values / a float input {o['value']} (call order {o['id']}): built state "
                             f"{json.dumps(o['obs'])}; supplied {json.dumps(o['want'])}", {"kind": "wt-float", "row": o})
            continue
        c = byid[o["id"]]
        if o["obs"] != c["expected"]:
            bad = sorted(k for k in set(o["obs"]) | set(c["expected"]) if o["obs"].get(k) != c["expected"].get(k))
            ck.violation(f"replay:builder:{c['kind']}:{'+'.join(bad)}",
                         f"{c['kind']} builder calls {json.dumps(c['hist'])}: built state {json.dumps(o['obs'])}; "
                         f"specification {json.dumps(c['expected'])}",
                         {"kind": "wt", "case": c, "observed": o["obs"]})
    return n


def default_rows():
    """A builder value can only come into being in the INITIAL type-state: `Default` (what `builder()`
    is made of) exists for the builder whose type-state parameters are all `()` and for no other -
    otherwise `build()` could be called on a builder nothing was ever supplied to."""
    B = "push::push_vm::push_state::PushStateBuilder"
    M = "push::push_vm::push_state::push_state::WithSizeAndData"
    S = "push::push_vm::push_state::push_state::WithSize"
    mk = lambda rid, params, legal, what: {
        "id": rid, "kind": "push", "legal": legal, "prefix": [], "state": {"ts": what},
        "call": {"k": "default", "s": "", "n": 0, "xs": [], "name": ""},
        "raw": f"let _b = <{B}<{', '.join(params)}> as Default>::default();"}
    return [mk("D0", ["()"] * 5, True, "initial"),
            mk("D1", [M, M, S, S, S], False, "complete (the one build() is defined for)"),
            mk("D2", [M, "()", "()", "()", "()"], False, "only the first parameter advanced"),
            mk("D3", ["()", "()", "()", "()", S], False, "only the last parameter advanced")]


def run_ill_typed(ck, rows):
    rows = rows + [r for r in default_rows() if not any(x["id"] == r["id"] for x in rows)]
    src, ranges = buildergen.gen_it(rows)
    with open(os.path.join(GEN, "src", "bin", "it.rs"), "w") as fh:
        fh.write(src)
    p = cargo(["check", "--offline", "--bin", "it", "--message-format=json"])
    here, elsewhere = diag_errors(p.stdout, "it.rs")
    if elsewhere and not here:
        raise vlib.ToolError("generated ill-typed crate fails outside the generated functions:\n" + p.stderr[-2500:])
    errs = {}
    for line, msg in here:
        rid = next((k for k, (a, b) in ranges.items() if a <= line <= b), None)
        if rid is None:
            raise vlib.ToolError(f"rustc error outside every generated function (line {line}): {msg}")
        errs.setdefault(rid, []).append(msg)
    if "D0" in errs:
        # the hidden marker types are not where this group expects them (they are not public API):
        # the group says nothing then
        rows = [r for r in rows if not str(r["id"]).startswith("D")]
        ck.assumptions.append("builder Default group skipped: the hidden type-state marker types could not be named")
    rejected = accepted = 0
    for r in rows:
        has = r["id"] in errs
        if r["legal"] and has:
            ck.violation(f"compile:legal-call-rejected:{r['kind']}:{r['call']['k']}",
                         f"{r['kind']}: call {json.dumps(r['call'])} is permitted in type-state {json.dumps(r['state'])} "
                         f"but does not compile: {errs[r['id']][0]}", {"kind": "it", "row": r, "errors": errs[r["id"]][:3]})
        if not r["legal"] and not has:
            ck.violation(f"compile:illegal-call-accepted:{r['kind']}:{r['call']['k']}",
                         f"{r['kind']}: call {json.dumps(r['call'])} must be a compile-time error in type-state "
                         f"{json.dumps(r['state'])} (after {json.dumps([h['k'] for h in r['prefix']])}) but the "
                         f"compiler accepts it", {"kind": "it", "row": r})
        if not r["legal"]:
            rejected += 1 if has else 0
        else:
            accepted += 0 if has else 1
    return rejected, accepted


def pick(cases, n):
    """all short sequences, then a stratified sample: a few per feature signature (outcome, how many
    values ended up on each stack, program length, inputs, which calls occurred), then filled by hash"""
    h = lambda c: hashlib.md5(json.dumps(c["hist"], sort_keys=True).encode()).hexdigest()
    short = [c for c in cases if len(c["hist"]) <= 4]
    rest = sorted((c for c in cases if len(c["hist"]) > 4), key=h)
    strata = {}
    for c in rest:
        sig = (c["status"], tuple(sorted((k, len(v)) for k, v in c["vals"].items())), len(c["exec"]),
               len(c["inputs"]), tuple(sorted({x["k"] for x in c["hist"]})),
               tuple(x["k"] for x in c["hist"] if x["k"] in ("max_all", "max_of", "values"))[:4])
        strata.setdefault(sig, []).append(c)
    chosen, seen = list(short), {h(c) for c in short}
    for sig in sorted(strata, key=str):
        for c in strata[sig][:2]:
            if h(c) not in seen:
                chosen.append(c)
                seen.add(h(c))
    for c in rest:
        if len(chosen) >= n:
            break
        if h(c) not in seen:
            chosen.append(c)
            seen.add(h(c))
    return chosen


def run(ck):
    q = ck.tier == "quick"
    if not hook_structs_compile(ck):
        ck.cov["evaluations"] = 1
        ck.cov["distinct_nontrivial"] = 1
        ck.cov["explanation"] = "the macro rejected one of the extra structs (see violation); nothing else was run"
        return
    cfg = "builder/MC_Builder_quick.cfg" if q else "builder/MC_Builder_thorough.cfg"
    cpath = os.path.join(ck.work, "builder-cases.ndjson")
    res = ck.tlc_model("builder/MC_Builder", cfg, workers=6 if q else 12, timeout=3400, cases_path=cpath,
                       xmx="8g" if q else "24g")
    tres = ck.tlc_model("builder/MC_Builder", "builder/MC_Builder_types.cfg", workers=1, timeout=600,
                        keep_tags=("TYPESTATE",), tag="types")
    raw = vlib.read_ndjson(cpath)
    chosen = pick(raw, 250 if q else 2500)
    cases = []
    for kind in ("push", "alt", "split"):
        for c in (chosen if kind != "split" else chosen[:len(chosen) // 2]):
            cases.append({"id": len(cases), "kind": kind, "hist": c["hist"], "expected": expected_of(c)})
    # the smallest struct the builder feature accepts (MiniState: exec + one stack, no inputs, no step
    # limit) has its own instance of the specification
    mpath = os.path.join(ck.work, "builder-mini-cases.ndjson")
    mres = ck.tlc_model("builder/MC_Builder", "builder/MC_BuilderMini_quick.cfg" if q else "builder/MC_BuilderMini_thorough.cfg",
                        workers=4, timeout=1800, cases_path=mpath, tag="mini")
    mtres = ck.tlc_model("builder/MC_Builder", "builder/MC_BuilderMini_types.cfg", workers=1, timeout=600,
                         keep_tags=("TYPESTATE",), tag="mini-types")
    mraw = vlib.read_ndjson(mpath)
    for c in pick(mraw, 150 if q else 1500):
        cases.append({"id": len(cases), "kind": "mini", "hist": c["hist"], "expected": expected_of(c, mini=True)})
    # "supplying more values than a stack's maximum is reported as an overflow error" also when the maximum
    # is the largest there is and the supplied sequence announces an astronomical length
    for kind in ("push", "alt", "mini"):
        hist = [{"k": "max_all", "s": "", "n": "MAX", "xs": [], "name": ""},
                {"k": "values", "s": "a", "n": 0, "xs": [7], "name": ""},
                {"k": "values_huge", "s": "a", "n": 0, "xs": [], "name": ""}]
        cases.append({"id": len(cases), "kind": kind, "hist": hist, "expected": {"status": "overflow", "at": 3}})
    # "has the maximum size last set for it" also for the largest sizes there are
    def call(k, s="", n=0, xs=(), name=""):
        return {"k": k, "s": s, "n": n, "xs": list(xs), "name": name}
    for kind in ("push", "alt", "split", "mini"):
        for size, shown in (("MAX", UNBOUNDED), ("BIG", 1 << 63)):
            tail = [call("no_program")] + ([] if kind == "mini" else [call("step_limit", n=5)]) + [call("build")]
            for hist, maxa in (([call("max_all", n=size)] + tail, shown),
                               ([call("max_all", n=3), call("max_of", s="a", n=size)] + tail, shown)):
                glob = shown if hist[0]["n"] == size else 3
                if kind == "mini":
                    exp = {"status": "built", "vals": {"a": []}, "max": {"a": maxa}, "exec": [], "execMax": glob}
                else:
                    exp = {"status": "built", "vals": {"a": [], "b": []}, "max": {"a": maxa, "b": glob}, "exec": [],
                           "execMax": glob, "limit": 5, "inputs": [], "third_max": glob, "third_size": 0}
                cases.append({"id": len(cases), "kind": kind, "hist": hist, "expected": exp})
    n = run_well_typed(ck, cases)
    rows = []
    for kind in ("push", "alt", "split"):
        for t in tres.tagged.get("TYPESTATE", []):
            rows.append({"id": len(rows), "kind": kind, "state": t["state"], "prefix": t["prefix"],
                         "call": t["call"], "legal": t["legal"]})
    for t in mtres.tagged.get("TYPESTATE", []):
        rows.append({"id": len(rows), "kind": "mini", "state": t["state"], "prefix": t["prefix"],
                     "call": t["call"], "legal": t["legal"]})
    rejected, accepted = run_ill_typed(ck, rows)
    ck.cov["evaluations"] = n + len(rows)
    ck.cov["distinct_nontrivial"] = len(cases) + len(rows)
    ck.cov["rule"] = ("well-typed: builder call sequences ending in build() or in an overflowing call, all of "
                      "length <= 4 plus a hash-selected sample of longer ones, each for PushState and for a second "
                      "struct (AltState), and the sequences of the one-stack instance for a third (MiniState: no inputs, no "
                      "step limit - those methods must not exist); ill-typed: one function per (reachable type-state, call kind) pair")
    ck.cov["exhaustive"] = False
    ck.cov["samples"] = [cases[0], rows[0]]
    ck.cov["conformance"].update({"sequences_explored_by_tlc": len(raw), "mini_sequences_explored_by_tlc": len(mraw), "sequences_compiled_and_run": n,
                                  "type_states": len({json.dumps(t["state"], sort_keys=True) for t in tres.tagged.get("TYPESTATE", [])}),
                                  "typestate_call_pairs": len(rows), "illegal_pairs_rejected_by_rustc": rejected,
                                  "legal_pairs_accepted_by_rustc": accepted})
    ck.cov["checker_cmd"] = ("tlc MC_Builder (ContentsAsSupplied MaxIsLastSet WithinMax ProgramOrder "
                             "BuildNeedsEverything NoResizeAfterData InputsByName) + MC_Builder_types (VIEW); "
                             "lib/buildergen.py -> harness-gen: cargo build + run wt, cargo check it")
    ck.assumptions += ["model stacks a, b are int/bool for PushState and a newtype/i64 pair for AltState; the third "
                       "stack is only sized", "AltState lives in the push crate behind cfg(unhindered_ec_verif): the "
                       "macro's HasStack impls do not pass coherence in an external crate",
                       "compile-time rejection is decided by rustc diagnostics whose primary span lies in the function"]


def replay(ck, obj):
    if obj["kind"] == "hook-structs":
        hook_structs_compile(ck)
    elif obj["kind"] == "wt":
        c = dict(obj["case"])
        c["id"] = 0
        run_well_typed(ck, [c], tag="one")
    elif obj["kind"] == "it":
        r = dict(obj["row"])
        r["id"] = 0
        run_ill_typed(ck, [r])
