"""Shared pieces of the Push VM checks (C01, C02, C03, C16): MC_PushStep / MC_PushRun model
checking, spec->impl replay of their cases, impl->spec trace validation of random runs."""
import json
import os
import vlib


def _kinds(allowed, key):
    return "|".join(sorted({a.get(key, "?") for a in allowed}))


def sig_step(m):
    ins = m["case"]["ins"]
    ob = m["observed"]
    name = f"{ins['f']}.{ins['o']}"
    if "panic" in ob:
        return f"replay:{name}:panic"
    al = m["case"]["allowed"]
    extra = [k for k in ob if k not in ("kind", "st", "err")]
    if extra:
        return f"replay:{name}:{ob['kind']}:{'+'.join(sorted(extra))}"
    if ob["kind"] not in {a["kind"] for a in al}:
        return f"replay:{name}:kind:{ob['kind']}!={_kinds(al, 'kind')}"
    same_kind = [a for a in al if a["kind"] == ob["kind"]]
    if all(a["err"] != ob["err"] for a in same_kind):
        return f"replay:{name}:err:{ob['err']['kind']}/{ob['err']['stack']}"
    diff = sorted(k for k in ("exec", "int", "flt", "bool", "out")
                  if all(a["st"][k] != ob["st"][k] for a in same_kind))
    return f"replay:{name}:{ob['kind']}:state:{'+'.join(diff)}"


def what_step(m):
    c = m["case"]
    return (f"instruction {c['ins']} on stacks {json.dumps(c['s'])} (top first) max {c['max']}: "
            f"real code gave {json.dumps(m['observed'])}; spec allows {json.dumps(c['allowed'])}")


def sig_run(m):
    ob = m["observed"]
    if "panic" in ob:
        return "replay-run:panic"
    al = m["case"]["allowed"]
    if ob["status"] not in {a["status"] for a in al}:
        return f"replay-run:status:{ob['status']}!={_kinds(al, 'status')}"
    diff = sorted(k for k in ("exec", "int", "flt", "bool", "out")
                  if all(a["st"][k] != ob["st"][k] for a in al))
    return f"replay-run:limit{m['case']['limit']}:state:{'+'.join(diff) or 'err'}"


def what_run(m):
    c = m["case"]
    return (f"program {json.dumps(c['s']['exec'])} max {c['max']} step limit {c['limit']}: real "
            f"run gave {json.dumps(m['observed'])}; spec allows {json.dumps(c['allowed'])}")


def c03_relevant(m):
    """Mismatches that contradict C03 (totality, bounds, only overflow aborts)."""
    ob = m["observed"]
    if "panic" in ob:
        return True
    kinds = {a["kind"] for a in m["case"]["allowed"]}
    if ob["kind"] == "fatal" and "fatal" not in kinds:
        return True
    if kinds == {"fatal"} and ob["kind"] != "fatal":
        return True
    return False


def replay_step_cases(ck, cases_path, tag, only_failing=False, relevant=None):
    if only_failing:
        src = cases_path
        cases_path = os.path.join(ck.work, f"failing-{tag}.ndjson")
        n = 0
        with open(src) as f, open(cases_path, "w") as g:
            for ln in f:
                if '"kind":"rec"' in ln or '"kind":"fatal"' in ln:
                    g.write(ln)
                    n += 1
        ck.cov["conformance"]["failing_point_cases"] = n
    out = os.path.join(ck.work, f"step-replay-{tag}.ndjson")
    ck.harness(["vm-step-replay", "--cases", cases_path, "--out", out], timeout=1800)
    res = vlib.read_ndjson(out)
    for m in res[:-1]:
        if relevant is not None and not relevant(m):
            continue
        ck.violation(sig_step(m), what_step(m),
                     {"kind": "step-case", "case": m["case"], "observed": m["observed"]})
    return res[-1]


def mc_step(ck, only_failing=False, relevant=None):
    q = ck.tier == "quick"
    cfg = "vm/MC_PushStep_quick.cfg" if q else "vm/MC_PushStep_thorough.cfg"
    cpath = os.path.join(ck.work, "step-cases.ndjson")
    res = ck.tlc_model("vm/MC_PushStep", cfg, workers=6 if q else 12, timeout=3000,
                       cases_path=cpath, xmx="8g" if q else "20g")
    if res.ncases == 0:
        raise vlib.ToolError("MC_PushStep emitted no cases")
    summ = replay_step_cases(ck, cpath, "mc", only_failing=only_failing, relevant=relevant)
    c = ck.cov["conformance"]
    c["step_cases_emitted"] = res.ncases
    c["step_cases_replayed"] = summ["cases"]
    c["step_cases_cut_outside_number_windows"] = summ["cuts"]
    c["step_mismatches"] = summ["mismatches"]
    ck.cov["samples"] += res.case_samples[:2]
    return res, summ


def group_run_cases(src, dst):
    groups = {}
    with open(src) as f:
        for ln in f:
            c = json.loads(ln)
            k = json.dumps([c["s"], c["max"], c["limit"]], sort_keys=True)
            g = groups.get(k)
            if g is None:
                groups[k] = c
            else:
                for a in c["allowed"]:
                    if a not in g["allowed"]:
                        g["allowed"].append(a)
    vlib.write_ndjson(dst, groups.values())
    return len(groups)


def replay_run_cases(ck, path, tag):
    out = os.path.join(ck.work, f"run-replay-{tag}.ndjson")
    ck.harness(["vm-run-replay", "--cases", path, "--out", out], timeout=1800)
    res = vlib.read_ndjson(out)
    for m in res[:-1]:
        ck.violation(sig_run(m), what_run(m),
                     {"kind": "run-case", "case": m["case"], "observed": m["observed"]})
    return res[-1]


def mc_run(ck):
    q = ck.tier == "quick"
    cfg = "vm/MC_PushRun_quick.cfg" if q else "vm/MC_PushRun_thorough.cfg"
    raw = os.path.join(ck.work, "run-cases-raw.ndjson")
    res = ck.tlc_model("vm/MC_PushRun", cfg, workers=6 if q else 12, timeout=3000, cases_path=raw,
                       xmx="8g" if q else "24g")
    cpath = os.path.join(ck.work, "run-cases.ndjson")
    n = group_run_cases(raw, cpath)
    summ = replay_run_cases(ck, cpath, "mc")
    c = ck.cov["conformance"]
    c["run_cases_replayed"] = summ["cases"]
    c["run_mismatches"] = summ["mismatches"]
    ck.cov["samples"] += res.case_samples[:1]
    return res, summ


def executed(prefix, ev):
    """The instruction a step event executed: top of exec in the previous logged state."""
    for p in reversed(prefix[:-1]):
        stk = p.get("stacks") or p.get("st")
        if stk is not None:
            ex = stk["exec"]
            return ex[0] if ex else None
    return None


def sig_trace(ev, prefix):
    if ev.get("ev") == "panic":
        it = executed(prefix, ev)
        return f"trace:panic:{it['f']}.{it.get('o', '')}" if it else "trace:panic"
    it = executed(prefix, ev)
    name = f"{it['f']}.{it.get('o', '')}" if it else "none"
    return f"trace:{ev.get('ev')}:{name}:{ev.get('status', '')}"


def what_trace(ev, prefix):
    it = executed(prefix, ev)
    before = prefix[-2] if len(prefix) >= 2 else {}
    return (f"real interpreter step is not a step of PushVM: executed {json.dumps(it)}; before "
            f"{json.dumps(before.get('stacks') or before.get('st'))}; logged {json.dumps(ev)}")


def tv(ck, runs_quick=400, runs_thorough=12000, shards=8):
    q = ck.tier == "quick"
    total = runs_quick if q else runs_thorough
    nsh = 1 if q else shards
    per = total // nsh
    stats = {"cuts": 0, "events": 0, "runs": 0}
    instrs = set()
    for sh in range(nsh):
        tpath = os.path.join(ck.work, f"vm-trace-{sh}.ndjson")
        p = ck.harness(["vm-trace", "--seed", ck.seed, "--runs", per, "--first-run", sh * per,
                        "--out", tpath], timeout=1800)
        st = json.loads(p.stdout.strip().splitlines()[-1])
        for k in stats:
            stats[k] += st[k]
        ck.validate_runs("vm/Trace_PushVM", "vm/Trace_PushVM.cfg", tpath, sig_trace, what_trace,
                         regen=lambda ev: {"seed": ck.seed, "run": ev.get("run")}, timeout=2400)
        prev = None
        with open(tpath) as fh:
            for ln in fh:
                e = json.loads(ln)
                if e["ev"] == "step" and prev is not None:
                    ex = (prev.get("stacks") or prev.get("st"))["exec"]
                    if ex:
                        instrs.add((ex[0]["f"], ex[0].get("o", "")))
                prev = e if e["ev"] in ("reset", "step") else prev
        if sh == 0:
            tr = vlib.read_ndjson(tpath)
            ck.cov["samples"].append({"trace_events": tr[0:3]})
    c = ck.cov["conformance"]
    c["trace_runs_cut_outside_number_windows"] = stats["cuts"]
    c["trace_distinct_instructions_executed"] = len(instrs)
    return stats, instrs


def replay_one(ck, obj):
    p = os.path.join(ck.work, "one.ndjson")
    if obj["kind"] == "step-case":
        vlib.write_ndjson(p, [obj["case"]])
        replay_step_cases(ck, p, "one")
    elif obj["kind"] == "run-case":
        vlib.write_ndjson(p, [obj["case"]])
        replay_run_cases(ck, p, "one")
    elif obj["kind"] == "trace":
        r = obj["regen"]
        tpath = os.path.join(ck.work, "one-trace.ndjson")
        ck.harness(["vm-trace", "--seed", r["seed"], "--runs", 1, "--first-run", r["run"],
                    "--out", tpath])
        ck.validate_runs("vm/Trace_PushVM", "vm/Trace_PushVM.cfg", tpath, sig_trace, what_trace)
    else:
        raise vlib.ToolError(f"unknown replay kind {obj['kind']}")
