"""spec/gp/PushGP.tla - scoring a Plushy genome as the examples of the `push` crate do
(translation, builder, run, error or penalty, results and total), end to end.  A stage of C01:
it is the composition C01 / C03 / C05 / C15 / C19 exist for, specified as ONE function of the
genome from the operators of the modules that specify the parts."""
import json
import os
import vlib


def sig_of(ev, prefix):
    if ev.get("ev") == "case":
        return f"trace:gp:case:{ev.get('ended')}"
    return f"trace:gp:{ev.get('ev')}"


def what_of(ev, prefix):
    reset = next((p for p in reversed(prefix) if p.get("ev") == "reset"), {})
    return ("scoring a genome through the real pipeline (Vec<PushProgram>::from(genome), builder, "
            "run_to_completion, |answer - expected| or penalty, TestResults) is not a behaviour of "
            f"PushGP.tla: first unmatched event {json.dumps(ev)[:500]}; genome {json.dumps(reset.get('genes'))[:900]} "
            f"stack limit {reset.get('m')} step limit {reset.get('limit')} cases {json.dumps(reset.get('cases'))[:500]}")


def model(ck):
    q = ck.tier == "quick"
    raw = os.path.join(ck.work, "gp-cases.ndjson")
    res = ck.tlc_model("gp/MC_PushGP", "gp/MC_PushGP_quick.cfg" if q else "gp/MC_PushGP_thorough.cfg",
                       workers=4 if q else 12, timeout=3000, cases_path=raw, tag="gp-mc")
    out = os.path.join(ck.work, "gp-replay.ndjson")
    ck.harness(["gp-replay", "--cases", raw, "--out", out], timeout=3000)
    summ = {}
    for r in vlib.read_ndjson(out):
        if r.get("kind") == "summary":
            summ = r
        elif r.get("kind") == "mismatch":
            c = r["case"]
            ck.violation(f"replay:gp:{r['on']}",
                         f"genome {json.dumps(c['genes'])} scored with stack limit {c['m']}, step limit {c['limit']} on cases "
                         f"{json.dumps(c['cases'])}: PushGP.tla allows {json.dumps(c['allowed'])} (program {json.dumps(c['program'])}); "
                         f"the real pipeline gave {json.dumps(r['observed'])[:900]} (differs at: {r['on']})",
                         {"kind": "gp-replay", "case": c})
    return res, summ


def trace(ck, runs, first=0, tag="gp"):
    path = os.path.join(ck.work, f"{tag}-trace.ndjson")
    ck.harness(["gp-trace", "--seed", ck.seed, "--runs", runs, "--first-run", first, "--out", path], timeout=3000)
    ck.validate_runs("gp/Trace_PushGP", "gp/Trace_PushGP.cfg", path, sig_of, what_of,
                     regen=lambda ev: {"seed": ck.seed, "run": ev.get("run"), "gp": True}, timeout=3000)
    rows = vlib.read_ndjson(path)
    return len(rows), sum(1 for r in rows if r.get("ev") == "cutrun")


def evo_sig(ev, prefix):
    return f"trace:gp-evolution:{ev.get('ev')}"


def evo_what(ev, prefix):
    reset = next((p for p in reversed(prefix) if p.get("ev") == "reset"), {})
    return ("a GP run assembled like examples/median (Lexicase -> GenomeExtractor -> Umad -> GenomeScorer, Generation::"
            f"{reset.get('mode')}_next, {reset.get('threads')} threads) is not a behaviour of PushEvolution.tla: first unmatched event "
            f"{json.dumps(ev)[:700]}; population {json.dumps(reset.get('pop'))[:700]}; addition rate {reset.get('add')} deletion rate "
            f"{reset.get('del')} cases {json.dumps(reset.get('cases'))[:300]}")


def evolution(ck, runs, first=0, tag="gp-evo"):
    """the GP loop: PushEvolution.tla model-checked on a tiny universe, real runs validated"""
    states = 0
    if first == 0 and tag == "gp-evo":
        for c in ("Copy", "Delete", "Add", "Both"):
            r = ck.tlc_model("gp/MC_PushEvolution", f"gp/MC_PushEvolution_{c}.cfg", workers=4, timeout=1800, tag=f"gp-evo-{c}")
            states += r.distinct
    path = os.path.join(ck.work, f"{tag}-trace.ndjson")
    ck.harness(["gp-evo-trace", "--seed", ck.seed, "--runs", runs, "--first-run", first, "--out", path], timeout=3000)
    ck.validate_runs("gp/Trace_PushEvolution", "gp/Trace_PushEvolution.cfg", path, evo_sig, evo_what,
                     regen=lambda ev: {"seed": ck.seed, "run": ev.get("run"), "gpevo": True}, timeout=3000)
    return states, len(vlib.read_ndjson(path))


def stage(ck):
    q = ck.tier == "quick"
    res, summ = model(ck)
    n, cuts = trace(ck, 500 if q else 30000)
    estates, en = evolution(ck, 60 if q else 2500)
    ck.cov["conformance"]["gp_evolution_model_states"] = estates
    ck.cov["conformance"]["gp_evolution_events_validated"] = en
    c = ck.cov["conformance"]
    c["gp_model_states"] = res.distinct
    c["gp_genomes_replayed"] = summ.get("cases", 0)
    c["gp_replay_mismatches"] = summ.get("mismatches", 0)
    c["gp_events_validated"] = n
    c["gp_runs_cut"] = cuts
    return summ.get("cases", 0) + n


def replay(ck, obj):
    if obj.get("kind") == "gp-replay":
        raw = os.path.join(ck.work, "gp-one.ndjson")
        with open(raw, "w") as fh:
            fh.write(json.dumps(obj["case"]) + "\n")
        out = os.path.join(ck.work, "gp-one-out.ndjson")
        ck.harness(["gp-replay", "--cases", raw, "--out", out])
        for r in vlib.read_ndjson(out):
            if r.get("kind") == "mismatch":
                ck.violation(f"replay:gp:{r['on']}", f"the real pipeline gave {json.dumps(r['observed'])[:900]}",
                             {"kind": "gp-replay", "case": obj["case"]})
    elif obj["regen"].get("gpevo"):
        evolution(ck, 1, first=obj["regen"]["run"], tag="gp-evo-one")
    else:
        trace(ck, 1, first=obj["regen"]["run"], tag="gp-one")
