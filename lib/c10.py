"""C10 - crossover recombines parental genes position-wise and reports misuse as errors."""
import json
import os
import vlib
import varcheck

LEVEL = "model_checking"


def segments(ck, spec_sets, draws):
    """Coverage obligation: every child the spec says two-point crossover can produce for
    tagged parents of length n must occur among `draws` real crossovers (and nothing else)."""
    out = os.path.join(ck.work, "segments.ndjson")
    maxlen = max(spec_sets)
    ck.harness(["var-segments", "--seed", ck.seed, "--draws", draws, "--maxlen", maxlen, "--out", out],
               timeout=1800)
    rows = vlib.read_ndjson(out)
    for r in rows:
        n = r["n"]
        want = spec_sets[n]
        if r["form"].startswith("bits"):
            want = {tuple(1 if g > 100 else 0 for g in c) for c in want}
        got = {tuple(c) for c in r["children"]}
        if r["not_ok"]:
            ck.violation(f"segments:{r['form']}:n{n}:not_ok",
                         f"two-point crossover of equal-length parents (n={n}, {r['form']}) failed "
                         f"{r['not_ok']} times out of {r['draws']}", {"kind": "segments", "row": r})
        missing = want - got
        extra = got - want
        if missing:
            ck.violation(f"segments:{r['form']}:n{n}:missing",
                         f"two-point crossover never produced {len(missing)} of the {len(want)} "
                         f"segments the property requires in {r['draws']} draws (n={n}, {r['form']}), "
                         f"e.g. child {sorted(missing)[0]}", {"kind": "segments", "row": r,
                                                                "missing": sorted(missing)[:5]})
        if extra:
            ck.violation(f"segments:{r['form']}:n{n}:extra",
                         f"two-point crossover produced children that are not one contiguous "
                         f"segment, e.g. {sorted(extra)[0]}", {"kind": "segments", "row": r})
    return len(rows)


def pairs(ck, draws):
    """Coverage obligation PairsFree: in genomes of 65-193 genes every two positions 1..128 apart
    must be decided in all four ways over `draws` uniform crossovers ((3/4)^draws is negligible)."""
    out = os.path.join(ck.work, "pairs.ndjson")
    ck.harness(["var-pairs", "--seed", ck.seed, "--draws", draws, "--out", out], timeout=1800)
    rows = vlib.read_ndjson(out)
    for r in rows:
        if r["not_ok"]:
            ck.violation(f"pairs:{r['form']}:n{r['n']}:not_ok",
                         f"uniform crossover of equal-length parents (n={r['n']}, {r['form']}) failed "
                         f"{r['not_ok']} times out of {r['draws']}", {"kind": "pairs", "row": r})
        elif r["fewest_pairs"] < 4:
            ck.violation(f"pairs:{r['form']}:n{r['n']}:d{r['d']}",
                         f"uniform crossover ({r['form']}, {r['n']} genes): positions {r['at']} and "
                         f"{r['at'] + r['d']} were decided in only {r['fewest_pairs']} of the 4 possible ways "
                         f"in {r['draws']} crossovers - they are not decided independently",
                         {"kind": "pairs", "row": r})
    return len(rows)


def run(ck):
    q = ck.tier == "quick"
    res, cpath = varcheck.mc(ck)
    summ = varcheck.replay(ck, cpath, "mc")
    spec_sets = {s["n"]: {tuple(c) for c in s["children"]} for s in res.tagged.get("SEGS", [])}
    # (1 - 1/(n+1)^2)^draws < 1e-12 for n <= 6 needs draws >= 1400; far more are taken
    nrows = segments(ck, spec_sets, 20000 if q else 400000)
    prow = pairs(ck, 400 if q else 4000)
    n, samples = varcheck.tv(ck, {"xo", "xch"}, 6000 if q else 400000)
    ck.cov["evaluations"] = summ["cases"] + n
    ck.cov["distinct_nontrivial"] = summ["cases"]
    ck.cov["rule"] = ("deterministic cases of MC_Variation (every bit pattern pair x every index / "
                      "range incl. inverted and out-of-range; every unequal length pair x 4 input "
                      "forms), all distinct; random calls counted under evaluations only")
    ck.cov["exhaustive"] = True
    ck.cov["samples"] = res.case_samples[:2] + samples
    ck.cov["conformance"].update({"replay_cases": summ["cases"], "replay_mismatches": summ["mismatches"],
                                  "segment_rows": nrows, "pair_rows": prow})
    ck.cov["checker_cmd"] = "tlc MC_Variation; vh var-replay; vh var-segments; vh var-trace + tlc Trace_Variation"
    ck.assumptions += ["L7: only the support of the two-point cut-point distribution is checked",
                       "bitstring parents are all-0 vs all-1 or complementary patterns"]


def replay(ck, obj):
    if obj["kind"] == "pairs":
        pairs(ck, obj["row"]["draws"])
    elif obj["kind"] == "segments":
        res, cpath = varcheck.mc(ck)
        spec_sets = {s["n"]: {tuple(c) for c in s["children"]} for s in res.tagged.get("SEGS", [])}
        segments(ck, spec_sets, obj["row"]["draws"])
    else:
        varcheck.replay_one(ck, obj, {"xo", "xch"})
