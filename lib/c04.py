"""C04 - the bounded stack is a faithful, all-or-nothing LIFO.

spec/stack/BoundedStack.tla; MC_BoundedStack (universe of states x every operation, with
the clauses of the property as action properties); replay of every emitted case on a real
Stack<u8>; trace validation of random histories on one real stack object."""
import os
import vlib

LEVEL = "model_checking"


def sig_replay(m):
    op = m["case"]["op"]["name"]
    ob = m["observed"]
    if "panic" in ob:
        cls = "panic"
    else:
        n, mx = len(m["case"]["vals"]), m["case"]["max"]
        rel = "overfull" if n > mx else ("full" if n == mx else "room")
        cls = f"{rel}:{ob['ret']['k']}"
    return f"replay:stack.{op}:{cls}"


def what_replay(m):
    c = m["case"]
    return (f"Stack {c['vals']} (top first, max {c['max']}) op {c['op']}: real code gave "
            f"{m['observed']}, spec allows {c['allowed']}")


def do_replay(ck, cases_path, tag):
    out = os.path.join(ck.work, f"replay-{tag}.ndjson")
    ck.harness(["stack-replay", "--cases", cases_path, "--out", out])
    res = vlib.read_ndjson(out)
    summ = res[-1]
    for m in res[:-1]:
        ck.violation(sig_replay(m), what_replay(m), {"kind": "replay-case", "case": m["case"],
                                                      "observed": m["observed"]})
    return summ


def sig_trace(ev, prefix):
    if ev.get("ev") == "panic":
        return f"trace:stack.{ev['op']['name']}:panic"
    pre = prefix[-2] if len(prefix) >= 2 else {}
    n = len(pre.get("vals", []))
    mx = pre.get("max", 0)
    rel = "overfull" if n > mx else ("full" if n == mx else "room")
    return f"trace:stack.{ev['op']['name']}:{rel}:{ev['ret']['k']}"


def what_trace(ev, prefix):
    pre = prefix[-2] if len(prefix) >= 2 else {}
    return (f"history step not a behaviour of BoundedStack: before vals={pre.get('vals')} "
            f"max={pre.get('max')}; event {ev}")


def run(ck):
    q = ck.tier == "quick"
    cfg = "stack/MC_BoundedStack_quick.cfg" if q else "stack/MC_BoundedStack_thorough.cfg"
    res = ck.tlc_model("stack/MC_BoundedStack", cfg, workers=4 if q else 8)
    cases = res.tagged.get("CASE", [])
    if not cases:
        raise vlib.ToolError("MC_BoundedStack emitted no cases")
    cpath = os.path.join(ck.work, "cases.ndjson")
    vlib.write_ndjson(cpath, cases)
    summ = do_replay(ck, cpath, "mc")
    ck.cov["evaluations"] = summ["cases"]
    nontrivial = {(tuple(c["vals"]), c["max"], vlib.json.dumps(c["op"], sort_keys=True))
                  for c in cases if c["allowed"][0]["ret"]["k"] != "ok" or
                  c["allowed"][0]["vals"] != c["vals"]}
    ck.cov["distinct_nontrivial"] = len(nontrivial)
    ck.cov["rule"] = ("cases = every (contents up to Depth over Values) x (every capacity) x "
                      "(every operation) of the TLC universe; non-trivial = the operation changes "
                      "the contents or must fail")
    ck.cov["conformance"]["replay_cases"] = summ["cases"]
    ck.cov["conformance"]["replay_mismatches"] = summ["mismatches"]
    ck.cov["exhaustive"] = True
    ck.cov["samples"] = cases[:2] + cases[len(cases) // 2: len(cases) // 2 + 1]

    # impl -> spec
    runs, ln = (60, 150) if q else (3000, 200)
    tpath = os.path.join(ck.work, "stack-trace.ndjson")
    ck.harness(["stack-trace", "--seed", ck.seed, "--runs", runs, "--len", ln, "--out", tpath])
    ck.validate_runs("stack/Trace_BoundedStack", "stack/Trace_BoundedStack.cfg", tpath,
                     sig_trace, what_trace,
                     regen=lambda ev: {"seed": ck.seed, "run": ev.get("run"), "len": ln},
                     timeout=1800)
    tr = vlib.read_ndjson(tpath)
    ck.cov["samples"].append({"trace_events": tr[1:4]})
    proofs(ck)
    ck.cov["checker_cmd"] = ("tlc MC_BoundedStack + vh stack-replay + tlc Trace_BoundedStack; "
                             "tlapm BoundedStackProofs (unbounded step theorems)")
    ck.assumptions += [
        "element type u8; contents read by popping a clone of the stack",
        "L4: is_full and empty bulk insertion on an over-full stack may answer either way",
    ]


def proofs(ck):
    """TLAPS: AllOrNothing / ErrorKinds / Inert / CapacityRespected as theorems about Outcomes for ALL
    contents, capacities and arguments (no small-scope bound). A proof that does not go through says
    something about the specification or the prover, never about the code: it is recorded, not a verdict."""
    import shutil
    import subprocess
    src = os.path.join(vlib.SPEC, "stack")
    dst = os.path.join(ck.work, "tlaps")
    shutil.rmtree(dst, ignore_errors=True)
    os.makedirs(dst)
    for f in ("BoundedStack.tla", "BoundedStackProofs.tla"):
        shutil.copy(os.path.join(src, f), dst)
    try:
        p = subprocess.run(["tlapm", "--threads", "6", "BoundedStackProofs.tla"], cwd=dst, stdout=subprocess.PIPE,
                           stderr=subprocess.STDOUT, text=True, timeout=900)
        m = vlib.re.search(r"All (\d+) obligations proved", p.stdout)
        ck.cov["conformance"]["tlaps_obligations_proved"] = int(m.group(1)) if m else 0
        if not m:
            vlib.log("note: tlapm did not prove every obligation of BoundedStackProofs: " + p.stdout[-300:])
    except (OSError, subprocess.TimeoutExpired) as e:
        vlib.log(f"note: tlapm not run ({e})")
        ck.cov["conformance"]["tlaps_obligations_proved"] = None


def replay(ck, obj):
    if obj["kind"] == "replay-case":
        p = os.path.join(ck.work, "one.ndjson")
        vlib.write_ndjson(p, [obj["case"]])
        do_replay(ck, p, "one")
    else:
        r = obj["regen"]
        tpath = os.path.join(ck.work, "one-trace.ndjson")
        ck.harness(["stack-trace", "--seed", r["seed"], "--runs", 1, "--first-run", r["run"],
                    "--len", r["len"], "--out", tpath])
        ck.validate_runs("stack/Trace_BoundedStack", "stack/Trace_BoundedStack.cfg", tpath,
                         sig_trace, what_trace)
