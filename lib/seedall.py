#!/usr/bin/env python3
"""seedall.py [--jobs N] [--only PREFIX] [--neutral]
Re-runs every stored seeded (or neutral) change against the COMMITTED checks, in isolated mode
(lib/seedtest.py --isolated --skip-confirm), N at a time; prints one line per change and a summary
of misses (seeded change not caught by its own property's check) / false alarms (neutral change
on which a check raised a violation)."""
import argparse
import concurrent.futures as cf
import json
import os
import subprocess
import sys

ROOT = os.path.dirname(os.path.dirname(os.path.abspath(__file__)))


def one(kind, sid, tier):
    d = os.path.join(ROOT, kind, sid)
    meta = json.load(open(os.path.join(d, "meta.json")))
    checks = sorted(set(list(meta.get("checks_run", {}).keys()) + [meta["property"]]))
    cmd = [sys.executable, os.path.join(ROOT, "lib", "seedtest.py"), d, sid, "--checks", ",".join(checks),
           "--isolated", "--skip-confirm", "--tier", tier] + (["--neutral"] if kind == "neutral" else [])
    subprocess.run(cmd, stdout=subprocess.PIPE, stderr=subprocess.STDOUT, text=True)
    meta = json.load(open(os.path.join(d, "meta.json")))
    return sid, meta["property"], {c: r["exit"] for c, r in meta["checks_run"].items()}, bool(meta.get("note"))


def main():
    ap = argparse.ArgumentParser()
    ap.add_argument("--jobs", type=int, default=4)
    ap.add_argument("--only", default="")
    ap.add_argument("--neutral", action="store_true")
    ap.add_argument("--tier", default="quick")
    ap.add_argument("--match", default="", help="regular expression the id must match")
    a = ap.parse_args()
    kind = "neutral" if a.neutral else "seeded"
    import re
    ids = sorted(x for x in os.listdir(os.path.join(ROOT, kind)) if x.startswith(a.only) and re.search(a.match, x))
    bad = []
    with cf.ThreadPoolExecutor(a.jobs) as ex:
        for sid, prop, res, noted in ex.map(lambda s: one(kind, s, a.tier), ids):
            line = " ".join(f"{c}={e}" for c, e in sorted(res.items()))
            print(f"{sid} [{prop}] {line}", flush=True)
            if kind == "seeded" and res.get(prop) != 1 and not noted:
                bad.append((sid, "MISSED by its own property's check", line))
            if kind == "neutral" and any(e != 0 for e in res.values()):
                bad.append((sid, "ALARM/ERROR on a neutral change", line))
    print(f"{len(ids)} changes, {len(bad)} need attention")
    for b in bad:
        print("  ", *b)
    return 1 if bad else 0


if __name__ == "__main__":
    sys.exit(main())
