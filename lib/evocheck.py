"""Whole-run specification Evolution.tla: model checking of every configuration file and trace
validation of real runs assembled like the count_ones example (shared by C09 and C14)."""
import json
import os
import vlib

QUICK = ["full_q", "elitist_q", "xo_only_q", "flip_q", "uniform_q"]
THOROUGH = QUICK + ["full_t", "xo_only_t", "uniform_t"]


def sig(ev, prefix):
    reset = next((p for p in prefix if p.get("ev") == "reset"), {})
    return f"trace:evolution:{ev.get('ev')}:{reset.get('mode')}:{reset.get('xo')}:{reset.get('mut')}"


def what(ev, prefix):
    reset = next((p for p in prefix if p.get("ev") == "reset"), {})
    cfg = {k: reset.get(k) for k in ("n", "l", "sels", "xo", "mut", "mode", "threads")}
    return (f"a real evolutionary run ({json.dumps(cfg)}) is not a behaviour of Evolution.tla: first unmatched "
            f"event {json.dumps(ev)[:900]}; population before the run {json.dumps(reset.get('pop'))[:300]}")


def model(ck):
    states = 0
    for c in (QUICK if ck.tier == "quick" else THOROUGH):
        res = ck.tlc_model("ec/MC_Evolution", f"ec/MC_Evolution_{c}.cfg", workers=4 if ck.tier == "quick" else 10,
                           timeout=3000, xmx="6g" if ck.tier == "quick" else "16g")
        states += res.distinct
    return states


def tv(ck, runs, first=0, tag="evo"):
    path = os.path.join(ck.work, f"{tag}-trace.ndjson")
    ck.harness(["evo-trace", "--seed", ck.seed, "--runs", runs, "--first-run", first, "--out", path], timeout=3000)
    ck.validate_runs("ec/Trace_Evolution", "ec/Trace_Evolution.cfg", path, sig, what,
                     regen=lambda ev: {"seed": ck.seed, "run": ev.get("run"), "evolution": True}, timeout=3000)
    return vlib.read_ndjson(path)


def run(ck, runs):
    states = model(ck)
    evs = tv(ck, runs)
    ck.cov["conformance"]["evolution_model_states"] = states
    ck.cov["conformance"]["evolution_runs_validated"] = sum(1 for e in evs if e.get("ev") == "reset")
    ck.cov["conformance"]["evolution_children_validated"] = sum(1 for e in evs if e.get("ev") == "child")
    ck.assumptions.append("Evolution.tla: whole runs assembled like examples/count_ones (real DynWeighted mix, "
                          "Select.apply_twice, then_map(GenomeExtractor), Recombine, Mutate, GenomeScorer, Generation) "
                          "are validated stage by stage through pass-through tap operators")
    return evs
