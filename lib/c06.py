"""C06 - selectors return a member of the given population or a documented error."""
import vlib
import selcheck

LEVEL = "model_checking"


def run(ck):
    q = ck.tier == "quick"
    res, cpath = selcheck.mc_selection(ck)
    summ = selcheck.replay_selection(ck, cpath, "all", reps=6 if q else 40)
    n1, s1 = selcheck.tv_selection(ck, 3000 if q else 200000)
    n2, s2 = selcheck.tv_nested(ck, 2000 if q else 100000)
    ck.cov["evaluations"] = summ["cases"] + n1 + n2
    ck.cov["distinct_nontrivial"] = res.ncases
    ck.cov["rule"] = ("every (selector, configuration, population) of MC_Selection: populations of 0..3/4 "
                      "individuals with scores 0..2 (empty, singleton, all-equal, duplicates), tournament "
                      "sizes 1..n+1, lexicase case counts 0..m+1 incl. ragged result vectors; each replayed "
                      "on Vec, VecDeque and array populations")
    ck.cov["exhaustive"] = True
    ck.cov["samples"] = res.case_samples[:2] + s1[:1] + s2
    ck.cov["conformance"].update({"replay_selections": summ["cases"], "replay_mismatches": summ["mismatches"],
                                  "random_selections_validated": n1, "nested_or_erased_validated": n2})
    ck.cov["checker_cmd"] = ("tlc MC_Selection (ResultSound); vh sel-replay; vh sel-trace, wt-nested-trace "
                             "+ tlc Trace_Selection")
    ck.assumptions += ["membership is decided by address (ptr::eq) against the population passed in",
                       "L3: ties may be broken either way", "L5: error texts are not compared, payloads are"]


def replay(ck, obj):
    if obj["kind"] == "sel-case":
        import os
        p = os.path.join(ck.work, "one.ndjson")
        vlib.write_ndjson(p, [obj["case"]])
        selcheck.replay_selection(ck, p, "one", reps=200)
    else:
        selcheck.replay_trace_one(ck, obj)
