"""C14 - composed operators run their parts in order and stop at the first failure."""
import json
import os
import vlib

LEVEL = "model_checking"


def sig(m):
    ob = m["observed"]
    exp = m["case"]["exp"]
    if "panic" in ob:
        return f"replay:compose:{m['case']['case']['e']['op']}:panic"
    bad = sorted(k for k in exp if ob.get(k) != exp[k])
    return f"replay:compose:{m['case']['case']['e']['op']}:{m.get('leaf_kind')}:{'+'.join(bad)}"


def what(m):
    c = m["case"]
    return (f"expression {json.dumps(c['case']['e'])} on input {json.dumps(c['case']['x'])} with component "
            f"call #{c['case']['failAt']} failing (leaf kind {m.get('leaf_kind')}): real result "
            f"{json.dumps(m['observed'])}; spec {json.dumps(c['exp'])}")


def do_replay(ck, path, tag):
    out = os.path.join(ck.work, f"cmp-replay-{tag}.ndjson")
    ck.harness(["cmp-replay", "--cases", path, "--out", out], timeout=1800)
    res = vlib.read_ndjson(out)
    for m in res[:-1]:
        ck.violation(sig(m), what(m), {"kind": "cmp-case", "case": m["case"], "leaf_kind": m.get("leaf_kind"),
                                        "observed": m["observed"]})
    return res[-1]


def sig_t(ev, prefix):
    return f"trace:compose:{ev['case']['e']['op']}:{ev.get('leaf_kind')}:fail{1 if ev['case']['failAt'] else 0}"


def what_t(ev, prefix):
    return f"real application differs from Compose.tla's evaluation: {json.dumps(ev)[:1500]}"


def tv(ck, runs, first=0, tag="cmp"):
    path = os.path.join(ck.work, f"{tag}-trace.ndjson")
    ck.harness(["cmp-trace", "--seed", ck.seed, "--runs", runs, "--first-run", first, "--out", path], timeout=1800)
    ck.validate_runs("ec/Trace_Compose", "ec/Trace_Compose.cfg", path, sig_t, what_t,
                     regen=lambda ev: {"seed": ck.seed, "run": ev["run"]}, timeout=2400)
    return vlib.read_ndjson(path)


def run(ck):
    q = ck.tier == "quick"
    cfg = "ec/MC_Compose_quick.cfg" if q else "ec/MC_Compose_thorough.cfg"
    cpath = os.path.join(ck.work, "cmp-cases.ndjson")
    res = ck.tlc_model("ec/MC_Compose", cfg, workers=6 if q else 12, timeout=3400, cases_path=cpath,
                       xmx="8g" if q else "24g")
    summ = do_replay(ck, cpath, "mc")
    evs = tv(ck, 1500 if q else 60000)
    ck.cov["evaluations"] = summ["cases"] + len(evs)
    ck.cov["distinct_nontrivial"] = res.ncases
    ck.cov["rule"] = ("every well-typed expression of depth <= 2 over then/and/map(pair,array,vec)/repeat/"
                      "identity/constant/component with at most MaxCalls component calls x input shape x "
                      "failing call position (0 = none); each run with the plain component and with one of "
                      "the Mutate / Mutate(&) / Recombine / Recombine(&) wrappers")
    ck.cov["exhaustive"] = True
    ck.cov["samples"] = res.case_samples[:2] + evs[:1]
    ck.cov["conformance"].update({"replay_evaluations": summ["cases"], "replay_mismatches": summ["mismatches"],
                                  "random_compositions_validated": len(evs),
                                  "max_component_calls_in_random_compositions": max((len(e["res"].get("log", [])) for e in evs), default=0)})
    ck.cov["checker_cmd"] = ("tlc MC_Compose (LeftToRight StopsAtFirstFailure ErrorLocates PrefixOfFullRun); "
                             "vh cmp-replay; vh cmp-trace + tlc Trace_Compose")
    ck.assumptions += ["the combinator and error types are private to ec-core: compositions are built with the "
                       "public Composable methods and error variants are read from Debug/Display/source()",
                       "Select / GenomeExtractor / GenomeScorer wrappers are exercised in C15-C17, not here"]


def replay(ck, obj):
    if obj["kind"] == "cmp-case":
        p = os.path.join(ck.work, "one.ndjson")
        vlib.write_ndjson(p, [obj["case"]])
        do_replay(ck, p, "one")
    else:
        tv(ck, 1, first=obj["regen"]["run"], tag="one")
