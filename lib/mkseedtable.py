#!/usr/bin/env python3
"""Regenerates the tables of DESIGN.md section 9.5 (between the SEEDED-TABLE / NEUTRAL-TABLE markers)
from seeded/*/meta.json and neutral/*/meta.json."""
import json
import os
import re

ROOT = os.path.dirname(os.path.dirname(os.path.abspath(__file__)))


def rows(kind):
    out = []
    d = os.path.join(ROOT, kind)
    for sid in sorted(os.listdir(d)):
        m = json.load(open(os.path.join(d, sid, "meta.json")))
        summ = (m.get("summary") or "").replace("|", "/").replace("\n", " ")
        summ = summ[:150] + ("..." if len(summ) > 150 else "")
        res = m.get("checks_run", {})
        if kind == "seeded":
            caught = [c for c, r in sorted(res.items()) if r["exit"] == 1 and r["violations"] > 0]
            own = m["property"] in caught
            tail = "" if own else (" (within latitude, see note)" if m.get("note") else " (NOT by its own check)")
            out.append(f"| {sid} | {m['property']} | {summ} | {', '.join(caught) or '-'}{tail} |")
        else:
            alarms = [c for c, r in sorted(res.items()) if r["exit"] != 0]
            out.append(f"| {sid} | {m['property']} | {summ} | {', '.join(sorted(res))} | {', '.join(alarms) or 'none'} |")
    return out


def main():
    p = os.path.join(ROOT, "DESIGN.md")
    s = open(p).read()
    st = "| id | property | change | caught by (quick tier) |\n|---|---|---|---|\n" + "\n".join(rows("seeded")) + "\n"
    nt = ("| id | property | change (the property still holds) | checks run | alarms |\n|---|---|---|---|---|\n"
          + "\n".join(rows("neutral")) + "\n")
    s = re.sub(r"(<!-- SEEDED-TABLE -->\n).*?(<!-- /SEEDED-TABLE -->)", lambda m: m.group(1) + st + m.group(2), s, flags=re.S)
    s = re.sub(r"(<!-- NEUTRAL-TABLE -->\n).*?(<!-- /NEUTRAL-TABLE -->)", lambda m: m.group(1) + nt + m.group(2), s, flags=re.S)
    open(p, "w").write(s)


if __name__ == "__main__":
    main()
