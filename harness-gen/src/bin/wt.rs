use verif_harness_gen::*;
use push::push_vm::push_state::PushState;
fn main() {
    let r = (|| -> Result<PushState, (usize, push::push_vm::stack::StackError)> {
        Ok(PushState::builder().with_max_stack_size(2).with_int_values([7i64, 8]).map_err(|e| (1, e))?
           .with_program([p(1), p(2)]).map_err(|e| (2, e))?.with_instruction_step_limit(5).with_bool_input("x", true).build())
    })();
    println!("{}", observe_push(r, &[]));
    let r = (|| -> Result<AltState, (usize, push::push_vm::stack::StackError)> {
        Ok(AltState::builder().with_max_stack_size(2).with_wrapped_values([Wrapped(7), Wrapped(8)]).map_err(|e| (1, e))?
           .with_program([p(1), p(2)]).map_err(|e| (2, e))?.with_instruction_step_limit(5).with_wrapped_input("x", Wrapped(4)).build())
    })();
    println!("{}", observe_alt(r));
}
