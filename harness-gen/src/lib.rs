//! Fixed part of the generated C19 crate: a second state type the builder macro is applied to
//! (different number, order and naming of stacks, a renamed builder method, two stacks whose
//! element types differ only by a newtype), and the observation helpers.

pub use ordered_float::OrderedFloat;
use push::{
    instruction::{variable_name::VariableName, IntInstruction, PushInstruction},
    push_vm::{program::PushProgram, push_state::PushState, stack::{Stack, StackError}, HasStack},
};
use serde_json::{json, Value};

pub use push::push_vm::verif_alt_state::{AltState, MiniState, SplitState, Wrapped};

pub fn p(n: i64) -> PushProgram {
    PushProgram::Instruction(IntInstruction::push(n).into())
}

const UNBOUNDED: usize = 1_000_000;
fn cap(m: usize) -> usize {
    if m == usize::MAX { UNBOUNDED } else { m }
}

fn top_first<T: Clone>(s: &Stack<T>) -> Vec<T> {
    let mut c = s.clone();
    let mut v = Vec::new();
    while let Ok(x) = c.pop() {
        v.push(x);
    }
    v
}

fn prog_ids(s: &Stack<PushProgram>) -> Vec<i64> {
    top_first(s)
        .iter()
        .map(|p| match p {
            PushProgram::Instruction(PushInstruction::IntInstruction(IntInstruction::Push(v))) => v.0,
            _ => -1,
        })
        .collect()
}

/// model stack a = int (7, 8, 9), b = bool (7 -> true, 8 -> false, 9 -> true)
pub fn b_of(v: i64) -> bool {
    v != 8
}
fn b_back(stack: &[bool], supplied_like: &[i64]) -> Vec<i64> {
    // bools carry less information than the model's values: report them as the model value
    // they stand for when consistent with position parity, else -1
    stack.iter().zip(supplied_like.iter().chain(std::iter::repeat(&-1))).map(|(b, want)| if *b == b_of(*want) { *want } else { -1 }).collect()
}

pub fn observe_push(r: Result<Option<PushState>, (usize, StackError)>, expect_b: &[i64]) -> Value {
    match r {
        Ok(None) => json!({"status": "no_overflow"}),
        Err((at, StackError::Overflow { .. })) => json!({"status": "overflow", "at": at}),
        Err((at, e)) => json!({"status": "other_error", "at": at, "err": e.to_string()}),
        Ok(Some(st)) => {
            let ints = top_first(st.stack::<i64>());
            let bools = top_first(st.stack::<bool>());
            // inputs: perform the variable on a copy and see what appears where
            let mut inputs = Vec::new();
            for name in ["x"] {
                let known = format!("{st:?}").contains(&format!("VariableName(\"{name}\")"));
                if !known {
                    continue;
                }
                let mut probe = st.clone();
                probe.stack_mut::<i64>().set_max_stack_size(usize::MAX);
                probe.stack_mut::<bool>().set_max_stack_size(usize::MAX);
                if let Ok(after) = probe.with_input(&VariableName::from(name)) {
                    if after.stack::<i64>().size() == ints.len() + 1 {
                        inputs.push(json!({"name": name, "s": "a", "v": after.stack::<i64>().top().copied().unwrap_or(-1)}));
                    } else if after.stack::<bool>().size() == bools.len() + 1 {
                        inputs.push(json!({"name": name, "s": "b", "v": if after.stack::<bool>().top().copied().unwrap_or(false) { 4 } else { -1 }}));
                    }
                }
            }
            json!({"status": "built",
                   "vals": {"a": ints, "b": b_back(&bools, expect_b)},
                   "max": {"a": cap(st.stack::<i64>().max_stack_size()), "b": cap(st.stack::<bool>().max_stack_size())},
                   "third_max": cap(st.stack::<OrderedFloat<f64>>().max_stack_size()),
                   "third_size": st.stack::<OrderedFloat<f64>>().size(),
                   "exec": prog_ids(st.stack::<PushProgram>()),
                   "execMax": cap(st.stack::<PushProgram>().max_stack_size()),
                   "limit": st.max_instruction_steps(),
                   "inputs": inputs})
        }
    }
}

pub fn observe_alt(r: Result<Option<AltState>, (usize, StackError)>) -> Value {
    match r {
        Ok(None) => json!({"status": "no_overflow"}),
        Err((at, StackError::Overflow { .. })) => json!({"status": "overflow", "at": at}),
        Err((at, e)) => json!({"status": "other_error", "at": at, "err": e.to_string()}),
        Ok(Some(st)) => {
            // through the generated accessors ...
            let a: Vec<i64> = top_first(st.stack::<Wrapped>()).iter().map(|w| w.0).collect();
            let b: Vec<i64> = top_first(st.stack::<i64>());
            // ... which must address the declared fields
            let fields_agree = top_first(&st.alt).iter().map(|w| w.0).collect::<Vec<_>>() == a
                && top_first(&st.int) == b
                && st.stack::<Wrapped>().max_stack_size() == st.alt.max_stack_size()
                && st.stack::<i64>().max_stack_size() == st.int.max_stack_size()
                && st.stack::<bool>().max_stack_size() == st.zz_flags.max_stack_size()
                && st.stack::<PushProgram>().max_stack_size() == st.code.max_stack_size();
            let mut inputs = Vec::new();
            if let Some(ins) = st.inputs.get(&VariableName::from("x")) {
                if let PushInstruction::IntInstruction(IntInstruction::Push(v)) = ins {
                    if v.0 >= 1000 {
                        inputs.push(json!({"name": "x", "s": "a", "v": v.0 - 1000}));
                    } else {
                        inputs.push(json!({"name": "x", "s": "b", "v": v.0}));
                    }
                }
            }
            let mut o = json!({"status": "built", "vals": {"a": a, "b": b},
                   "max": {"a": cap(st.alt.max_stack_size()), "b": cap(st.int.max_stack_size())},
                   "third_max": cap(st.zz_flags.max_stack_size()), "third_size": st.zz_flags.size(),
                   "exec": prog_ids(&st.code), "execMax": cap(st.code.max_stack_size()),
                   "limit": st.steps, "inputs": inputs});
            if !fields_agree {
                o["accessors_address_other_fields"] = json!(true);
            }
            o
        }
    }
}

pub fn observe_mini(r: Result<Option<MiniState>, (usize, StackError)>) -> Value {
    match r {
        Ok(None) => json!({"status": "no_overflow"}),
        Err((at, StackError::Overflow { .. })) => json!({"status": "overflow", "at": at}),
        Err((at, e)) => json!({"status": "other_error", "at": at, "err": e.to_string()}),
        Ok(Some(st)) => {
            let a: Vec<i64> = top_first(st.stack::<i64>());
            let fields_agree = top_first(&st.only) == a
                && st.stack::<i64>().max_stack_size() == st.only.max_stack_size()
                && st.stack::<PushProgram>().max_stack_size() == st.todo.max_stack_size()
                && prog_ids(st.stack::<PushProgram>()) == prog_ids(&st.todo);
            let mut o = json!({"status": "built", "vals": {"a": a}, "max": {"a": cap(st.only.max_stack_size())},
                               "exec": prog_ids(&st.todo), "execMax": cap(st.todo.max_stack_size())});
            if !fields_agree {
                o["accessors_address_other_fields"] = json!(true);
            }
            o
        }
    }
}

pub fn observe_split(r: Result<Option<SplitState>, (usize, StackError)>, expect_b: &[i64]) -> Value {
    match r {
        Ok(None) => json!({"status": "no_overflow"}),
        Err((at, StackError::Overflow { .. })) => json!({"status": "overflow", "at": at}),
        Err((at, e)) => json!({"status": "other_error", "at": at, "err": e.to_string()}),
        Ok(Some(st)) => {
            let a: Vec<i64> = top_first(st.stack::<i64>());
            let bools = top_first(st.stack::<bool>());
            let fields_agree = top_first(&st.int) == a && top_first(&st.bool) == bools
                && st.stack::<i64>().max_stack_size() == st.int.max_stack_size()
                && st.stack::<bool>().max_stack_size() == st.bool.max_stack_size()
                && st.stack::<Wrapped>().max_stack_size() == st.third.max_stack_size()
                && st.stack::<PushProgram>().max_stack_size() == st.exec.max_stack_size();
            let mut inputs = Vec::new();
            match st.inputs.get(&VariableName::from("x")) {
                Some(PushInstruction::IntInstruction(IntInstruction::Push(v))) => inputs.push(json!({"name": "x", "s": "a", "v": v.0})),
                // the model binds the value 4, the generated call passes `true`, the struct's own input
                // instruction pushes its negation
                Some(PushInstruction::BoolInstruction(push::instruction::BoolInstruction::Push(v))) =>
                    inputs.push(json!({"name": "x", "s": "b", "v": if v.0 { -1 } else { 4 }})),
                Some(_) => inputs.push(json!({"name": "x", "s": "?", "v": -1})),
                None => {}
            }
            let mut o = json!({"status": "built", "vals": {"a": a, "b": b_back(&bools, expect_b)},
                   "max": {"a": cap(st.int.max_stack_size()), "b": cap(st.bool.max_stack_size())},
                   "third_max": cap(st.third.max_stack_size()), "third_size": st.third.size(),
                   "exec": prog_ids(&st.exec), "execMax": cap(st.exec.max_stack_size()),
                   "limit": st.steps, "inputs": inputs});
            if !fields_agree {
                o["accessors_address_other_fields"] = json!(true);
            }
            o
        }
    }
}

/// The THIRD value stack of `PushState` (floats), which the enumerated call sequences leave alone: values and a
/// named input supplied through the builder are in the built state bit for bit - NaN, signed zeros, infinities
/// and a subnormal included - whatever the order of the calls; the maximum is the one set last.
pub fn float_fidelity() -> Vec<Value> {
    let vals = [f64::NAN, -0.0, 0.0, 1.5, f64::INFINITY, f64::NEG_INFINITY, f64::MAX, f64::MIN_POSITIVE / 2.0, -2.25];
    let bits = |s: &Stack<OrderedFloat<f64>>| -> Vec<String> { top_first(s).iter().map(|f| format!("{:016x}", f.0.to_bits())).collect() };
    let mut out = Vec::new();
    for (k, v) in vals.iter().enumerate() {
        let others = [vals[(k + 1) % vals.len()], *v, vals[(k + 4) % vals.len()]];
        let want_vals: Vec<String> = others.iter().map(|f| format!("{:016x}", f.to_bits())).collect();
        let want = json!({"values_top_first": want_vals, "input": format!("{:016x}", v.to_bits()), "max": 4 + k, "int_input": 3});
        for order in 0..2 {
            let r = std::panic::catch_unwind(|| {
                let st = if order == 0 {
                    PushState::builder().with_max_stack_size(9).with_float_max_size(4 + k)
                        .with_float_values(others.map(OrderedFloat)).expect("three values fit")
                        .with_no_program().with_instruction_step_limit(10)
                        .with_float_input("f", OrderedFloat(*v)).with_int_input("i", 3).build()
                } else {
                    PushState::builder().with_int_input("i", 3).with_float_input("f", OrderedFloat(*v))
                        .with_max_stack_size(4 + k)
                        .with_float_values(others.map(OrderedFloat)).expect("three values fit")
                        .with_instruction_step_limit(10).with_no_program().build()
                };
                let values = bits(st.stack::<OrderedFloat<f64>>());
                let max = st.stack::<OrderedFloat<f64>>().max_stack_size();
                let after = st.clone().with_input(&VariableName::from("f")).ok().map(|a| bits(a.stack::<OrderedFloat<f64>>()));
                let input = after.and_then(|b| if b.len() == values.len() + 1 { b.first().cloned() } else { None });
                let int_input = st.with_input(&VariableName::from("i")).ok().and_then(|a| a.stack::<i64>().top().ok().copied());
                json!({"values_top_first": values, "input": input, "max": max, "int_input": int_input})
            });
            let obs = r.unwrap_or_else(|_| json!({"panic": true}));
            out.push(json!({"id": format!("F{k}.{order}"), "value": format!("{v:?}"), "obs": obs, "want": want}));
        }
    }
    out
}
