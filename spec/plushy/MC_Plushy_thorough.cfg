SPECIFICATION MCSpec
CONSTANTS MaxLen = 8
INVARIANTS Total Agree OrderPreserved Structured PrefixOrder Emit
PROPERTIES Terminates
CHECK_DEADLOCK FALSE
