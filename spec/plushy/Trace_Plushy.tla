---------------------------- MODULE Trace_Plushy ----------------------------
(* Each logged event is one real translation: the genome (as gene classes   *)
(* with tags) and the program the real code produced.  It must be exactly   *)
(* Parse(genome), must read depth-first as the genome's instructions and    *)
(* must be well formed.  A recorded panic matches nothing.                  *)
EXTENDS Plushy, Json, IOUtils, TLC

Log == ndJsonDeserialize(IOEnv.TRACE)

VARIABLE l

TraceInit == l = 1 /\ genome = <<>> /\ pos = 1 /\ open = <<>> /\ done = TRUE

TraceParse ==
  /\ Log[l].ev = "parse"
  /\ Log[l].prog = Parse(Log[l].genes)
  /\ Flatten(Log[l].prog) = Instrs(Log[l].genes)
  /\ WellFormed(Log[l].prog)

(* deeply nested programs are logged as their token sequence *)
TraceParseFlat ==
  /\ Log[l].ev = "parse_flat"
  /\ Log[l].tokens = Tokens(Parse(Log[l].genes))

(* LONG genomes (beyond 2^14 genes): the one-pass definition, see Plushy!TokStream / StreamAgrees *)
TraceParseLong ==
  /\ Log[l].ev = "parse_long"
  /\ Log[l].tokens = TokStream(Log[l].genes)

(* Display of the genome, tokenised by the harness ("i" / "{" / "}") *)
TraceRender ==
  /\ Log[l].ev = "render"
  /\ Log[l].tokens = Render(Log[l].genes)

TraceNext == l <= Len(Log) /\ l' = l + 1 /\ (TraceParse \/ TraceParseFlat \/ TraceParseLong \/ TraceRender) /\ UNCHANGED smvars

TraceSpec == TraceInit /\ [][TraceNext]_<<smvars, l>>

TraceAccepted ==
  LET d == TLCGet("stats").diameter IN
  IF d - 1 = Len(Log) THEN TRUE
  ELSE /\ PrintT(<<"TRACE-REJECTED", d>>)
       /\ FALSE
=============================================================================
