----------------------------- MODULE MC_Plushy -----------------------------
EXTENDS Plushy, TLC, Json

CONSTANT MaxLen

(* Gene classes 0,1,2 = instruction opening that many blocks, 3 = close.    *)
(* Tags: an instruction that opens no block carries its position; block-    *)
(* opening instructions carry position mod 3 (only three real one-block     *)
(* instructions exist to tell apart) resp. 0.                               *)
GeneAt(cls, p) == CASE cls = 3 -> Close
                    [] cls = 0 -> Ins(0, p)
                    [] cls = 1 -> Ins(1, p % 3)
                    [] cls = 2 -> Ins(2, 0)

Genomes == UNION {{[p \in 1..n |-> GeneAt(cs[p], p)] : cs \in [1..n -> 0..3]} : n \in 0..MaxLen}

MCInit == SMInit(Genomes)
MCSpec == MCInit /\ [][SMNext]_smvars /\ WF_smvars(SMNext)

ASSUME PrintT(<<"TABLE", ToJson(OpensTable)>>)

Emit == done => PrintT(<<"CASE", ToJson([genes |-> genome, prog |-> SMResult])>>)
=============================================================================
