SPECIFICATION MCSpec
CONSTANTS MaxLen = 6
INVARIANTS Total Agree StreamAgrees OrderPreserved Structured RenderMatchesParse PrefixOrder Emit
PROPERTIES Terminates
CHECK_DEADLOCK FALSE
