------------------------------- MODULE Plushy -------------------------------
(***************************************************************************)
(* Translation of a linear (Plushy) genome into a nested Push program,     *)
(* property C05.  A gene is either the close marker or an instruction that *)
(* opens o \in 0..2 blocks and carries a tag t that identifies it.         *)
(*                                                                         *)
(*   gene     ::= [c |-> TRUE]  |  [o |-> 0..2, t |-> Nat]                 *)
(*   program  ::= sequence of items                                        *)
(*   item     ::= [i |-> gene]  |  [b |-> program]                         *)
(*                                                                         *)
(* Two independent definitions of the translation are given and TLC checks *)
(* that they agree on every genome of the model:                           *)
(*  - Parse: the recursive-descent reading with one shared cursor;         *)
(*  - the state machine (variables below) that says the property's own     *)
(*    sentences: "a close marker ends the innermost open block and is      *)
(*    ignored when none is open; blocks still open when the genome ends    *)
(*    are closed there; an instruction that opens k blocks is immediately  *)
(*    followed by exactly k blocks".                                       *)
(* plus the declarative facts Flatten(Parse(g)) = Instrs(g), WellFormed.   *)
(***************************************************************************)
EXTENDS Naturals, Sequences

Close == [c |-> TRUE]
Ins(o, t) == [o |-> o, t |-> t]
IsClose(g) == DOMAIN g = {"c"}

(* How many blocks each real instruction opens (from the instructions'     *)
(* documentation: DupBlock, When and Unless take one code block, IfElse a  *)
(* then- and an else-block); every instruction not listed opens none.      *)
OpensTable == [dup_block |-> 1, when |-> 1, unless |-> 1, if_else |-> 2]

ItemI(g) == [i |-> g]
ItemB(p) == [b |-> p]
IsBlock(x) == DOMAIN x = {"b"}

-----------------------------------------------------------------------------
(* 1. Recursive descent.  ParseSeq reads items from position p until a     *)
(* close marker (consumed) when inside a block, or the end of the genome;   *)
(* at top level close markers are skipped.  Result: [items, next].          *)
RECURSIVE ParseSeq(_, _, _), ParseBlocks(_, _, _)

ParseBlocks(g, p, k) ==
  IF k = 0 THEN [items |-> <<>>, next |-> p]
  ELSE LET first == ParseSeq(g, p, FALSE)
           rest  == ParseBlocks(g, first.next, k - 1)
       IN [items |-> <<ItemB(first.items)>> \o rest.items, next |-> rest.next]

ParseSeq(g, p, top) ==
  IF p > Len(g) THEN [items |-> <<>>, next |-> p]
  ELSE IF IsClose(g[p])
    THEN IF top THEN ParseSeq(g, p + 1, top)
                ELSE [items |-> <<>>, next |-> p + 1]
    ELSE LET blocks == ParseBlocks(g, p + 1, g[p].o)
             rest   == ParseSeq(g, blocks.next, top)
         IN [items |-> <<ItemI(g[p])>> \o blocks.items \o rest.items,
             next  |-> rest.next]

Parse(g) == ParseSeq(g, 1, TRUE).items

-----------------------------------------------------------------------------
(* 2. Declarative facts.                                                    *)
(* The printed form of a genome (Display of Plushy / PushGene): the genes in  *)
(* order, separated by single spaces; an instruction is followed by one "{"  *)
(* per block it opens, a close marker is "}".  As a token sequence:           *)
(* "i" (an instruction's own text), "{", "}".  A reader of the printed form   *)
(* sees exactly the bracket structure Parse builds:                           *)
(*   RenderMatchesParse: #"{" = #blocks of Parse(g);  #"i" = #instructions.   *)
RECURSIVE Render(_)
Render(g) ==
  IF g = <<>> THEN <<>>
  ELSE LET h == Head(g) IN
       (IF IsClose(h) THEN <<"}">> ELSE <<"i">> \o [k \in 1..h.o |-> "{"]) \o Render(Tail(g))
RECURSIVE CountTok(_, _)
CountTok(ts, t) == IF ts = <<>> THEN 0 ELSE (IF Head(ts) = t THEN 1 ELSE 0) + CountTok(Tail(ts), t)
RECURSIVE Blocks(_)
Blocks(p) == IF p = <<>> THEN 0
             ELSE (IF "b" \in DOMAIN Head(p) THEN 1 + Blocks(Head(p).b) ELSE 0) + Blocks(Tail(p))

(* the program as a flat token sequence: instructions, and an opening / a closing *)
(* marker around the items of every block (used to compare DEEPLY nested programs) *)
RECURSIVE Tokens(_)
Tokens(p) ==
  IF p = <<>> THEN <<>>
  ELSE LET h == Head(p) IN
       (IF "b" \in DOMAIN h THEN <<[br |-> 1]>> \o Tokens(h.b) \o <<[br |-> 0]>> ELSE <<h>>) \o Tokens(Tail(p))

(* The same token sequence computed in ONE left-to-right pass over the genome (a third, independent   *)
(* definition; `StreamAgrees` below: it is Tokens(Parse(g)) on every genome of the model).  Its state *)
(* is only the stack of blocks still owed by the instructions of the open blocks, innermost first,    *)
(* so it can be evaluated on genomes of tens of thousands of genes, which the recursive descent       *)
(* (quadratic in TLC) cannot in reasonable time.                                                      *)
CloseToks(st) == IF st[1] > 0 THEN <<[br |-> 0], [br |-> 1]>> ELSE <<[br |-> 0]>>
CloseStack(st) == IF st[1] > 0 THEN <<st[1] - 1>> \o Tail(st) ELSE Tail(st)
(* one gene: s = [st |-> stack of owed blocks, acc |-> tokens so far] *)
TokStep(x, s) ==
  IF IsClose(x)
    THEN IF s.st = <<>> THEN s ELSE [st |-> CloseStack(s.st), acc |-> s.acc \o CloseToks(s.st)]
    ELSE IF x.o > 0 THEN [st |-> <<x.o - 1>> \o s.st, acc |-> s.acc \o <<ItemI(x), [br |-> 1]>>]
                    ELSE [st |-> s.st, acc |-> Append(s.acc, ItemI(x))]
(* the genes lo..hi in order, by halving the range: the recursion is only log2(hi - lo) deep (a recursion *)
(* as deep as the genome is long costs TLC minutes on 16 000 genes)                                      *)
RECURSIVE TokRange(_, _, _, _)
TokRange(g, lo, hi, s) ==
  IF lo > hi THEN s
  ELSE IF lo = hi THEN TokStep(g[lo], s)
  ELSE LET mid == (lo + hi) \div 2 IN TokRange(g, mid + 1, hi, TokRange(g, lo, mid, s))
(* the end of the genome closes what is still open *)
RECURSIVE TokEnd(_)
TokEnd(s) == IF s.st = <<>> THEN s.acc ELSE TokEnd([st |-> CloseStack(s.st), acc |-> s.acc \o CloseToks(s.st)])
TokStream(g) == TokEnd(TokRange(g, 1, Len(g), [st |-> <<>>, acc |-> <<>>]))

RECURSIVE Flatten(_)
Flatten(p) ==
  IF p = <<>> THEN <<>>
  ELSE LET h == Head(p) IN
       (IF IsBlock(h) THEN Flatten(h.b) ELSE <<h.i>>) \o Flatten(Tail(p))

RECURSIVE Instrs(_)
Instrs(g) == IF g = <<>> THEN <<>>
             ELSE (IF IsClose(Head(g)) THEN <<>> ELSE <<Head(g)>>) \o Instrs(Tail(g))

(* An instruction opening k blocks is immediately followed by exactly k     *)
(* blocks, and blocks occur nowhere else; recursively inside blocks.        *)
RECURSIVE WellFormedFrom(_, _)
WellFormedFrom(p, owed) ==
  \* owed = number of blocks that must come next
  IF p = <<>> THEN owed = 0
  ELSE LET h == Head(p) IN
       IF IsBlock(h)
         THEN owed > 0 /\ WellFormedFrom(h.b, 0) /\ WellFormedFrom(Tail(p), owed - 1)
         ELSE owed = 0 /\ WellFormedFrom(Tail(p), h.i.o)
WellFormed(p) == WellFormedFrom(p, 0)

RECURSIVE Depth(_)
Depth(p) == IF p = <<>> THEN 0
            ELSE LET h == Head(p)
                     d == IF IsBlock(h) THEN 1 + Depth(h.b) ELSE 0
                     r == Depth(Tail(p))
                 IN IF d > r THEN d ELSE r

-----------------------------------------------------------------------------
(* 3. The translation as a state machine reading one gene per step.         *)
(* `open` is the stack of blocks currently open, innermost first; each      *)
(* frame holds the items gathered so far and how many sibling blocks its    *)
(* instruction still owes once this one closes.  The bottom frame is the    *)
(* top-level program and is never closed.                                   *)
VARIABLES genome, pos, open, done

smvars == <<genome, pos, open, done>>

Frame(items, owed) == [items |-> items, owed |-> owed]

(* Close the innermost block: it becomes an item of its parent; if its      *)
(* instruction owes further blocks the next one opens at once (empty).      *)
CloseInnermost(st) ==
  LET inner  == st[1]
      parent == st[2]
      parent2 == Frame(Append(parent.items, ItemB(inner.items)), parent.owed)
      below  == SubSeq(st, 3, Len(st))
  IN IF inner.owed > 0
       THEN <<Frame(<<>>, inner.owed - 1), parent2>> \o below
       ELSE <<parent2>> \o below

SMInit(G) == /\ genome \in G
             /\ pos = 1
             /\ open = <<Frame(<<>>, 0)>>
             /\ done = FALSE

ReadInstr ==
  /\ ~done /\ pos <= Len(genome) /\ ~IsClose(genome[pos])
  /\ LET g == genome[pos]
         cur == open[1]
         cur2 == Frame(Append(cur.items, ItemI(g)), cur.owed)
     IN open' = IF g.o > 0
                  THEN <<Frame(<<>>, g.o - 1), cur2>> \o Tail(open)
                  ELSE <<cur2>> \o Tail(open)
  /\ pos' = pos + 1
  /\ UNCHANGED <<genome, done>>

ReadClose ==
  /\ ~done /\ pos <= Len(genome) /\ IsClose(genome[pos])
  /\ open' = IF Len(open) > 1 THEN CloseInnermost(open) ELSE open   \* ignored at top level
  /\ pos' = pos + 1
  /\ UNCHANGED <<genome, done>>

(* At the end of the genome every block still open is closed there.         *)
EndOfGenome ==
  /\ ~done /\ pos > Len(genome)
  /\ IF Len(open) > 1
       THEN open' = CloseInnermost(open) /\ done' = FALSE
       ELSE open' = open /\ done' = TRUE
  /\ UNCHANGED <<genome, pos>>

SMNext == ReadInstr \/ ReadClose \/ EndOfGenome

SMResult == open[1].items

-----------------------------------------------------------------------------
(* Properties checked by TLC on every genome of the model.                  *)
Total          == done => Len(open) = 1
Agree          == done => SMResult = Parse(genome)
StreamAgrees   == done => TokStream(genome) = Tokens(Parse(genome))
OrderPreserved == done => Flatten(SMResult) = Instrs(genome)
Structured     == done => WellFormed(SMResult)
(* the printed genome shows the structure the translation builds *)
RenderMatchesParse ==
  done => /\ CountTok(Render(genome), "{") = Blocks(SMResult)
          /\ CountTok(Render(genome), "i") = Len(Instrs(genome))
          /\ CountTok(Render(genome), "}") = Len(genome) - Len(Instrs(genome))
(* Mid-run: what has been gathered so far, read depth-first, is the prefix  *)
(* of instructions read so far.                                             *)
RECURSIVE Gathered(_)
Gathered(st) == IF st = <<>> THEN <<>>
                ELSE Gathered(Tail(st)) \o Flatten(st[1].items)
PrefixOrder == Gathered(open) = Instrs(SubSeq(genome, 1, pos - 1))
Terminates == <>done
=============================================================================
