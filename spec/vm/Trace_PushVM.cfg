SPECIFICATION TraceSpec
CONSTANTS
  IntMax = 536870911
  ExpMax = 268435456
  FMax = 1048576
INVARIANTS ObservedBounds FatalOnlyOverflow
POSTCONDITION TraceAccepted
CHECK_DEADLOCK FALSE
