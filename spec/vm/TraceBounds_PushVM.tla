------------------------- MODULE TraceBounds_PushVM -------------------------
(***************************************************************************)
(* C03 on long real runs (up to 10^5 steps, stacks up to 10^3): only       *)
(* scalars are logged.  "begin" is written before the real call (so a hang *)
(* is attributable), "bound" after it.  Every bound event must satisfy:    *)
(*  - the run returned normally or with a fatal error, never a panic;      *)
(*  - no stack holds more than its maximum;                                *)
(*  - a fatal end is a stack overflow of one of the four stacks;           *)
(*  - the output under a larger step limit extends the output under a      *)
(*    smaller one (evaluation under limit L is a prefix of evaluation      *)
(*    under L' > L);                                                       *)
(*  - for a FLAT program (K instructions none of which adds exec items)    *)
(*    exactly min(L, K) steps were taken: exec holds K - min(L, K) items;  *)
(*  - for a PRINTING program (K print.string instructions of B bytes each) *)
(*    exactly B * min(L, K) bytes were printed, however many that is;      *)
(*  - for a COUNTED program (dup_block nested d deep around               *)
(*    [int.push 1, int.pop]: Steps(d) = 5 * 2^d - 3 steps in constant      *)
(*    space) the run finishes - exec and int empty - iff the step limit is *)
(*    at least Steps(d), however many millions of steps that takes.        *)
(***************************************************************************)
EXTENDS Naturals, Sequences, Json, IOUtils, TLC

Log == ndJsonDeserialize(IOEnv.TRACE)

VARIABLES l, pending     \* pending: a begin without its bound yet
Stacks == {"exec", "int", "flt", "bool"}
Min(a, b) == IF a < b THEN a ELSE b

(* steps to evaluate the counted program of depth d: the body takes 2; one level *)
(* costs the dup_block itself plus, twice, unfolding the block and running it    *)
RECURSIVE Steps(_)
Steps(d) == IF d = 0 THEN 2 ELSE 1 + 2 * (1 + Steps(d - 1))
ASSUME \A d \in 0..12 : Steps(d) + 3 = 5 * (2 ^ d)

TraceInit == l = 1 /\ pending = FALSE

Begin == Log[l].ev = "begin" /\ ~pending /\ pending' = TRUE

Bound ==
  LET e == Log[l] IN
  /\ e.ev = "bound" /\ pending /\ pending' = FALSE
  /\ e.status \in {"ok", "fatal"}
  /\ \A k \in Stacks : e.sizes[k] <= e.max[k]
  /\ (e.status = "fatal" => (e.err.kind = "overflow" /\ e.err.stack \in Stacks))
  /\ (e.status = "ok" => e.err.kind = "none")
  /\ e.prefix_ok
  /\ (e.flat => (e.status = "ok" /\ e.sizes.exec = e.k - Min(e.limit, e.k)))
  /\ (("bytes_each" \in DOMAIN e) => e.outbytes = e.bytes_each * Min(e.limit, e.k))
  /\ (("counted" \in DOMAIN e) =>
        /\ e.status = "ok"
        /\ (e.limit >= Steps(e.depth) <=> (e.sizes.exec = 0 /\ e.sizes.int = 0)))

TraceNext == l <= Len(Log) /\ l' = l + 1 /\ (Begin \/ Bound)

TraceSpec == TraceInit /\ [][TraceNext]_<<l, pending>>

TraceAccepted ==
  LET d == TLCGet("stats").diameter IN
  IF d - 1 = Len(Log) THEN TRUE
  ELSE /\ PrintT(<<"TRACE-REJECTED", d>>)
       /\ FALSE
=============================================================================
