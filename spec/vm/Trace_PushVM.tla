---------------------------- MODULE Trace_PushVM ----------------------------
(***************************************************************************)
(* Trace validation of the real interpreter against PushVM.  The harness   *)
(* runs a random program under step limits 0, 1, 2, ... from fresh copies  *)
(* of one initial state and logs the state after each limit:               *)
(*   reset  - the initial configuration (stacks, maxima, inputs, limit)    *)
(*   limit0 - the state handed back under step limit 0 (must be initial)   *)
(*   step   - the state after one more step: must be a Step of the spec    *)
(*            ending in exactly the logged stacks, printing exactly the    *)
(*            logged tokens, with the logged outcome (ok / fatal + error)  *)
(*   idle   - the program had ended; a larger limit must change nothing   *)
(* A logged panic matches no action.                                       *)
(***************************************************************************)
EXTENDS PushVM, Json, IOUtils, TLC

Log == ndJsonDeserialize(IOEnv.TRACE)

VARIABLE l
tvars == <<vars, l>>

Stk(s) == [exec |-> s.exec, int |-> s.int, flt |-> s.flt, bool |-> s.bool]

TraceInit ==
  /\ l = 1
  /\ st = [exec |-> <<>>, int |-> <<>>, flt |-> <<>>, bool |-> <<>>, out |-> <<>>]
  /\ max = [exec |-> 0, int |-> 0, flt |-> 0, bool |-> 0]
  /\ limit = 0 /\ inputs = [none |-> 0]
  /\ steps = 0 /\ status = "done" /\ err = NoErr /\ last = "none"

TraceReset ==
  /\ Log[l].ev = "reset"
  /\ st' = Log[l].st /\ max' = Log[l].max /\ limit' = Log[l].limit /\ inputs' = Log[l].inputs
  /\ steps' = 0 /\ status' = "running" /\ err' = NoErr /\ last' = "none"

TraceLimit0 ==
  /\ Log[l].ev = "limit0"
  /\ steps = 0 /\ Log[l].status = "ok" /\ Log[l].st = st
  /\ UNCHANGED vars

TraceStep ==
  /\ Log[l].ev = "step"
  /\ Log[l].k = steps + 1
  /\ Step
  /\ Stk(st') = Log[l].stacks
  /\ st'.out = st.out \o Log[l].delta
  /\ status' = (IF Log[l].status = "fatal" THEN "fatal" ELSE "running")
  /\ (Log[l].status = "fatal" => err' = Log[l].err)

TraceIdle ==
  /\ Log[l].ev = "idle"
  /\ status = "running" /\ Len(st.exec) = 0
  /\ Stk(st) = Log[l].stacks /\ Log[l].delta = <<>>
  /\ UNCHANGED vars

TraceNext == /\ l <= Len(Log)
             /\ l' = l + 1
             /\ (TraceReset \/ TraceLimit0 \/ TraceStep \/ TraceIdle)

TraceSpec == TraceInit /\ [][TraceNext]_tvars

(* C03 on every observed state. *)
ObservedBounds == status = "running" => (StepBound /\ SizeBound)

TraceAccepted ==
  LET d == TLCGet("stats").diameter IN
  IF d - 1 = Len(Log) THEN TRUE
  ELSE /\ PrintT(<<"TRACE-REJECTED", d>>)
       /\ FALSE
=============================================================================
