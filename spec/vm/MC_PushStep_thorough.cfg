SPECIFICATION MCSpec
CONSTANTS
  IntMax = 536870911
  ExpMax = 268435456
  FMax = 1048576
  IntAlpha <- IntAlphaFull
  FltAlpha <- FltAlphaFull
  Families <- FamAll
INVARIANTS FailedUnchanged FailureKinds ArityFrame SwapOK FlushOK ConditionalShape OutputOnlyByPrint Capacity Progress Emit
CHECK_DEADLOCK FALSE
