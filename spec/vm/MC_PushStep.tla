---------------------------- MODULE MC_PushStep ----------------------------
(***************************************************************************)
(* Single-instruction universe for PushVM (C01, C02).  For every           *)
(* instruction, every state in which the stacks of its FOOTPRINT hold      *)
(* every sequence over the boundary alphabets up to (operand count + 1)    *)
(* deep - so each stack is empty / one short / exactly enough / has an     *)
(* element below - with the destination stack full and one below full.     *)
(* Stacks outside the footprint hold a sentinel and are exactly FULL: they *)
(* must neither be touched nor matter.                                     *)
(*                                                                         *)
(* The footprint table Foot is written independently of Perform and TLC    *)
(* checks Perform against it (arity, frame condition, failure = no-op).    *)
(* `Emit` prints one replay case per (instruction, state).                 *)
(***************************************************************************)
EXTENDS PushInstr, TLC, Json

CONSTANTS IntAlpha, FltAlpha,  \* boundary alphabets
          Families             \* which instruction families this run covers

VARIABLES ins, pre, phase, res
mcvars == <<ins, pre, phase, res>>

SeqsUpTo(S, n) == UNION {[1..k -> S] : k \in 0..n}

I(f, o)     == [f |-> f, o |-> o]
IV(f, o, v) == [f |-> f, o |-> o, v |-> v]
Blk(b)      == [f |-> "block", v |-> b]

ExecAlpha == {I("exec", "noop"), IV("int", "push", 1), Blk(<<>>), Blk(<<I("exec", "noop"), I("bool", "not")>>)}
BoolAlpha == BOOLEAN

Alpha(k) == CASE k = "int" -> IntAlpha [] k = "flt" -> FltAlpha [] k = "bool" -> BoolAlpha
              [] k = "exec" -> ExecAlpha

InputsRec == [x |-> IV("int", "push", 5), y |-> IV("flt", "push", Fin(12)), b |-> IV("bool", "push", TRUE)]

Typed == {"int", "flt", "bool"}

Instrs ==
  (IF "common" \in Families THEN
       {I(T, o) : T \in Stacks, o \in CommonNames \ {"push"}}
  \cup {I(T, o) : T \in Typed, o \in PrintNames}
  \cup {IV("int", "push", v) : v \in {0, IntMax}} \cup {IV("flt", "push", v) : v \in {NaN, Fin(4)}}
  \cup {IV("bool", "push", v) : v \in {TRUE}} \cup {IV("exec", "push", v) : v \in {Blk(<<I("exec", "noop")>>)}}
  \cup {I("print", o) : o \in {"space", "newline", "period"}}
  \cup {IV("print", "string", "ab c")}
  \cup {I("input", o) : o \in {"x", "y", "b"}} ELSE {})
  \cup (IF "int" \in Families THEN {I("int", o) : o \in IntNames} ELSE {})
  \cup (IF "flt" \in Families THEN {I("flt", o) : o \in FltNames} ELSE {})
  \cup (IF "bool" \in Families THEN {I("bool", o) : o \in BoolNames} ELSE {})
  \cup (IF "exec" \in Families THEN {I("exec", o) : o \in ExecNames} ELSE {})

-----------------------------------------------------------------------------
(* Footprint table: src = stack operands are read from, n = how many,      *)
(* pop = how many of them are removed, dst = stack the result goes to      *)
(* ("none" if no result), src2/n2 = a second operand stack (conditionals). *)
F(src, n, pop, dst) == [src |-> src, n |-> n, pop |-> pop, dst |-> dst, src2 |-> "none", n2 |-> 0]
F2(src, n, src2, n2) == [src |-> src, n |-> n, pop |-> 0, dst |-> "none", src2 |-> src2, n2 |-> n2]

Lit(i) == IF i.f = "input" THEN InputsRec[i.o] ELSE i

Foot(i0) ==
  LET i == Lit(i0) T == i.f o == i.o IN
  CASE T = "print" -> F("none", 0, 0, "none")
    [] T = "exec" /\ o = "noop" -> F("none", 0, 0, "none")
    [] T = "exec" /\ o = "dup_block" -> F("exec", 1, 0, "exec")
    [] T = "exec" /\ o \in {"when", "unless"} -> F2("bool", 1, "exec", 1)
    [] T = "exec" /\ o = "if_else" -> F2("bool", 1, "exec", 2)
    [] o = "pop"  /\ T \in Stacks -> F(T, 1, 1, "none")
    [] o = "push" /\ T \in Stacks -> F("none", 0, 0, T)
    [] o = "dup"  /\ T \in Stacks -> F(T, 1, 0, T)
    [] o = "swap" /\ T \in Stacks -> F(T, 2, 0, "none")       \* rearranges, see SwapOK
    [] o = "is_empty" /\ T \in Stacks -> F(T, 0, 0, "bool")
    [] o = "stack_depth" /\ T \in Stacks -> F(T, 0, 0, "int")
    [] o = "flush" /\ T \in Stacks -> F(T, 0, 0, "none")      \* removes everything, see FlushOK
    [] o \in PrintNames -> F(T, 1, 1, "none")
    [] T = "int" /\ o \in {"negate", "abs", "inc", "dec", "square"} -> F("int", 1, 1, "int")
    [] T = "int" /\ o \in {"add", "subtract", "multiply", "protected_divide", "mod", "power",
                           "min", "max"} -> F("int", 2, 2, "int")
    [] T = "int" /\ o = "clamp" -> F("int", 3, 3, "int")
    [] T = "int" /\ o \in {"is_zero", "is_positive", "is_negative", "is_even", "is_odd"}
         -> F("int", 1, 1, "bool")
    [] T = "int" /\ o \in {"equal", "not_equal", "less_than", "less_than_equal",
                           "greater_than", "greater_than_equal"} -> F("int", 2, 2, "bool")
    [] T = "int" /\ o = "from_boolean" -> F("bool", 1, 1, "int")
    [] T = "int" /\ o = "from_float_approx" -> F("flt", 1, 1, "int")
    [] T = "flt" /\ o \in {"add", "subtract", "multiply", "protected_divide"} -> F("flt", 2, 2, "flt")
    [] T = "flt" /\ o = "from_int_approx" -> F("int", 1, 1, "flt")
    [] T = "flt" -> F("flt", 2, 2, "bool")
    [] T = "bool" /\ o = "not" -> F("bool", 1, 1, "bool")
    [] T = "bool" /\ o = "from_int" -> F("int", 1, 1, "bool")
    [] T = "bool" -> F("bool", 2, 2, "bool")

Sentinel(k) == CASE k = "int"  -> <<2, -3>>
                 [] k = "flt"  -> <<Fin(20), NaN>>
                 [] k = "bool" -> <<TRUE, FALSE>>
                 [] k = "exec" -> <<I("exec", "noop"), Blk(<<IV("int", "push", 7)>>)>>

(* Contents the universe gives stack k for instruction i.                  *)
Contents(i, k) ==
  LET f == Foot(i) IN
  IF k = f.src THEN SeqsUpTo(Alpha(k), f.n + 1)
  ELSE IF k = f.src2 THEN SeqsUpTo(Alpha(k), f.n2 + 1)
  ELSE IF k = f.dst THEN SeqsUpTo(Alpha(k), 1)
  ELSE {Sentinel(k)}

(* Maximum sizes: a destination (or a stack an instruction grows) is taken *)
(* full and one below full; every other stack is exactly full.             *)
Maxes(i, k, len) ==
  LET f == Foot(i) IN
  IF k = f.dst THEN {len, len + 1} ELSE {len}

MaxSet(i, e, n, x, b) ==
  { [exec |-> me, int |-> mn, flt |-> mx, bool |-> mb] :
      me \in Maxes(i, "exec", Len(e)), mn \in Maxes(i, "int", Len(n)),
      mx \in Maxes(i, "flt", Len(x)),  mb \in Maxes(i, "bool", Len(b)) }

Universe(i) ==
  UNION { { [s |-> [exec |-> t[1], int |-> t[2], flt |-> t[3], bool |-> t[4], out |-> <<>>],
             max |-> m] : m \in MaxSet(i, t[1], t[2], t[3], t[4]) } :
          t \in Contents(i, "exec") \X Contents(i, "int") \X Contents(i, "flt") \X Contents(i, "bool") }

MCInit == /\ ins \in Instrs
          /\ pre \in Universe(ins)
          /\ phase = "pre"
          /\ res = Ok(pre.s)

MCNext == /\ phase = "pre"
          /\ res' \in Perform(ins, pre.s, pre.max, InputsRec)
          /\ phase' = "post"
          /\ UNCHANGED <<ins, pre>>

MCSpec == MCInit /\ [][MCNext]_mcvars

-----------------------------------------------------------------------------
(* Checks of Perform against the independent footprint table.              *)
Post == phase = "post"
s0 == pre.s
s1 == res.st

(* C02: a failed instruction hands back the state it was given.            *)
FailedUnchanged == (Post /\ res.kind # "ok") => s1 = s0

(* kinds of failure and when they may occur *)
Missing == LET f == Foot(ins) IN
           \/ (f.src # "none" /\ Len(s0[f.src]) < f.n)
           \/ (f.src2 # "none" /\ Len(s0[f.src2]) < f.n2)
FailureKinds ==
  Post => /\ (res.kind = "rec"   => res.err \in {Underflow, ArithFault})
          /\ (res.kind = "fatal" => /\ res.err.kind = "overflow"
                                    /\ res.err.stack = Foot(ins).dst
                                    /\ IsFull(s0, pre.max, res.err.stack))
          /\ (res.kind = "ok"    => res.err = NoErr)
          /\ ((res.kind = "rec" /\ res.err = Underflow) => Missing)
          /\ ((res.kind = "rec" /\ res.err = ArithFault) =>
                 (ins.f = "int" /\ ins.o \in {"inc", "dec", "square", "add", "subtract", "multiply",
                                              "protected_divide", "mod", "power"}))

Conditional == ins.f = "exec" /\ ins.o \in {"when", "unless", "if_else"}

(* Arity and frame condition on success: every stack changes length by     *)
(* exactly pushes - pops of the table and everything below the operands is *)
(* untouched; stacks outside the footprint are identical.                  *)
ArityFrame ==
  (Post /\ res.kind = "ok" /\ ~Conditional /\ ins.o \notin {"swap", "flush"}) =>
    LET f == Foot(ins) IN
    \A k \in Stacks :
      LET pops == IF k = f.src THEN f.pop ELSE 0
          pushes == IF k = f.dst THEN 1 ELSE 0
      IN /\ Len(s1[k]) = Len(s0[k]) - pops + pushes
         /\ Drop(s1[k], pushes) = Drop(s0[k], pops)

SwapOK == (Post /\ res.kind = "ok" /\ ins.o = "swap") =>
            /\ s1[ins.f] = <<s0[ins.f][2], s0[ins.f][1]>> \o Drop(s0[ins.f], 2)
            /\ \A k \in Stacks \ {ins.f} : s1[k] = s0[k]
FlushOK == (Post /\ res.kind = "ok" /\ ins.o = "flush") =>
            /\ s1[ins.f] = <<>>
            /\ \A k \in Stacks \ {ins.f} : s1[k] = s0[k]

(* Conditionals only ever remove a boolean and/or exec items, never add.   *)
ConditionalShape ==
  (Post /\ res.kind = "ok" /\ Conditional) =>
    /\ s1.int = s0.int /\ s1.flt = s0.flt /\ s1.out = s0.out
    /\ Len(s1.bool) \in {Len(s0.bool), Len(s0.bool) - 1}
    /\ s1.bool = Drop(s0.bool, Len(s0.bool) - Len(s1.bool))
    /\ Len(s1.exec) \in {Len(s0.exec), Len(s0.exec) - 1}
    /\ (Len(s0.bool) >= 1 => Len(s1.bool) = Len(s0.bool) - (IF Len(s0.exec) >= 1 THEN 1 ELSE 0))

(* Only printing instructions write output; they append.                   *)
OutputOnlyByPrint ==
  Post => /\ (s1.out # s0.out => (ins.f = "print" \/ ins.o \in PrintNames))
          /\ Take(s1.out, Len(s0.out)) = s0.out

(* No stack ever exceeds its maximum after a successful instruction.       *)
Capacity == (Post /\ res.kind = "ok") => \A k \in Stacks : Len(s1[k]) <= pre.max[k]

(* Success is not refused when operands are present and there is room.     *)
Grows(f) == f.dst # "none" /\ (f.dst # f.src \/ f.pop = 0)
Progress ==
  (Post /\ ~Missing /\ (~Grows(Foot(ins)) \/ ~IsFull(s0, pre.max, Foot(ins).dst)))
    => res.kind \in {"ok", "rec"} /\ (res.kind = "rec" => res.err = ArithFault)

-----------------------------------------------------------------------------
SetToSeq(S) == LET RECURSIVE G(_)
                   G(T) == IF T = {} THEN <<>> ELSE LET x == CHOOSE y \in T : TRUE IN <<x>> \o G(T \ {x})
               IN G(S)

IntAlphaQuick == {IntMin, -1, 0, 1, 2, IntMax}
IntAlphaFull  == {IntMin, IntMin + 1, -3, -2, -1, 0, 1, 2, 3, IntMax - 1, IntMax}
FltAlphaQuick == {NaN, PInf, NInf, Fin(0), NZero, Fin(12), Fin(-8)}
FltAlphaFull  == {NaN, PInf, NInf, Fin(0), NZero, Fin(8), Fin(-8), Fin(4), Fin(-4), Fin(12), Fin(16), Fin(24)}
FamAll == {"common", "int", "flt", "bool", "exec"}

Case == [ins |-> ins, s |-> pre.s, max |-> pre.max, inputs |-> InputsRec,
         allowed |-> SetToSeq(Perform(ins, pre.s, pre.max, InputsRec))]

Emit == (phase = "pre") => PrintT(<<"CASE", ToJson(Case)>>)
=============================================================================
