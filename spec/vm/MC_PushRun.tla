----------------------------- MODULE MC_PushRun -----------------------------
(***************************************************************************)
(* The interpreter loop explored exhaustively: every program of at most    *)
(* ProgLen items over an alphabet chosen to exercise control flow, block   *)
(* unfolding, growth (dup_block / exec.dup / int.dup floods), failures in  *)
(* sequence and printing; every uniform stack limit in MaxChoices; up to   *)
(* Limit steps.  C03 is checked as invariants + liveness, C02 as action    *)
(* properties.  `Emit` prints, for every reachable state, the replay case  *)
(* "this configuration run under step limit k ends in this state".         *)
(***************************************************************************)
EXTENDS PushVM, TLC, Json

CONSTANTS ProgLen, MaxChoices, Limit

VARIABLE cfg0      \* the initial stacks of the behaviour (for emission only)
mcvars == <<vars, cfg0>>

I(f, o)     == [f |-> f, o |-> o]
IV(f, o, v) == [f |-> f, o |-> o, v |-> v]
Blk(b)      == [f |-> "block", v |-> b]

ItemAlpha ==
  { IV("int", "push", 1), IV("bool", "push", TRUE), IV("bool", "push", FALSE),
    I("int", "add"), I("int", "dup"), I("int", "is_zero"), I("int", "print"),
    I("exec", "dup_block"), I("exec", "when"), I("exec", "if_else"), I("exec", "dup"),
    I("exec", "swap"), I("exec", "pop"), I("input", "x"),
    Blk(<<>>), Blk(<<IV("int", "push", 1)>>),
    Blk(<<I("exec", "dup_block"), Blk(<<I("int", "dup")>>)>>) }

Programs == UNION {[1..n -> ItemAlpha] : n \in 0..ProgLen}

InputsRec == [x |-> IV("int", "push", IntMax)]

MCInit ==
  /\ \E p \in Programs, m \in MaxChoices :
        /\ Len(p) <= m
        /\ st = [exec |-> p, int |-> <<>>, flt |-> <<>>, bool |-> <<>>, out |-> <<>>]
        /\ max = [exec |-> m, int |-> m, flt |-> m, bool |-> m]
  /\ cfg0 = st
  /\ limit = Limit
  /\ inputs = InputsRec
  /\ steps = 0 /\ status = "running" /\ err = NoErr /\ last = "none"

MCNext == Next /\ UNCHANGED cfg0
MCSpec == MCInit /\ [][MCNext]_mcvars /\ WF_mcvars(MCNext)

Case == [s |-> cfg0, max |-> max, inputs |-> inputs,
         limit |-> IF status = "done" /\ Len(st.exec) = 0 THEN steps + 1 ELSE steps,
         allowed |-> << [status |-> IF status = "fatal" THEN "fatal" ELSE "ok",
                         st |-> st, err |-> err] >>]

(* the run as a function (PushInstr!RunFrom, used by PushGP to score genomes) ends *)
(* exactly where the actions end                                                 *)
RunAgrees ==
  status # "running" =>
    [st |-> st, steps |-> steps, status |-> status, err |-> err] \in RunFrom(cfg0, 0, max, inputs, limit)

Emit == PrintT(<<"CASE", ToJson(Case)>>)
=============================================================================
