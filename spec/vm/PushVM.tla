------------------------------- MODULE PushVM -------------------------------
(***************************************************************************)
(* The interpreter loop of the Push VM (State::run_to_completion) on top   *)
(* of the instruction semantics of PushInstr.  One Step takes the top item *)
(* off exec and either unfolds it (block) or performs it (instruction);    *)
(* a recoverable failure is skipped, a fatal one ends the run with the     *)
(* state as it was when the failing item had just been taken off exec.     *)
(***************************************************************************)
EXTENDS PushInstr

-----------------------------------------------------------------------------
(* The interpreter loop (State::run_to_completion).                        *)
VARIABLES st,      \* [exec, int, flt, bool, out]
          max,     \* [exec, int, flt, bool] maximum sizes
          limit,   \* maximum number of instruction steps
          inputs,  \* record: input name -> the literal push bound to it
          steps,   \* steps performed so far
          status,  \* "running" | "done" | "fatal"
          err,     \* the error a fatal run ended with
          last     \* outcome kind of the last step: "none" "ok" "rec" "fatal" "halt"

vars == <<st, max, limit, inputs, steps, status, err, last>>

CanStep == status = "running" /\ steps < limit /\ Len(st.exec) > 0

Step ==
  /\ CanStep
  /\ \E r \in StepOutcomes(st, max, inputs) :
          /\ st' = r.st
          /\ last' = r.kind
          /\ status' = IF r.kind = "fatal" THEN "fatal" ELSE "running"
          /\ err' = IF r.kind = "fatal" THEN r.err ELSE NoErr
  /\ steps' = steps + 1
  /\ UNCHANGED <<max, limit, inputs>>

Halt ==
  /\ status = "running" /\ ~CanStep
  /\ status' = "done" /\ last' = "halt"
  /\ UNCHANGED <<st, max, limit, inputs, steps, err>>

Next == Step \/ Halt

(* C03: bounded, total, only overflow aborts.                              *)
StepBound == steps <= limit
SizeBound == \A k \in Stacks : Len(st[k]) <= max[k]
FatalOnlyOverflow == status = "fatal" => (err.kind = "overflow" /\ err.stack \in Stacks)
NoErrUnlessFatal  == status # "fatal" => err = NoErr
Terminates == <>(status # "running")
Variant == [][status' = "running" => limit - steps' < limit - steps]_vars
(* C02: a failed instruction is a no-op apart from consuming its own exec  *)
(* entry, and the run carries on (recoverable) or stops there (fatal).     *)
FailureIsNoop == [][last' \in {"rec", "fatal"} => st' = PopN(st, "exec", 1)]_vars
RecoverableContinues == [][last' = "rec" => status' = "running"]_vars
=============================================================================
