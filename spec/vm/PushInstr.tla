----------------------------- MODULE PushInstr ------------------------------
(***************************************************************************)
(* The Push virtual machine of the `push` crate: typed stacks (exec, int,  *)
(* flt, bool), an output buffer, per-stack size limits, a step limit and   *)
(* named inputs.  Written from properties C01-C03 and from the action      *)
(* tables in the instructions' documentation.                              *)
(*                                                                         *)
(* Stacks are sequences written TOP FIRST.  An instruction is a record     *)
(* [f |-> family, o |-> name] or [f, o, v |-> payload] (literal pushes,    *)
(* print.string); an input variable is [f |-> "input", o |-> name]; a      *)
(* block is [f |-> "block", v |-> <<items>>].  Output is a sequence of     *)
(* tokens [t |-> kind, v |-> payload].                                     *)
(*                                                                         *)
(* Perform(ins, s, max, inputs) is the SET of outcomes the properties      *)
(* allow for one instruction: [kind |-> "ok" | "rec" | "fatal",            *)
(*  st |-> state after, err |-> error].  "rec" (a recoverable failure:     *)
(* missing operands or an arithmetic fault) and "fatal" (a destination     *)
(* stack is already full) both leave the state untouched (C02).  The set   *)
(* is a singleton except at the latitude points L1 (operands missing AND   *)
(* destination full: either failure) and L2 (MIN mod -1).                  *)
(***************************************************************************)
EXTENDS PushNum, FiniteSets

Stacks == {"exec", "int", "flt", "bool"}

NoErr == [kind |-> "none", stack |-> "none"]
Underflow == [kind |-> "underflow", stack |-> "none"]
ArithFault == [kind |-> "intoverflow", stack |-> "none"]
Overflow(st) == [kind |-> "overflow", stack |-> st]

Ok(s)        == [kind |-> "ok", st |-> s, err |-> NoErr]
Rec(s, e)    == [kind |-> "rec", st |-> s, err |-> e]
Fatal(s, st) == [kind |-> "fatal", st |-> s, err |-> Overflow(st)]

Take(q, k) == SubSeq(q, 1, k)
Drop(q, k) == SubSeq(q, k + 1, Len(q))

Push1(s, st, v) == [s EXCEPT ![st] = <<v>> \o @]
PopN(s, st, n)  == [s EXCEPT ![st] = Drop(@, n)]
IsFull(s, max, st) == Len(s[st]) >= max[st]

Tok(t, v) == [t |-> t, v |-> v]
AppendOut(s, toks) == [s EXCEPT !.out = @ \o toks]
NL == Tok("chr", "\n")

(***************************************************************************)
(* The common shape of almost every instruction: read n operands from the  *)
(* top of stack src (first operand = top), remove exactly those, push      *)
(* exactly one result onto dst.  R(args) is [ok, v]: ok = FALSE is an      *)
(* arithmetic fault.  RS(args) is a set of such results (latitude L2).     *)
(***************************************************************************)
ApplyS(s, max, src, n, dst, RS(_)) ==
  LET under == Len(s[src]) < n
      full  == dst # src /\ IsFull(s, max, dst)
  IN IF under /\ full THEN {Rec(s, Underflow), Fatal(s, dst)}
     ELSE IF under THEN {Rec(s, Underflow)}
     ELSE IF full THEN {Fatal(s, dst)}
     ELSE { IF r.ok THEN Ok(Push1(PopN(s, src, n), dst, r.v)) ELSE Rec(s, ArithFault)
            : r \in RS(Take(s[src], n)) }

Apply(s, max, src, n, dst, R(_)) == ApplyS(s, max, src, n, dst, LAMBDA a : {R(a)})

-----------------------------------------------------------------------------
(* Instructions that exist for every stack T.                               *)
Common(name, T, ins, s, max) ==
  CASE name = "pop"  -> IF Len(s[T]) < 1 THEN {Rec(s, Underflow)} ELSE {Ok(PopN(s, T, 1))}
    [] name = "push" -> IF IsFull(s, max, T) THEN {Fatal(s, T)} ELSE {Ok(Push1(s, T, ins.v))}
    [] name = "dup"  ->
         LET under == Len(s[T]) < 1  full == IsFull(s, max, T) IN
         IF under /\ full THEN {Rec(s, Underflow), Fatal(s, T)}
         ELSE IF under THEN {Rec(s, Underflow)}
         ELSE IF full THEN {Fatal(s, T)}
         ELSE {Ok(Push1(s, T, s[T][1]))}
    [] name = "swap" -> IF Len(s[T]) < 2 THEN {Rec(s, Underflow)}
                        ELSE {Ok([s EXCEPT ![T] = <<@[2], @[1]>> \o Drop(@, 2)])}
    [] name = "is_empty" -> IF IsFull(s, max, "bool") THEN {Fatal(s, "bool")}
                            ELSE {Ok(Push1(s, "bool", Len(s[T]) = 0))}
    [] name = "stack_depth" -> IF IsFull(s, max, "int") THEN {Fatal(s, "int")}
                               ELSE {Ok(Push1(s, "int", Len(s[T])))}
    [] name = "flush" -> {Ok([s EXCEPT ![T] = <<>>])}
    [] name = "print" -> IF Len(s[T]) < 1 THEN {Rec(s, Underflow)}
                         ELSE {Ok(AppendOut(PopN(s, T, 1), <<Tok(T, s[T][1])>>))}
    [] name = "println" -> IF Len(s[T]) < 1 THEN {Rec(s, Underflow)}
                           ELSE {Ok(AppendOut(PopN(s, T, 1), <<Tok(T, s[T][1]), NL>>))}

CommonNames == {"pop", "push", "dup", "swap", "is_empty", "stack_depth", "flush"}
PrintNames  == {"print", "println"}

-----------------------------------------------------------------------------
B(x) == Val(x)     \* a boolean or float result is never a fault

IntOp(name, s, max) ==
  CASE name = "negate" -> Apply(s, max, "int", 1, "int", LAMBDA a : Val(INegSat(a[1])))
    [] name = "abs"    -> Apply(s, max, "int", 1, "int", LAMBDA a : Val(IAbsSat(a[1])))
    [] name = "inc"    -> Apply(s, max, "int", 1, "int", LAMBDA a : IInc(a[1]))
    [] name = "dec"    -> Apply(s, max, "int", 1, "int", LAMBDA a : IDec(a[1]))
    [] name = "square" -> Apply(s, max, "int", 1, "int", LAMBDA a : ISquare(a[1]))
    [] name = "add"      -> Apply(s, max, "int", 2, "int", LAMBDA a : IAdd(a[1], a[2]))
    [] name = "subtract" -> Apply(s, max, "int", 2, "int", LAMBDA a : ISub(a[1], a[2]))
    [] name = "multiply" -> Apply(s, max, "int", 2, "int", LAMBDA a : IMul(a[1], a[2]))
    [] name = "protected_divide" -> Apply(s, max, "int", 2, "int", LAMBDA a : IDiv(a[1], a[2]))
    [] name = "mod"    -> ApplyS(s, max, "int", 2, "int", LAMBDA a : IModOutcomes(a[1], a[2]))
    [] name = "power"  -> Apply(s, max, "int", 2, "int", LAMBDA a : IPow(a[1], a[2]))
    [] name = "min"    -> Apply(s, max, "int", 2, "int", LAMBDA a : Val(IMin2(a[1], a[2])))
    [] name = "max"    -> Apply(s, max, "int", 2, "int", LAMBDA a : Val(IMax2(a[1], a[2])))
    [] name = "clamp"  -> Apply(s, max, "int", 3, "int", LAMBDA a : Val(IClamp(a[1], a[2], a[3])))
    [] name = "is_zero"     -> Apply(s, max, "int", 1, "bool", LAMBDA a : B(a[1] = 0))
    [] name = "is_positive" -> Apply(s, max, "int", 1, "bool", LAMBDA a : B(a[1] > 0))
    [] name = "is_negative" -> Apply(s, max, "int", 1, "bool", LAMBDA a : B(a[1] < 0))
    [] name = "is_even"     -> Apply(s, max, "int", 1, "bool", LAMBDA a : B(IsEven(a[1])))
    [] name = "is_odd"      -> Apply(s, max, "int", 1, "bool", LAMBDA a : B(IsOdd(a[1])))
    [] name = "equal"       -> Apply(s, max, "int", 2, "bool", LAMBDA a : B(a[1] = a[2]))
    [] name = "not_equal"   -> Apply(s, max, "int", 2, "bool", LAMBDA a : B(a[1] # a[2]))
    [] name = "less_than"   -> Apply(s, max, "int", 2, "bool", LAMBDA a : B(a[1] < a[2]))
    [] name = "less_than_equal"    -> Apply(s, max, "int", 2, "bool", LAMBDA a : B(a[1] <= a[2]))
    [] name = "greater_than"       -> Apply(s, max, "int", 2, "bool", LAMBDA a : B(a[1] > a[2]))
    [] name = "greater_than_equal" -> Apply(s, max, "int", 2, "bool", LAMBDA a : B(a[1] >= a[2]))
    [] name = "from_boolean" -> Apply(s, max, "bool", 1, "int", LAMBDA a : Val(IF a[1] THEN 1 ELSE 0))
    [] name = "from_float_approx" -> Apply(s, max, "flt", 1, "int", LAMBDA a : Val(FToInt(a[1])))

IntNames == {"negate", "abs", "inc", "dec", "square", "add", "subtract", "multiply",
             "protected_divide", "mod", "power", "min", "max", "clamp", "is_zero",
             "is_positive", "is_negative", "is_even", "is_odd", "equal", "not_equal",
             "less_than", "less_than_equal", "greater_than", "greater_than_equal",
             "from_boolean", "from_float_approx"}

FltOp(name, s, max) ==
  CASE name = "add"      -> Apply(s, max, "flt", 2, "flt", LAMBDA a : B(FAdd(a[1], a[2])))
    [] name = "subtract" -> Apply(s, max, "flt", 2, "flt", LAMBDA a : B(FSub(a[1], a[2])))
    [] name = "multiply" -> Apply(s, max, "flt", 2, "flt", LAMBDA a : B(FMul(a[1], a[2])))
    [] name = "protected_divide" -> Apply(s, max, "flt", 2, "flt", LAMBDA a : B(FPDiv(a[1], a[2])))
    [] name = "equal"        -> Apply(s, max, "flt", 2, "bool", LAMBDA a : B(FEq(a[1], a[2])))
    [] name = "not_equal"    -> Apply(s, max, "flt", 2, "bool", LAMBDA a : B(~FEq(a[1], a[2])))
    [] name = "less_than"    -> Apply(s, max, "flt", 2, "bool", LAMBDA a : B(FLt(a[1], a[2])))
    [] name = "greater_than" -> Apply(s, max, "flt", 2, "bool", LAMBDA a : B(FLt(a[2], a[1])))
    [] name = "less_than_or_equal"    -> Apply(s, max, "flt", 2, "bool", LAMBDA a : B(FLe(a[1], a[2])))
    [] name = "greater_than_or_equal" -> Apply(s, max, "flt", 2, "bool", LAMBDA a : B(FLe(a[2], a[1])))
    [] name = "from_int_approx" -> Apply(s, max, "int", 1, "flt", LAMBDA a : B(IToFloat(a[1])))

FltNames == {"add", "subtract", "multiply", "protected_divide", "equal", "not_equal",
             "less_than", "greater_than", "less_than_or_equal", "greater_than_or_equal",
             "from_int_approx"}

BoolOp(name, s, max) ==
  CASE name = "not"     -> Apply(s, max, "bool", 1, "bool", LAMBDA a : B(~a[1]))
    [] name = "and"     -> Apply(s, max, "bool", 2, "bool", LAMBDA a : B(a[1] /\ a[2]))
    [] name = "or"      -> Apply(s, max, "bool", 2, "bool", LAMBDA a : B(a[1] \/ a[2]))
    [] name = "xor"     -> Apply(s, max, "bool", 2, "bool", LAMBDA a : B(a[1] # a[2]))
    [] name = "implies" -> Apply(s, max, "bool", 2, "bool", LAMBDA a : B(a[1] => a[2]))
    [] name = "from_int" -> Apply(s, max, "int", 1, "bool", LAMBDA a : B(a[1] # 0))

BoolNames == {"not", "and", "or", "xor", "implies", "from_int"}

-----------------------------------------------------------------------------
(* The conditional instructions, transcribed from their documented action  *)
(* tables.  hasB: a boolean exists; b: its value; n: number of exec items. *)
When(s) ==
  LET hasB == Len(s.bool) >= 1  hasBlk == Len(s.exec) >= 1 IN
  IF hasB /\ hasBlk THEN (IF s.bool[1] THEN {Ok(PopN(s, "bool", 1))}
                                       ELSE {Ok(PopN(PopN(s, "bool", 1), "exec", 1))})
  ELSE IF ~hasB /\ hasBlk THEN {Ok(PopN(s, "exec", 1))}
  ELSE IF hasB /\ ~hasBlk THEN {Ok(s)}
  ELSE {Rec(s, Underflow)}

Unless(s) ==
  LET hasB == Len(s.bool) >= 1  hasBlk == Len(s.exec) >= 1 IN
  IF hasB /\ hasBlk THEN (IF ~s.bool[1] THEN {Ok(PopN(s, "bool", 1))}
                                        ELSE {Ok(PopN(PopN(s, "bool", 1), "exec", 1))})
  ELSE IF ~hasB /\ hasBlk THEN {Ok(s)}
  ELSE IF hasB /\ ~hasBlk THEN {Ok(s)}
  ELSE {Rec(s, Underflow)}

IfElse(s) ==
  LET hasB == Len(s.bool) >= 1  n == Len(s.exec) IN
  IF hasB /\ n >= 2 THEN
       (IF s.bool[1] THEN {Ok([PopN(s, "bool", 1) EXCEPT !.exec = <<@[1]>> \o Drop(@, 2)])}
                     ELSE {Ok(PopN(PopN(s, "bool", 1), "exec", 1))})
  ELSE IF hasB /\ n = 1 THEN
       (IF s.bool[1] THEN {Ok(PopN(s, "bool", 1))}
                     ELSE {Ok(PopN(PopN(s, "bool", 1), "exec", 1))})
  ELSE IF ~hasB /\ n >= 1 THEN {Ok(PopN(s, "exec", 1))}
  ELSE {Rec(s, Underflow)}

ExecOp(name, s, max) ==
  CASE name = "noop"      -> {Ok(s)}
    [] name = "dup_block" -> Common("dup", "exec", [f |-> "exec", o |-> "dup"], s, max)
    [] name = "when"      -> When(s)
    [] name = "unless"    -> Unless(s)
    [] name = "if_else"   -> IfElse(s)

ExecNames == {"noop", "dup_block", "when", "unless", "if_else"}

PrintOp(name, ins, s) ==
  CASE name = "space"   -> {Ok(AppendOut(s, <<Tok("chr", " ")>>))}
    [] name = "newline" -> {Ok(AppendOut(s, <<NL>>))}
    [] name = "period"  -> {Ok(AppendOut(s, <<Tok("chr", ".")>>))}
    [] name = "string"  -> {Ok(AppendOut(s, <<Tok("str", ins.v)>>))}

-----------------------------------------------------------------------------
(* Dispatch.  An input variable performs the instruction bound to its name *)
(* (always a literal push); an unbound name is outside the specification   *)
(* (documented panic).                                                     *)
PerformBase(ins, s, max) ==
  CASE ins.f = "print" -> PrintOp(ins.o, ins, s)
    [] ins.f = "exec" /\ ins.o \in ExecNames -> ExecOp(ins.o, s, max)
    [] ins.f \in Stacks /\ ins.o \in CommonNames -> Common(ins.o, ins.f, ins, s, max)
    [] ins.f \in {"int", "flt", "bool"} /\ ins.o \in PrintNames -> Common(ins.o, ins.f, ins, s, max)
    [] ins.f = "int"  -> IntOp(ins.o, s, max)
    [] ins.f = "flt"  -> FltOp(ins.o, s, max)
    [] ins.f = "bool" -> BoolOp(ins.o, s, max)

Perform(ins, s, max, inputs) ==
  PerformBase(IF ins.f = "input" THEN inputs[ins.o] ELSE ins, s, max)

IsBlock(x) == x.f = "block"

(* Unfolding a block: its items go onto exec in order, first item on top;  *)
(* if they do not fit the program is aborted with the state as it was      *)
(* after the block itself was taken off.                                   *)
Unfold(body, s, max) ==
  IF Len(body) + Len(s.exec) > max.exec THEN Fatal(s, "exec")
  ELSE Ok([s EXCEPT !.exec = body \o @])

(* One interpreter step on a state whose exec stack is not empty: the top   *)
(* item is taken off exec and unfolded (block) or performed (instruction).  *)
(* The SET of outcomes allowed (a singleton except at L1 / L2).             *)
StepOutcomes(s, max, inputs) ==
  LET item == s.exec[1]
      rest == PopN(s, "exec", 1)
  IN IF IsBlock(item) THEN {Unfold(item.v, rest, max)}
                      ELSE Perform(item, rest, max, inputs)

(* run_to_completion as a function: the SET of ways the run can end (a     *)
(* singleton except where the latitudes L1 / L2 are met on the way).       *)
(* MC_PushRun checks that the Step / Halt actions of PushVM end exactly     *)
(* there (RunAgrees); PushGP scores genomes with it.                        *)
RECURSIVE RunFrom(_, _, _, _, _)
RunFrom(s, n, max, inputs, limit) ==
  IF n >= limit \/ Len(s.exec) = 0
    THEN {[st |-> s, steps |-> n, status |-> "done", err |-> NoErr]}
    ELSE UNION { IF r.kind = "fatal"
                   THEN {[st |-> r.st, steps |-> n + 1, status |-> "fatal", err |-> r.err]}
                   ELSE RunFrom(r.st, n + 1, max, inputs, limit)
                 : r \in StepOutcomes(s, max, inputs) }

=============================================================================
