------------------------------ MODULE PushNum ------------------------------
(***************************************************************************)
(* Number domains of the Push VM specification.                            *)
(*                                                                         *)
(* Integers: two's-complement range IntMin..IntMax with IntMin = -IntMax-1 *)
(* (the implementation's i64; the model is instantiated with a small       *)
(* IntMax for exhaustive checking and with 2^29-1 for conformance, where   *)
(* the harness maps i64 into this range by the window map phi, DESIGN 3.2).*)
(* A partial integer operation yields [ok |-> FALSE]: "integer overflow    *)
(* skips the instruction".                                                 *)
(*                                                                         *)
(* Floats: the grid n/8 for |n| <= FMax plus NaN, +Inf, -Inf and -0;       *)
(* a result that is not on the grid is the value Off (the run is not       *)
(* compared beyond it).  Comparison is the total order of OrderedFloat:    *)
(* NaN = NaN, NaN greatest, -0 = +0.                                       *)
(***************************************************************************)
EXTENDS Integers, Sequences

CONSTANTS IntMax,   \* largest integer (i64::MAX in the implementation)
          ExpMax,   \* largest legal exponent of `power` (u32::MAX)
          FMax      \* float grid: n/8 for |n| <= FMax

IntMin == -IntMax - 1
InInt(x) == x >= IntMin /\ x <= IntMax

Abs(x) == IF x < 0 THEN -x ELSE x

Val(v)  == [ok |-> TRUE, v |-> v]
Fault   == [ok |-> FALSE, v |-> 0]
Chk(v)  == IF InInt(v) THEN Val(v) ELSE Fault

(* Truncating division and the matching remainder (sign of the dividend),  *)
(* for y # 0; both defined without leaving TLC's 32-bit integers.          *)
TDiv(x, y) == LET q == Abs(x) \div Abs(y) IN IF (x < 0) # (y < 0) THEN -q ELSE q
TRem(x, y) == LET r == Abs(x) % Abs(y) IN IF x < 0 THEN -r ELSE r

(* x * y when it stays in range.  The guard keeps the product itself below *)
(* IntMax + 1 in magnitude before it is computed.                          *)
MulFits(x, y) == \/ x = 0 \/ y = 0
                 \/ (Abs(x) <= (IntMax + 1) \div Abs(y) /\ InInt(x * y))
IMul(x, y) == IF MulFits(x, y) THEN Val(x * y) ELSE Fault

IAdd(x, y) == Chk(x + y)
ISub(x, y) == Chk(x - y)
IInc(x) == Chk(x + 1)
IDec(x) == Chk(x - 1)
ISquare(x) == IMul(x, x)
(* "division and modulo by zero yield 1 and 0"; MIN / -1 does not fit.     *)
IDiv(x, y) == IF y = 0 THEN Val(1) ELSE Chk(TDiv(x, y))
(* MIN mod -1: mathematically 0; an implementation that refuses it like    *)
(* the division is also accepted (latitude L2) - see IModOutcomes.         *)
IMod(x, y) == IF y = 0 THEN Val(0) ELSE Val(TRem(x, y))
IModOutcomes(x, y) == IF x = IntMin /\ y = -1 THEN {Val(0), Fault} ELSE {IMod(x, y)}

RECURSIVE PowIter(_, _, _)
PowIter(acc, x, n) == IF n = 0 THEN Val(acc)
                      ELSE IF MulFits(acc, x) THEN PowIter(acc * x, x, n - 1) ELSE Fault
(* x^y for 0 <= y <= ExpMax; anything else (negative exponent, exponent    *)
(* beyond ExpMax, result out of range) is a fault.                         *)
IPow(x, y) ==
  IF y < 0 \/ y > ExpMax THEN Fault
  ELSE IF y = 0 THEN Val(1)
  ELSE IF x = 0 \/ x = 1 THEN Val(x)
  ELSE IF x = -1 THEN Val(IF y % 2 = 0 THEN 1 ELSE -1)
  ELSE IF y > 32 THEN Fault            \* |x| >= 2 and IntMax < 2^31
  ELSE PowIter(1, x, y)

INegSat(x) == IF x = IntMin THEN IntMax ELSE -x
IAbsSat(x) == IF x = IntMin THEN IntMax ELSE Abs(x)
IMin2(x, y) == IF x <= y THEN x ELSE y
IMax2(x, y) == IF x >= y THEN x ELSE y
(* clamp(value, a, b): the smaller of a, b is the lower bound.             *)
IClamp(v, a, b) == LET lo == IMin2(a, b) hi == IMax2(a, b)
                   IN IF v < lo THEN lo ELSE IF v > hi THEN hi ELSE v
IsEven(x) == x % 2 = 0
IsOdd(x)  == x % 2 # 0

-----------------------------------------------------------------------------
(* Floats *)
Fin(n) == [k |-> "fin", m |-> n]
NaN    == [k |-> "nan", m |-> 0]
PInf   == [k |-> "pinf", m |-> 0]
NInf   == [k |-> "ninf", m |-> 0]
NZero  == [k |-> "nzero", m |-> 0]
Off    == [k |-> "off", m |-> 0]

MkFin(n) == IF Abs(n) <= FMax THEN Fin(n) ELSE Off

FIsNaN(a)  == a.k = "nan"
FIsInf(a)  == a.k \in {"pinf", "ninf"}
FIsZero(a) == a.k = "nzero" \/ (a.k = "fin" /\ a.m = 0)
FIsNeg(a)  == a.k \in {"nzero", "ninf"} \/ (a.k = "fin" /\ a.m < 0)
FIsOff(a)  == a.k = "off"
Zero(neg) == IF neg THEN NZero ELSE Fin(0)
Inf(neg)  == IF neg THEN NInf ELSE PInf

FNeg(a) == CASE a.k = "fin"   -> IF a.m = 0 THEN NZero ELSE Fin(-a.m)
             [] a.k = "nzero" -> Fin(0)
             [] a.k = "pinf"  -> NInf
             [] a.k = "ninf"  -> PInf
             [] OTHER         -> a

FAdd(a, b) ==
  IF FIsOff(a) \/ FIsOff(b) THEN Off
  ELSE IF FIsNaN(a) \/ FIsNaN(b) THEN NaN
  ELSE IF FIsInf(a) THEN (IF FIsInf(b) /\ a.k # b.k THEN NaN ELSE a)
  ELSE IF FIsInf(b) THEN b
  ELSE IF FIsZero(a) /\ FIsZero(b) THEN Zero(FIsNeg(a) /\ FIsNeg(b))
  ELSE IF FIsZero(a) THEN b
  ELSE IF FIsZero(b) THEN a
  ELSE MkFin(a.m + b.m)          \* x + (-x) = +0 = Fin(0)

FSub(a, b) == FAdd(a, FNeg(b))

FMul(a, b) ==
  LET neg == FIsNeg(a) # FIsNeg(b) IN
  IF FIsOff(a) \/ FIsOff(b) THEN Off
  ELSE IF FIsNaN(a) \/ FIsNaN(b) THEN NaN
  ELSE IF FIsInf(a) \/ FIsInf(b)
    THEN (IF FIsZero(a) \/ FIsZero(b) THEN NaN ELSE Inf(neg))
  ELSE IF FIsZero(a) \/ FIsZero(b) THEN Zero(neg)
  ELSE IF Abs(a.m) > 1073741824 \div Abs(b.m) THEN Off
  ELSE LET p == a.m * b.m IN IF Abs(p) % 8 = 0 THEN MkFin(TDiv(p, 8)) ELSE Off

(* a / b for b not a zero (the protected division handles zero divisors). *)
FDivRaw(a, b) ==
  LET neg == FIsNeg(a) # FIsNeg(b) IN
  IF FIsOff(a) \/ FIsOff(b) THEN Off
  ELSE IF FIsNaN(a) \/ FIsNaN(b) THEN NaN
  ELSE IF FIsInf(a) THEN (IF FIsInf(b) THEN NaN ELSE Inf(neg))
  ELSE IF FIsInf(b) THEN Zero(neg)
  ELSE IF FIsZero(a) THEN Zero(neg)
  ELSE LET num == 8 * Abs(a.m) den == Abs(b.m) IN
       IF num % den = 0 THEN MkFin(IF neg THEN -(num \div den) ELSE num \div den) ELSE Off

(* "division by zero yields 1" (either zero). *)
FPDiv(a, b) == IF FIsZero(b) THEN Fin(8) ELSE FDivRaw(a, b)

(* OrderedFloat total order: -Inf < finite (with -0 = +0) < +Inf < NaN.    *)
FRank(a) == CASE a.k = "ninf" -> 0 [] a.k = "pinf" -> 2 [] a.k = "nan" -> 3 [] OTHER -> 1
FKey(a)  == IF a.k = "fin" THEN a.m ELSE 0
FLt(a, b) == FRank(a) < FRank(b) \/ (FRank(a) = FRank(b) /\ FKey(a) < FKey(b))
FEq(a, b) == FRank(a) = FRank(b) /\ FKey(a) = FKey(b)
FLe(a, b) == FLt(a, b) \/ FEq(a, b)

(* Conversions follow Rust's `as`: truncate toward zero, saturate, NaN -> 0 *)
FToInt(a) == CASE a.k = "fin"  -> IMax2(IntMin, IMin2(IntMax, TDiv(a.m, 8)))
               [] a.k = "pinf" -> IntMax
               [] a.k = "ninf" -> IntMin
               [] OTHER        -> 0
IToFloat(i) == IF Abs(i) <= FMax \div 8 THEN Fin(8 * i) ELSE Off
=============================================================================
