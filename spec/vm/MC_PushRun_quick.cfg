SPECIFICATION MCSpec
CONSTANTS
  IntMax = 536870911
  ExpMax = 268435456
  FMax = 1048576
  ProgLen = 3
  MaxChoices = {1, 2, 3}
  Limit = 5
INVARIANTS StepBound SizeBound FatalOnlyOverflow NoErrUnlessFatal RunAgrees Emit
PROPERTIES Terminates Variant FailureIsNoop RecoverableContinues
CHECK_DEADLOCK FALSE
