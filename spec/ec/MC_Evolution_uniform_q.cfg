SPECIFICATION Spec
CONSTANTS
  N = 2
  L = 3
  Sels = {"lexicase"}
  Xo = "uniform"
  Mut = "none"
  Gens = 2
INVARIANTS SizeConstant ScoresConsistent GenomeLength SelectionTotal
PROPERTIES NoNewAlleles ComplementUnderRate1 ElitistTakeover
CHECK_DEADLOCK FALSE
