SPECIFICATION MCSpec
CONSTANTS
  WMax = 100
  MaxLeaves = 3
  Ws = {0, 1, 2, 3}
  BuildWs = {0, 1, 99, 100}
  BuildLen = 4
INVARIANTS ExactlyOneMember ZeroNeverUsed AllZeroIsError Proportional ScaleInvariant OverflowAtBuild Emit
CHECK_DEADLOCK FALSE
