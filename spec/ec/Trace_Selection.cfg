SPECIFICATION TraceSpec
CONSTANTS WMax = 2000000000
POSTCONDITION TraceAccepted
CHECK_DEADLOCK FALSE
