------------------------------ MODULE Variation ------------------------------
(***************************************************************************)
(* Variation operators on linear genomes (ec-linear): two-point and        *)
(* uniform crossover, the gene / segment exchange primitives, bit-flip     *)
(* mutation and UMAD.  Written from properties C10 and C11.                *)
(*                                                                         *)
(* A genome is a sequence of genes; positions are 1-based here (the code's *)
(* index i is position i+1; the code's half-open range lo..hi is the       *)
(* positions lo+1..hi).  Every random decision of the implementation is an *)
(* explicit choice: the two cut points, the per-position mask, the         *)
(* per-position keep / insert decisions of UMAD.                           *)
(***************************************************************************)
EXTENDS Naturals, Sequences, FiniteSets

Min(a, b) == IF a < b THEN a ELSE b

-----------------------------------------------------------------------------
(* Crossover *)

(* Child of p1, p2 (equal length) taking positions lo+1..hi from p2.        *)
Seg(p1, p2, lo, hi) == [i \in 1..Len(p1) |-> IF lo < i /\ i <= hi THEN p2[i] ELSE p1[i]]

(* Child taking position i from p2 exactly where mask[i].                   *)
Mix(p1, p2, mask) == [i \in 1..Len(p1) |-> IF mask[i] THEN p2[i] ELSE p1[i]]

OkChild(c)   == [k |-> "ok", child |-> c]
ErrLen(a, b) == [k |-> "difflen", l1 |-> a, l2 |-> b]

(* "every segment can occur, including those touching either end (empty    *)
(*  parents simply give an empty child)": cut points range over 0..Len.     *)
TwoPointOutcomes(p1, p2) ==
  IF Len(p1) # Len(p2) THEN {ErrLen(Len(p1), Len(p2))}
  ELSE {OkChild(Seg(p1, p2, lo, hi)) : lo \in 0..Len(p1), hi \in 0..Len(p1)}
       \* lo > hi gives the same child as the empty segment

UniformOutcomes(p1, p2) ==
  IF Len(p1) # Len(p2) THEN {ErrLen(Len(p1), Len(p2))}
  ELSE {OkChild(Mix(p1, p2, m)) : m \in [1..Len(p1) -> BOOLEAN]}

(* Exchange primitives on two genomes a, b (possibly of different length).  *)
Pair(k, a, b) == [k |-> k, a |-> a, b |-> b]

(* index i is 0-based as in the code *)
XGene(a, b, i) ==
  IF i < Len(a) /\ i < Len(b)
    THEN Pair("ok", [a EXCEPT ![i + 1] = b[i + 1]], [b EXCEPT ![i + 1] = a[i + 1]])
    ELSE Pair("err", a, b)

(* range lo..hi is 0-based half-open as in the code *)
XSegment(a, b, lo, hi) ==
  IF lo <= hi /\ hi <= Len(a) /\ hi <= Len(b)
    THEN Pair("ok", [i \in 1..Len(a) |-> IF lo < i /\ i <= hi THEN b[i] ELSE a[i]],
                    [i \in 1..Len(b) |-> IF lo < i /\ i <= hi THEN a[i] ELSE b[i]])
    ELSE Pair("err", a, b)

(* C10 clauses, stated on a child c of parents p1, p2.                      *)
SameLength(p1, c) == Len(c) = Len(p1)
PositionWise(p1, p2, c) == \A i \in 1..Len(c) : c[i] \in {p1[i], p2[i]}
(* with parents that differ everywhere: positions taken from p2 *)
FromP2(p2, c) == {i \in 1..Len(c) : c[i] = p2[i]}
Contiguous(S) == \A i, j \in S : \A m \in i..j : m \in S

-----------------------------------------------------------------------------
(* Mutation *)

Neg(x) == 1 - x        \* genes of flip mutation are bits 0 / 1

Flip(g, mask) == [i \in 1..Len(g) |-> IF mask[i] THEN Neg(g[i]) ELSE g[i]]

(* A rate is a fraction num/den (den > 0).  Which masks can a rate produce: *)
(* rate <= 0 never flips, rate >= 1 always flips.                           *)
FlipChoices(num, den) == IF num = 0 THEN {FALSE} ELSE IF num >= den THEN {TRUE} ELSE BOOLEAN
FlipOutcomes(g, num, den) == {Flip(g, m) : m \in [1..Len(g) -> FlipChoices(num, den)]}

(* 1/length: the empty genome is returned as it is *)
OneOverLengthOutcomes(g) == IF Len(g) = 0 THEN {g} ELSE FlipOutcomes(g, 1, Len(g))

(* UMAD.  Per parent position: keep the gene or not, and insert one newly   *)
(* generated gene after it or not ("new genes being subject to deletion     *)
(* too").  NewGenes is the generator's alphabet.                            *)
KeepChoices(delN, delD) == IF delN = 0 THEN {TRUE} ELSE IF delN >= delD THEN {FALSE} ELSE BOOLEAN
InsChoices(addN, addD, delN, delD) ==
  IF addN = 0 \/ delN >= delD THEN {FALSE}
  ELSE IF addN >= addD /\ delN = 0 THEN {TRUE}
  ELSE BOOLEAN

RECURSIVE UmadFrom(_, _, _, _, _)
(* all children of the suffix of g starting at position i *)
UmadFrom(g, i, KC, IC, NewGenes) ==
  IF i > Len(g) THEN {<<>>}
  ELSE LET rest == UmadFrom(g, i + 1, KC, IC, NewGenes)
           heads == { (IF keep THEN <<g[i]>> ELSE <<>>) \o ins :
                        keep \in KC, ins \in UNION {IF b THEN {<<n>> : n \in NewGenes} ELSE {<<>>} : b \in IC} }
       IN {h \o r : h \in heads, r \in rest}

(* empty: "none" (addition to an empty genome disabled) or a fraction *)
UmadOutcomes(g, addN, addD, delN, delD, emptyKind, emptyN, emptyD, NewGenes) ==
  IF Len(g) = 0 /\ emptyKind = "rate"
    THEN (IF emptyN = 0 THEN {<<>>}
          ELSE IF emptyN >= emptyD THEN {<<n>> : n \in NewGenes}
          ELSE {<<>>} \cup {<<n>> : n \in NewGenes})
    ELSE UmadFrom(g, 1, KeepChoices(delN, delD), InsChoices(addN, addD, delN, delD), NewGenes)

(* Membership test used by trace validation: is child c explainable as a   *)
(* UMAD child of g?  (same definition, evaluated along c; IsNew(x) says x   *)
(* comes from the generator and is none of the parent's genes: genes are    *)
(* integers, generated ones are >= newMin, parental ones below.)            *)
RECURSIVE UmadExplains(_, _, _, _, _, _, _)
UmadExplains(g, c, i, j, KC, IC, newMin) ==
  IF i > Len(g) THEN j = Len(c) + 1
  ELSE \E keep \in KC, ins \in IC :
         LET j1 == IF keep THEN j + 1 ELSE j
             j2 == IF ins THEN j1 + 1 ELSE j1
         IN /\ (keep => (j <= Len(c) /\ c[j] = g[i]))
            /\ (ins => (j1 <= Len(c) /\ c[j1] >= newMin))
            /\ UmadExplains(g, c, i + 1, j2, KC, IC, newMin)

UmadAccepts(g, c, addN, addD, delN, delD, emptyKind, emptyN, emptyD, newMin) ==
  IF Len(g) = 0 /\ emptyKind = "rate"
    THEN \/ (c = <<>> /\ emptyN < emptyD)
         \/ (Len(c) = 1 /\ c[1] >= newMin /\ emptyN > 0)
    ELSE UmadExplains(g, c, 1, 1, KeepChoices(delN, delD), InsChoices(addN, addD, delN, delD), newMin)

(* The same for genes of any kind: a new gene is a member of the generator's *)
(* alphabet New (it may equal a parental gene).                              *)
RECURSIVE UmadExplainsIn(_, _, _, _, _, _, _)
UmadExplainsIn(g, c, i, j, KC, IC, New) ==
  IF i > Len(g) THEN j = Len(c) + 1
  ELSE \E keep \in KC, ins \in IC :
         LET j1 == IF keep THEN j + 1 ELSE j
             j2 == IF ins THEN j1 + 1 ELSE j1
         IN /\ (keep => (j <= Len(c) /\ c[j] = g[i]))
            /\ (ins => (j1 <= Len(c) /\ c[j1] \in New))
            /\ UmadExplainsIn(g, c, i + 1, j2, KC, IC, New)

UmadAcceptsIn(g, c, addN, addD, delN, delD, emptyKind, emptyN, emptyD, New) ==
  IF Len(g) = 0 /\ emptyKind = "rate"
    THEN \/ (c = <<>> /\ emptyN < emptyD)
         \/ (Len(c) = 1 /\ c[1] \in New /\ emptyN > 0)
    ELSE UmadExplainsIn(g, c, 1, 1, KeepChoices(delN, delD), InsChoices(addN, addD, delN, delD), New)

(* C11 clauses on a UMAD child *)
RECURSIVE IsSubseq(_, _)
IsSubseq(x, y) == IF x = <<>> THEN TRUE ELSE IF y = <<>> THEN FALSE
                  ELSE IF Head(x) = Head(y) THEN IsSubseq(Tail(x), Tail(y)) ELSE IsSubseq(x, Tail(y))
=============================================================================
