SPECIFICATION TraceSpec
CONSTANTS
  N = 0
  L = 0
  Sels = {}
  Xo = "none"
  Mut = "none"
  Gens = 0
INVARIANTS ScoresConsistentT
POSTCONDITION TraceAccepted
CHECK_DEADLOCK FALSE
