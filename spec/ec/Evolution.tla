------------------------------ MODULE Evolution ------------------------------
(***************************************************************************)
(* One evolutionary run as the repository's examples assemble it           *)
(* (ec-linear/examples/count_ones):                                        *)
(*                                                                         *)
(*   Select(selector).apply_twice()                                        *)
(*       .then_map(GenomeExtractor)                                        *)
(*       .then(Recombine(crossover))                                       *)
(*       .then(Mutate(mutation))                                           *)
(*       .wrap::<GenomeScorer>(scorer)          -- the child maker         *)
(*   Generation::new(child maker, population).serial_next() / par_next()   *)
(*                                                                         *)
(* This module composes what the other modules specify piecewise:          *)
(* Selection (which parents may be chosen), Variation (which children a    *)
(* crossover / mutation may produce), the scorer contract of C15 (an       *)
(* individual carries the genome it was made from and the scorer's result  *)
(* for it), the data flow of the combinators (C14) and the generation step *)
(* of C09 (N children from the UNMODIFIED previous population, then        *)
(* replace).                                                               *)
(*                                                                         *)
(* Genomes are bit sequences of length L; the scorer is count-ones with    *)
(* one test case per bit (result of case i = bit i, total = number of      *)
(* ones), so lexicase has L cases.                                         *)
(***************************************************************************)
EXTENDS Selection, Variation, TLC

CONSTANTS N,        \* population size
          L,        \* genome length
          Sels,     \* selector kinds with positive weight in the weighted mix:
                    \*   subset of {"best", "lexicase", "tournament2", "random"}
          Xo,       \* "two_point" | "uniform" | "none" (first parent's genome)
          Mut,      \* "one_over_length" | "rate0" | "rate1" | "none"
          Gens      \* generations explored

VARIABLES pop,      \* sequence of individuals [g, res, score]
          made,     \* children made so far in the current step
          gen

evars == <<pop, made, gen>>

RECURSIVE SumSeq(_)
SumSeq(s) == IF s = <<>> THEN 0 ELSE Head(s) + SumSeq(Tail(s))

(* "an individual created by scoring a genome carries exactly the genome it *)
(*  was created from and the result the scorer returns for that genome"     *)
Ind(g) == [g |-> g, res |-> g, score |-> SumSeq(g)]

Genomes == [1..L -> {0, 1}]

(* A configuration is a record [l, sels, xo, mut]; the operators below take *)
(* it explicitly so that trace validation can use them with the              *)
(* configuration each recorded run was made with.                            *)
Cfg == [l |-> L, sels |-> Sels, xo |-> Xo, mut |-> Mut]

(* members the weighted mix of selectors may return: those some selector of *)
(* positive weight may return (zero-weight selectors are never used)        *)
SelOutcomesOf(p, s, cfg) ==
  CASE s = "best"        -> BestOutcomes(p)
    [] s = "lexicase"    -> LexicaseOutcomes(p, "score", cfg.l)
    [] s = "tournament2" -> TournamentOutcomes(p, 2)
    [] s = "random"      -> RandomOutcomes(p)
SelectOutcomes(p, cfg) == UNION {SelOutcomesOf(p, s, cfg) : s \in cfg.sels}
ParentsC(p, cfg) == {o.i : o \in {x \in SelectOutcomes(p, cfg) : x.k = "member"}}
SelectFailsC(p, cfg) == \E o \in SelectOutcomes(p, cfg) : o.k # "member"

XoChildrenC(g1, g2, cfg) ==
  CASE cfg.xo = "two_point" -> {o.child : o \in TwoPointOutcomes(g1, g2)}
    [] cfg.xo = "uniform"   -> {o.child : o \in UniformOutcomes(g1, g2)}
    [] cfg.xo = "none"      -> {g1}

MutChildrenC(g, cfg) ==
  CASE cfg.mut = "one_over_length" -> OneOverLengthOutcomes(g)
    [] cfg.mut = "rate0"           -> FlipOutcomes(g, 0, 1)
    [] cfg.mut = "rate1"           -> FlipOutcomes(g, 1, 1)
    [] cfg.mut = "none"            -> {g}

(* every genome the child maker may produce from population p *)
ChildGenomesC(p, cfg) ==
  UNION {UNION {MutChildrenC(x, cfg) : x \in XoChildrenC(p[a].g, p[b].g, cfg)} :
           a \in ParentsC(p, cfg), b \in ParentsC(p, cfg)}

Parents(p) == ParentsC(p, Cfg)
SelectFails(p) == SelectFailsC(p, Cfg)
ChildGenomes(p) == ChildGenomesC(p, Cfg)

(* the children in `mk` rearranged as p (the order of the new population is *)
(* not part of any property: L8)                                             *)
SameMultiset(mk, p) ==
  /\ Len(p) = Len(mk)
  /\ \A x \in {mk[i] : i \in 1..Len(mk)} \cup {p[i] : i \in 1..Len(p)} :
        Cardinality({i \in 1..Len(mk) : mk[i] = x}) = Cardinality({i \in 1..Len(p) : p[i] = x})

Init == /\ pop \in [1..N -> {Ind(g) : g \in Genomes}]
        /\ made = <<>>
        /\ gen = 0

(* one application of the child maker: it sees pop, never `made` *)
MakeChild(c) ==
  /\ gen < Gens /\ Len(made) < N
  /\ c \in ChildGenomes(pop)
  /\ made' = Append(made, Ind(c))
  /\ UNCHANGED <<pop, gen>>

(* the N children replace the population (any arrangement: L8) *)
CommitAs(p) ==
  /\ Len(made) = N /\ SameMultiset(made, p)
  /\ pop' = p /\ made' = <<>> /\ gen' = gen + 1

Next == (\E c \in Genomes : MakeChild(c)) \/ (N > 0 /\ CommitAs(made))
Spec == Init /\ [][Next]_evars

-----------------------------------------------------------------------------
SizeConstant == Len(pop) = N /\ Len(made) <= N
ScoresConsistent == \A i \in 1..Len(pop) : pop[i] = Ind(pop[i].g)
GenomeLength == \A i \in 1..Len(pop) : Len(pop[i].g) = L
(* selection on a non-empty population of fully scored individuals never fails *)
SelectionTotal == N > 0 => (~SelectFails(pop) /\ Parents(pop) # {})

(* crossover cannot invent alleles: without mutation, a bit on which the    *)
(* whole population agrees stays as it is in every later population         *)
Fixed(p, i, b) == \A k \in 1..Len(p) : p[k].g[i] = b
NoNewAlleles ==
  [][(Mut \in {"none", "rate0"} =>
        (\A i \in 1..L, b \in {0, 1} : Fixed(pop, i, b) => Fixed(pop', i, b)))]_evars
(* full mutation after no crossover complements a parent *)
ComplementUnderRate1 ==
  [][((Mut = "rate1" /\ Xo = "none" /\ pop' # pop) =>
       (\A k \in 1..N : \E a \in 1..N : pop'[k].g = [i \in 1..L |-> 1 - pop[a].g[i]]))]_evars
(* elitist copying: best selection, no variation => everyone is a copy of a *)
(* best individual, and the best score never decreases                      *)
MaxScore(p) == CHOOSE m \in {p[k].score : k \in 1..Len(p)} : \A k \in 1..Len(p) : p[k].score <= m
ElitistTakeover ==
  [][((Sels = {"best"} /\ Xo = "none" /\ Mut \in {"none", "rate0"} /\ pop' # pop) =>
       (\A k \in 1..N : pop'[k].score = MaxScore(pop)))]_evars
=============================================================================
