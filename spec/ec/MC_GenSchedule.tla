--------------------------- MODULE MC_GenSchedule ---------------------------
(***************************************************************************)
(* Schedules of ONE generation step, enumerated by TLC and then FORCED on  *)
(* the real Generation::par_next / serial_next (property C09: "under every *)
(* thread count and schedule").                                            *)
(*                                                                         *)
(* The behaviours are those of Generation.tla (the actions are reused      *)
(* unchanged); what is added is                                            *)
(*   - a canonical naming: calls are numbered in the order they start      *)
(*     (slot i is claimed i-th), and a starting call takes the least idle  *)
(*     worker, so that behaviours differing only in names are one;         *)
(*   - a worker runs one call at a time (a rayon worker inside a plain     *)
(*     closure does): at most |Workers| calls overlap;                     *)
(*   - the history `hist`: <<"c", i>> call i started, <<"ok", i>> it       *)
(*     returned a child, <<"fail", i>> it failed.                          *)
(* When the step ends (committed / aborted) one SCHED line is printed: the *)
(* harness's child maker - which is harness code, so no hook in the        *)
(* repository is needed - holds every call at its entry and exit until the *)
(* events before it in the schedule have happened.  The real step is then  *)
(* recorded and validated by Trace_Generation like any sampled run.        *)
(* After a failure the calls not yet started may or may not start (L6):    *)
(* both continuations are behaviours here, and a schedule whose optional   *)
(* calls the real step does not make is reported as "not realised" (no     *)
(* verdict either way).                                                    *)
(***************************************************************************)
EXTENDS Generation, Json

CONSTANT N0, Modes
VARIABLE hist

svars == <<vars, hist>>

Started == Cardinality({i \in Slots : St(i) # "todo"})
Busy == {slot[i].w : i \in {j \in Slots : St(j) = "running"}}
Idle == Workers \ Busy
Least(S) == CHOOSE x \in S : \A y \in S : x <= y

SInit == /\ InitWith([i \in 1..N0 |-> i]) /\ mode \in Modes
         /\ hist = <<>>

SBegin == Begin /\ hist' = <<>>

SClaim == /\ phase = "building" /\ Idle # {} /\ Started < N
          /\ LET i == Started + 1 IN
             /\ Claim(Least(Idle), i)
             /\ hist' = Append(hist, <<"c", i>>)

SFinish == \E i \in Slots : /\ Finish(i, nextId, 0)
                            /\ hist' = Append(hist, <<"ok", i>>)

SFail == \E i \in Slots : /\ Fail(i)
                          /\ hist' = Append(hist, <<"fail", i>>)

SEnd == (Commit \/ Abort) /\ UNCHANGED hist

SNext == SBegin \/ SClaim \/ SFinish \/ SFail \/ SEnd

SSpec == SInit /\ [][SNext]_svars

(* every behaviour printed here is a behaviour of Generation: the conjuncts *)
(* above only strengthen its actions                                        *)
Refines == [][Next]_vars

MaxOverlap ==       \* the largest number of calls running at once in hist
  LET RECURSIVE Go(_, _, _)
      Go(k, cur, best) ==
        IF k > Len(hist) THEN best
        ELSE IF hist[k][1] = "c" THEN Go(k + 1, cur + 1, IF cur + 1 > best THEN cur + 1 ELSE best)
             ELSE Go(k + 1, cur - 1, best)
  IN Go(1, 0, 0)

Emit ==
  (phase \in {"committed", "aborted"}) =>
     PrintT(<<"SCHED", ToJson([mode    |-> mode,
                               n       |-> N0,
                               workers |-> Cardinality(Workers),
                               overlap |-> MaxOverlap,
                               events  |-> hist,
                               ok      |-> result.ok,
                               failed  |-> {i \in Slots : St(i) = "failed"},
                               unstarted |-> {i \in Slots : St(i) = "todo"}])>>)

(* what the schedules are for, as invariants of this module too *)
SchedAtomic == FailureAtomic /\ NoPartialCommit /\ ErrIffFailure /\ NoTornPopulation
=============================================================================
