SPECIFICATION TraceSpec
CONSTANTS
  Workers = {1,2,3,4,5,6,7,8,9,10,11,12,13,14,15,16,17,18,19,20,21,22,23,24,25,26,27,28,29,30,31,32,33,34,35,36,37,38,39,40}
  Kinds = {"seq", "set"}
  KeySet = {}
  Gens = 100
INVARIANTS NoTornPopulation SizePreserved CallsMatchSize AllFresh FailureAtomic NoPartialCommit ErrIffFailure
POSTCONDITION TraceAccepted
CHECK_DEADLOCK FALSE
