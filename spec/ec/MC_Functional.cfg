SPECIFICATION Spec
CONSTANTS
  Keys = {"a", "b", "c"}
  Vals = {1, 2}
PROPERTIES NeverTwoValues
CHECK_DEADLOCK FALSE
