--------------------------- MODULE OrderingProofs ---------------------------
(***************************************************************************)
(* The order laws of C15 proved for ALL integers (TLC checks them on the   *)
(* values -2..2 in MC_Ordering): Cmp(kind, _, _) is a total order for both *)
(* kinds, the error order is the exact reversal of the score order, the    *)
(* operator family derived in Answers is coherent with it, and max / min   *)
(* return one of the two arguments, the greater / the lesser one.  Vectors *)
(* and individuals compare as their totals (ResultsCmp is Cmp of the two   *)
(* sums by definition), so the laws carry over to them.                    *)
(* Checked with tlapm (SMT back end); see lib/c15.py.                      *)
(***************************************************************************)
EXTENDS OrderingCore, TLAPS

Kinds == {"score", "error"}

THEOREM SignValues == \A x \in Int : Sign(x) \in {"lt", "eq", "gt"}
  BY DEF Sign

THEOREM Reflexive == \A k \in Kinds, a \in Int : Cmp(k, a, a) = "eq"
  BY DEF Cmp, ScoreCmp, ErrorCmp, Sign, Kinds

THEOREM EqualIffSame == \A k \in Kinds, a, b \in Int : (Cmp(k, a, b) = "eq") <=> (a = b)
  BY DEF Cmp, ScoreCmp, ErrorCmp, Sign, Kinds

THEOREM Antisymmetric == \A k \in Kinds, a, b \in Int : Cmp(k, a, b) = Flip(Cmp(k, b, a))
  BY DEF Cmp, ScoreCmp, ErrorCmp, Sign, Flip, Kinds

THEOREM Total == \A k \in Kinds, a, b \in Int : Cmp(k, a, b) \in {"lt", "eq", "gt"}
  BY DEF Cmp, ScoreCmp, ErrorCmp, Sign, Kinds

THEOREM Transitive ==
  \A k \in Kinds, a, b, c \in Int :
     (Cmp(k, a, b) \in {"lt", "eq"} /\ Cmp(k, b, c) \in {"lt", "eq"}) => Cmp(k, a, c) \in {"lt", "eq"}
  BY DEF Cmp, ScoreCmp, ErrorCmp, Sign, Kinds

THEOREM StrictTransitive ==
  \A k \in Kinds, a, b, c \in Int :
     (Cmp(k, a, b) = "lt" /\ Cmp(k, b, c) \in {"lt", "eq"}) => Cmp(k, a, c) = "lt"
  BY DEF Cmp, ScoreCmp, ErrorCmp, Sign, Kinds

(* "errors order exactly the other way round" *)
THEOREM ErrorReversesScore == \A a, b \in Int : ErrorCmp(a, b) = Flip(ScoreCmp(a, b))
  BY DEF ScoreCmp, ErrorCmp, Sign, Flip

(* bigger score is better, smaller error is better: the better one is the GREATER *)
THEOREM BetterIsGreater ==
  \A a, b \in Int : /\ (a > b <=> ScoreCmp(a, b) = "gt")
                    /\ (a < b <=> ErrorCmp(a, b) = "gt")
  BY DEF ScoreCmp, ErrorCmp, Sign

(* the operator family is coherent with the one relation *)
THEOREM FamilyCoherent ==
  \A k \in Kinds, a, b \in Int :
     LET A == Answers(Cmp(k, a, b), a, b) IN
     /\ A.le <=> (A.lt \/ A.eq)
     /\ A.ge <=> (A.gt \/ A.eq)
     /\ A.lt <=> ~A.ge
     /\ A.gt <=> ~A.le
     /\ A.eq <=> (a = b)
     /\ A.max \in {a, b} /\ A.min \in {a, b}
     /\ Cmp(k, A.max, A.min) \in {"gt", "eq"}
     /\ (A.max = a <=> A.min = b) \/ a = b
  BY DEF Answers, Cmp, ScoreCmp, ErrorCmp, Sign, Kinds

=============================================================================
