------------------------------ MODULE Ordering ------------------------------
(***************************************************************************)
(* Ordering and aggregation of test results, property C15: OrderingCore    *)
(* (the order on single results; its laws are proved for all integers in   *)
(* OrderingProofs.tla) plus totals of vectors.                             *)
(***************************************************************************)
EXTENDS OrderingCore

RECURSIVE Sum(_)
Sum(s) == IF s = <<>> THEN 0 ELSE Head(s) + Sum(Tail(s))

(* vectors of results and individuals compare as their totals do *)
ResultsCmp(kind, r, s) == Cmp(kind, Sum(r), Sum(s))

=============================================================================
