SPECIFICATION Spec
CONSTANTS
  N = 3
  L = 3
  Sels = {"tournament2", "lexicase"}
  Xo = "two_point"
  Mut = "rate0"
  Gens = 3
INVARIANTS SizeConstant ScoresConsistent GenomeLength SelectionTotal
PROPERTIES NoNewAlleles ComplementUnderRate1 ElitistTakeover
CHECK_DEADLOCK FALSE
