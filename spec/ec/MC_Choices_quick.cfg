SPECIFICATION MCSpec
CONSTANTS
  MaxLen = 4
  MaxSize = 4
INVARIANTS EmptyRejectedAtBuild Membership NumChoicesExact AllMembersReachable ExactSize Emit
CHECK_DEADLOCK FALSE
