SPECIFICATION Spec
CONSTANTS
  N0 = 4
  Workers = {1, 2}
  Kinds = {"set"}
  KeySet = {1, 2, 3}
  Gens = 2
INVARIANTS NoTornPopulation SizePreserved CallsMatchSize AllFresh OwnRandomness FailureAtomic NoPartialCommit ErrIffFailure SerialDiscipline
PROPERTIES StepsTerminate
CHECK_DEADLOCK FALSE
