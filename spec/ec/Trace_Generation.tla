--------------------------- MODULE Trace_Generation ---------------------------
(***************************************************************************)
(* Trace validation of the real Generation::serial_next / par_next.  The   *)
(* child maker is a harness operator that logs, under one lock,            *)
(*   start  - call number, thread, the population it was shown (ids, and   *)
(*            whether it was the generation's own population object),      *)
(*   end    - outcome, the 64-bit word it drew from the generator it was   *)
(*            handed, the id of the child it returned,                     *)
(* and the driver logs begin / return (result, population afterwards).     *)
(* Calls are numbered in start order and play the role of slots.           *)
(***************************************************************************)
EXTENDS Generation, Json, IOUtils, TLC

Log == ndJsonDeserialize(IOEnv.TRACE)
VARIABLES l, words
tvars == <<vars, l, words>>

TraceInit ==
  /\ l = 1 /\ words = {}
  /\ pop = <<>> /\ old = <<>> /\ slot = <<>> /\ phase = "idle"
  /\ result = [ok |-> TRUE, err |-> 0] /\ nextId = 0
  /\ rngpos = [w \in Workers |-> 0] /\ mode = "par" /\ kind = "seq" /\ key = <<>> /\ gen = 0

Reset == LET e == Log[l] IN
  /\ e.ev = "reset"
  /\ pop' = e.pop /\ old' = e.pop /\ slot' = [i \in 1..Len(e.pop) |-> Todo]
  /\ phase' = "idle" /\ result' = [ok |-> TRUE, err |-> 0] /\ nextId' = 0
  /\ rngpos' = [w \in Workers |-> 0] /\ mode' = e.mode /\ kind' = e.kind /\ gen' = 0
  /\ key' = [i \in ToSet(e.pop) |-> i]
  /\ words' = {}

BeginEv == Log[l].ev = "begin" /\ Begin /\ UNCHANGED words

StartEv == LET e == Log[l] IN
  /\ e.ev = "start"
  /\ e.call \in Slots                     \* never more calls than the population has members
  /\ Claim(e.thread, e.call)
  /\ e.seen = pop /\ e.same_object       \* the previous, unmodified population itself
  /\ UNCHANGED words

EndEv == LET e == Log[l] IN
  /\ e.ev = "end" /\ e.call \in Slots
  /\ IF e.ok THEN /\ Finish(e.call, e.child, e.key)
                  /\ e.word \notin words          \* its own live randomness
                  /\ words' = words \cup {e.word}
             ELSE Fail(e.call) /\ UNCHANGED words

ReturnEv == LET e == Log[l] IN
  /\ e.ev = "return"
  \* what the population says about itself through the Population trait: as many members as it
  \* holds, and empty exactly when it holds none (the step makes `size` children)
  /\ e.size = Len(e.pop_after) /\ e.is_empty = (Len(e.pop_after) = 0)
  /\ IF e.ok THEN CommitAs(e.pop_after)
             ELSE /\ Abort /\ result'.err = e.err_call
                  /\ e.pop_after = pop
  /\ UNCHANGED words

TraceNext == /\ l <= Len(Log) /\ l' = l + 1
             /\ (Reset \/ BeginEv \/ StartEv \/ EndEv \/ ReturnEv)
TraceSpec == TraceInit /\ [][TraceNext]_tvars

TraceAccepted ==
  LET d == TLCGet("stats").diameter IN
  IF d - 1 = Len(Log) THEN TRUE ELSE PrintT(<<"TRACE-REJECTED", d>>) /\ FALSE
=============================================================================
