---------------------------- MODULE Trace_Compose ----------------------------
(* Each logged event is one real application of a random composition (depth  *)
(* up to 5, tens of component calls): value or error path, the call log      *)
(* (component, input, stream position) and the number of words consumed must *)
(* be exactly what Compose.tla's Eval gives.                                 *)
EXTENDS Compose, Json, IOUtils, TLC

Log == ndJsonDeserialize(IOEnv.TRACE)
VARIABLE l

Apply == LET e == Log[l] c == e.case r == Run(c.e, c.x, c.failAt) IN
  /\ e.ev = "apply"
  /\ e.res.ok = r.ok
  /\ e.res.log = r.st.log
  /\ e.res.words = r.st.pos
  /\ e.res.path = r.path
  /\ e.res.scored = r.st.scored
  /\ e.res.v = r.v

TraceInit == l = 1
TraceNext == l <= Len(Log) /\ l' = l + 1 /\ Apply
TraceSpec == TraceInit /\ [][TraceNext]_l
TraceAccepted ==
  LET d == TLCGet("stats").diameter IN
  IF d - 1 = Len(Log) THEN TRUE ELSE PrintT(<<"TRACE-REJECTED", d>>) /\ FALSE
=============================================================================
