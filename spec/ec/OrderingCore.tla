---------------------------- MODULE OrderingCore ----------------------------
(***************************************************************************)
(* Ordering and aggregation of test results (ec-core test_results.rs,      *)
(* individual/ec.rs), property C15.  A score orders ascending (bigger is   *)
(* better), an error descending (smaller is better); the "better" element  *)
(* is the GREATER one in both orders.  A score is never comparable to an   *)
(* error.  A vector of results, and an individual, compare as their total  *)
(* does, and the total is the sum of the per-case results (Ordering.tla;   *)
(* this module is the part without recursion, which tlapm can read).      *)
(***************************************************************************)
EXTENDS Integers, Sequences

Sign(x) == IF x < 0 THEN "lt" ELSE IF x = 0 THEN "eq" ELSE "gt"

ScoreCmp(a, b) == Sign(a - b)
ErrorCmp(a, b) == Sign(b - a)
Cmp(kind, a, b) == IF kind = "score" THEN ScoreCmp(a, b) ELSE ErrorCmp(a, b)

(* everything a user can ask about two values of one kind, derived from the *)
(* one relation *)
Answers(c, a, b) ==
  [cmp |-> c, pcmp |-> c,
   eq |-> c = "eq", lt |-> c = "lt", le |-> c \in {"lt", "eq"},
   gt |-> c = "gt", ge |-> c \in {"gt", "eq"},
   max |-> IF c = "gt" THEN a ELSE b,      \* for c = "eq" the two are equal
   min |-> IF c = "gt" THEN b ELSE a]

(* a score against an error (TestResult): incomparable both ways *)
CrossAnswers == [pcmp |-> "none", eq |-> FALSE, lt |-> FALSE, le |-> FALSE, gt |-> FALSE, ge |-> FALSE]

Flip(c) == IF c = "lt" THEN "gt" ELSE IF c = "gt" THEN "lt" ELSE "eq"
=============================================================================
