---------------------------- MODULE MC_Selection ----------------------------
(***************************************************************************)
(* C06-C08 on Selection.tla over all small populations and configurations: *)
(* soundness of results, selection pressure, lexicase filtering, and the   *)
(* exact laws as integer counts.  Emits one replay case per configuration  *)
(* (the set of allowed results = the support) and one LAW line per         *)
(* distribution the real code is compared with statistically.              *)
(***************************************************************************)
EXTENDS Selection, FiniteSetsExt, SequencesExt, TLC, Json

CONSTANTS MaxPop,    \* populations of 0..MaxPop individuals for best/worst/random/tournament
          LexPop,    \* populations of 0..LexPop individuals for lexicase
          LexCases,  \* result vectors of length 0..LexCases
          PermCases  \* case counts m for which the order-revealing population PermPop(m) is included

VARIABLES case, phase, res
mcvars == <<case, phase, res>>

Scores == 0..2
Ind(sc, rs) == [score |-> sc, res |-> rs]
ScorePops == UNION {[1..n -> {Ind(sc, <<>>) : sc \in Scores}] : n \in 0..MaxPop}
Vecs(m) == [1..m -> Scores]
LexPops ==
       UNION {UNION {[1..n -> {Ind(0, v) : v \in Vecs(m)}] : n \in 0..LexPop} : m \in 0..LexCases}
  \cup [1..2 -> {Ind(0, v) : v \in UNION {Vecs(m) : m \in 0..LexCases}}]   \* ragged result vectors
Ladder(n) == [i \in 1..n |-> Ind(i, <<>>)]        \* distinct scores 1..n
(* one individual per arrangement of the values 0..m-1 over m cases: every   *)
(* case order has its own unique winner, so the winner law IS the law of the *)
(* case order (uniform over the m! orders)                                   *)
PermPop(m) == LET vs == SetToSeq({v \in [1..m -> 0..(m - 1)] : \A a, b \in 1..m : a # b => v[a] # v[b]})
              IN [i \in 1..Len(vs) |-> Ind(0, vs[i])]

Cases ==
       {[sel |-> s, pop |-> p] : s \in {"best", "worst", "random"}, p \in ScorePops}
  \cup {[sel |-> "tournament", k |-> k, pop |-> p] : k \in 1..(MaxPop + 1), p \in ScorePops}
  \cup {[sel |-> "tournament", k |-> k, pop |-> Ladder(n)] : n \in 5..6, k \in 1..6}
  \cup {[sel |-> "lexicase", pol |-> pol, c |-> c, pop |-> p] :
           pol \in {"score", "error"}, c \in 0..(LexCases + 1), p \in LexPops}
  \cup {[sel |-> "lexicase", pol |-> pol, c |-> m, pop |-> PermPop(m)] : pol \in {"score", "error"}, m \in PermCases}

Outcomes(c) ==
  CASE c.sel = "best"   -> BestOutcomes(c.pop)
    [] c.sel = "worst"  -> WorstOutcomes(c.pop)
    [] c.sel = "random" -> RandomOutcomes(c.pop)
    [] c.sel = "tournament" -> TournamentOutcomes(c.pop, c.k)
    [] c.sel = "lexicase"   -> LexicaseOutcomes(c.pop, c.pol, c.c)

MCInit == case \in Cases /\ phase = "pre" /\ res = [k |-> "none"]
MCNext == phase = "pre" /\ res' \in Outcomes(case) /\ phase' = "post" /\ UNCHANGED case
MCSpec == MCInit /\ [][MCNext]_mcvars

Post == phase = "post"
n == Len(case.pop)

-----------------------------------------------------------------------------
(* C06 *)
ResultSound ==
  Post => /\ res.k \in {"member", "empty_population", "tournament_size", "missing_test_case"}
          /\ (res.k = "member" => res.i \in Idx(case.pop))
          /\ (n = 0 => res = IF case.sel = "tournament" THEN TournamentSize(case.k, 0) ELSE EmptyPopulation)
          /\ (res.k = "empty_population" => n = 0)
          /\ (res.k = "tournament_size" => (case.sel = "tournament" /\ case.k > n /\ res.size = case.k /\ res.pop = n))
          /\ (res.k = "missing_test_case" =>
                (case.sel = "lexicase" /\ res.total = case.c /\ n >= 2
                 /\ \E i \in Idx(case.pop) : ~Has(case.pop, i, res.idx)))
NeverStuck == (phase = "pre") => Outcomes(case) # {}

(* C07 *)
MaximalIsUnbeaten ==
  (phase = "pre" /\ Len(case.pop) <= 6) => \A S \in SUBSET Idx(case.pop) :
     Maximal(case.pop, S) = Unbeaten(case.pop, S) /\ Minimal(case.pop, S) = Unbeating(case.pop, S)
Pressure ==
  (Post /\ res.k = "member") =>
     /\ (case.sel = "best"  => \A j \in Idx(case.pop) : case.pop[j].score <= case.pop[res.i].score)
     /\ (case.sel = "worst" => \A j \in Idx(case.pop) : case.pop[j].score >= case.pop[res.i].score)
     /\ (case.sel = "tournament" =>
           Cardinality({j \in Idx(case.pop) \ {res.i} : case.pop[j].score <= case.pop[res.i].score}) >= case.k - 1)
TournamentExtremes ==
  (phase = "pre" /\ case.sel = "tournament" /\ case.k <= n) =>
     /\ (case.k = 1 => Outcomes(case) = RandomOutcomes(case.pop))
     /\ (case.k = n => Outcomes(case) = BestOutcomes(case.pop))
DistinctScores(p) == \A a, b \in Idx(p) : a # b => p[a].score # p[b].score
(* every k-subset equally likely  =>  P(winner has rank r from the bottom) = C(r-1,k-1)/C(n,k) *)
TournamentLaw ==
  (phase = "pre" /\ case.sel = "tournament" /\ case.k <= n /\ DistinctScores(case.pop)) =>
     /\ \A i \in Idx(case.pop) :
           TournamentCount(case.pop, case.k, i) = Choose(RankFromBottom(case.pop, i) - 1, case.k - 1)
     /\ SumSet({TournamentCount(case.pop, case.k, i) : i \in {}}) = 0

(* C08 *)
FullResults == \A i \in Idx(case.pop) : Len(case.pop[i].res) >= case.c
LexSurvives ==
  (Post /\ case.sel = "lexicase" /\ res.k = "member") =>
     \E ord \in CaseOrders(case.c) :
        LET r == LexRun(case.pop, case.pol, case.c, Idx(case.pop), ord) IN ~r.err /\ res.i \in r.cands
LexNeverDominated ==
  (Post /\ case.sel = "lexicase" /\ res.k = "member" /\ FullResults) =>
     \A j \in Idx(case.pop) : ~Dominates(case.pop, case.pol, case.c, j, res.i)
LexDegenerate ==
  (phase = "pre" /\ case.sel = "lexicase" /\ n >= 1) =>
     /\ (case.c = 0 => Outcomes(case) = RandomOutcomes(case.pop))
     /\ (n = 1 => Outcomes(case) = {Member(1)})
(* what the acceptance test of trace validation accepts is what the run along some order yields *)
SynthCmps(pop, pol, ord) ==
  \* the comparisons the filtering makes along `ord`: every remaining candidate against the first
  LET RECURSIVE Go(_, _)
      Go(cands, o) ==
        IF o = <<>> \/ Cardinality(cands) <= 1 THEN <<>>
        ELSE LET case0 == Head(o)
                 first == CHOOSE i \in cands : \A j \in cands : i <= j
                 others == SetToSeq(cands \ {first})
             IN IF \E i \in cands : ~Has(pop, i, case0) THEN <<>>
                ELSE [m \in 1..Len(others) |-> <<others[m], first, case0>>]
                     \o Go(Filter(pop, pol, cands, case0), Tail(o))
  IN Go(Idx(pop), ord)
LexAcceptsExact ==
  (phase = "pre" /\ case.sel = "lexicase" /\ n >= 1) =>
     \A ord \in CaseOrders(case.c) :
        LET cm == SynthCmps(case.pop, case.pol, ord) IN
        \A r \in LexOutcomesFor(case.pop, case.pol, case.c, ord) :
           LexicaseAccepts(case.pop, case.pol, case.c, cm, r)

-----------------------------------------------------------------------------
SeqOfSet(S) == SetToSeq(S)

LexWeight(c, i) ==
  MapThenSumSet(LAMBDA ord :
                  LET r == LexRun(c.pop, c.pol, c.c, Idx(c.pop), ord) IN
                  IF ~r.err /\ i \in r.cands THEN Lcm(Len(c.pop)) \div Cardinality(r.cands) ELSE 0,
                CaseOrders(c.c))

IsLawCase(c) ==
  \/ (c.sel = "tournament" /\ c.k <= Len(c.pop) /\ Len(c.pop) >= 2 /\ DistinctScores(c.pop))
  \/ (c.sel = "lexicase" /\ Len(c.pop) >= 6)
  \/ (c.sel = "lexicase" /\ Len(c.pop) >= 2 /\ c.pol = "score"
      /\ \A i \in Idx(c.pop) : Len(c.pop[i].res) = c.c
      /\ \/ Cardinality({LexOutcomesFor(c.pop, c.pol, c.c, ord) : ord \in CaseOrders(c.c)}) >= 2
         \/ (Len(c.pop) >= 3 /\ Cardinality(LexicaseOutcomes(c.pop, c.pol, c.c)) >= 3))

Law(c) ==
  IF c.sel = "tournament"
    THEN [case |-> c, den |-> Choose(Len(c.pop), c.k),
          num |-> [i \in Idx(c.pop) |-> TournamentCount(c.pop, c.k, i)]]
    ELSE [case |-> c, den |-> Fact(c.c) * Lcm(Len(c.pop)),
          num |-> [i \in Idx(c.pop) |-> LexWeight(c, i)]]

Emit ==
  (phase = "pre") =>
     /\ PrintT(<<"CASE", ToJson([case |-> case, allowed |-> SeqOfSet(Outcomes(case))])>>)
     /\ (IsLawCase(case) => PrintT(<<"LAW", ToJson(Law(case))>>))
=============================================================================
