----------------------------- MODULE MC_Weighted -----------------------------
(* C13 on every tree shape with up to MaxLeaves leaves and weights in Ws,    *)
(* every dynamic list, every construction sequence.                          *)
EXTENDS Weighted, SequencesExt, TLC, Json

CONSTANTS MaxLeaves, Ws, BuildWs, BuildLen

VARIABLES case, phase, res
mcvars == <<case, phase, res>>

(* all binary trees with exactly n leaves, leaves numbered left to right from `from` *)
RECURSIVE TreesF(_, _, _)
TreesF(n, from, fs) ==
  IF n = 1 THEN {LeafF(w, from, f) : w \in Ws, f \in fs}
  ELSE UNION {{Pair(a, b) : a \in TreesF(k, from, fs), b \in TreesF(n - k, from + k, fs)} : k \in 1..(n - 1)}
Trees(n, from) == TreesF(n, from, {FALSE})
(* trees of up to 3 leaves in which any member may FAIL when it is delegated to *)
FailingTrees == UNION {TreesF(n, 1, BOOLEAN) : n \in 1..3}

Cases ==
       {[op |-> "select", tree |-> t] : t \in (UNION {Trees(n, 1) : n \in 1..MaxLeaves}) \cup FailingTrees}
  \cup {[op |-> "dyn", ws |-> ws] : ws \in UNION {[1..n -> Ws] : n \in 1..MaxLeaves}}
  \cup {[op |-> "build", ws |-> ws] : ws \in UNION {[1..n -> BuildWs] : n \in 1..BuildLen}}

Outcomes(c) ==
  CASE c.op = "select" -> SelectOutcomes(c.tree)
    [] c.op = "dyn"    -> DynOutcomes(c.ws)
    [] c.op = "build"  -> {Build(c.ws)}

MCInit == case \in Cases /\ phase = "pre" /\ res = [k |-> "none"]
MCNext == phase = "pre" /\ res' \in Outcomes(case) /\ phase' = "post" /\ UNCHANGED case
MCSpec == MCInit /\ [][MCNext]_mcvars
Post == phase = "post"

(* exactly one member, never one of weight zero *)
ExactlyOneMember ==
  (Post /\ case.op = "select" /\ res.k \in {"chosen", "member_error"}) =>
     LET lf == LeafAt(case.tree, res.path) IN
     lf.t = "leaf" /\ lf.m = res.m /\ lf.w > 0 /\ (res.k = "member_error" <=> lf.f)
ZeroNeverUsed ==
  (Post /\ case.op = "dyn" /\ res.k = "chosen_dyn") => case.ws[res.j] > 0
AllZeroIsError ==
  Post => /\ (case.op = "select" => (res = ZeroWeight <=> Weight(case.tree) = 0))
          /\ (case.op = "dyn" => (res = ZeroWeight <=> SumSeq(case.ws) = 0))
(* "proportional to its weight no matter how the combination was nested":   *)
(* P(leaf) * total = weight(leaf), cross-multiplied, for every shape         *)
Proportional ==
  (phase = "pre" /\ case.op = "select" /\ Weight(case.tree) > 0) =>
     \A p \in Paths(case.tree) :
        LET f == ReachProb(case.tree, p) IN
        (f.d # 0) => f.n * Weight(case.tree) = LeafAt(case.tree, p).w * f.d
(* only the RATIOS of the weights matter: multiplying every weight by the same *)
(* factor changes no probability (this is what lets the conformance runs use   *)
(* the same laws with weights scaled up to the 32-bit boundary)                *)
RECURSIVE Scaled(_, _)
Scaled(t, k) == IF t.t = "leaf" THEN [t EXCEPT !.w = @ * k] ELSE [t EXCEPT !.a = Scaled(t.a, k), !.b = Scaled(t.b, k)]
ScaleInvariant ==
  (phase = "pre" /\ case.op = "select" /\ Weight(case.tree) > 0) =>
     \A k \in {2, 7} : \A p \in Paths(case.tree) :
        LET f == ReachProb(case.tree, p) g == ReachProb(Scaled(case.tree, k), p) IN
        /\ (f.d = 0 <=> g.d = 0)
        /\ f.n * g.d = g.n * f.d
OverflowAtBuild ==
  (Post /\ case.op = "build") =>
     /\ (res.k = "ok" <=> SumSeq(case.ws) <= WMax)
     /\ (res.k = "ok" => res.total = SumSeq(case.ws))
     /\ (res.k = "weight_sum_overflow" =>
           \E n \in 1..(Len(case.ws) - 1) :
              /\ SumSeq(SubSeq(case.ws, 1, n)) = res.a /\ case.ws[n + 1] = res.b
              /\ res.a <= WMax /\ res.a + res.b > WMax)

RECURSIVE LeafProbs(_, _)
Law(c) ==
  IF c.op = "select"
    THEN [case |-> c, den |-> Weight(c.tree),
          num |-> [i \in 1..Len(Leaves(c.tree)) |-> Leaves(c.tree)[i].w]]
    ELSE [case |-> c, den |-> SumSeq(c.ws), num |-> c.ws]
LeafProbs(t, p) == <<>>

Emit ==
  (phase = "pre") =>
     /\ PrintT(<<"CASE", ToJson([case |-> case, allowed |-> SetToSeq(Outcomes(case))])>>)
     /\ ((case.op \in {"select", "dyn"} /\ ~(ZeroWeight \in Outcomes(case))) =>
            PrintT(<<"LAW", ToJson(Law(case))>>))
=============================================================================
