--------------------------- MODULE Trace_Variation ---------------------------
(***************************************************************************)
(* Trace validation of the real variation operators.  Every logged event   *)
(* is one real call; it must be explainable by SOME choice of the hidden   *)
(* random decisions (cut points, mask, keep/insert decisions) of           *)
(* Variation.tla.  A panic matches nothing.                                *)
(***************************************************************************)
EXTENDS Variation, Json, IOUtils, TLC

Log == ndJsonDeserialize(IOEnv.TRACE)

VARIABLE l

TwoPointAccepts(p1, p2, r) ==
  IF Len(p1) # Len(p2) THEN r = ErrLen(Len(p1), Len(p2))
  ELSE /\ r.k = "ok" /\ Len(r.child) = Len(p1)
       /\ \E lo \in 0..Len(p1), hi \in 0..Len(p1) : lo <= hi /\ r.child = Seg(p1, p2, lo, hi)

UniformAccepts(p1, p2, r) ==
  IF Len(p1) # Len(p2) THEN r = ErrLen(Len(p1), Len(p2))
  ELSE /\ r.k = "ok" /\ Len(r.child) = Len(p1)
       /\ \A i \in 1..Len(p1) : r.child[i] \in {p1[i], p2[i]}

FlipAccepts(g, num, den, r) ==
  /\ r.k = "ok" /\ Len(r.child) = Len(g)
  /\ \A i \in 1..Len(g) :
        \/ (r.child[i] = g[i] /\ FALSE \in FlipChoices(num, den))
        \/ (r.child[i] = Neg(g[i]) /\ TRUE \in FlipChoices(num, den))

Xo == LET e == Log[l] IN
      /\ e.ev = "xo"
      /\ IF e.op = "two_point" THEN TwoPointAccepts(e.p1, e.p2, e.res)
                               ELSE UniformAccepts(e.p1, e.p2, e.res)

Xch == LET e == Log[l] c == e.case IN
       /\ e.ev = "xch"
       /\ e.res = (IF c.op = "xgene" THEN XGene(c.a, c.b, c.i) ELSE XSegment(c.a, c.b, c.lo, c.hi))

Mut == LET e == Log[l] IN
       /\ e.ev = "mut"
       /\ CASE e.op = "flip" -> FlipAccepts(e.g, e.num, e.den, e.res)
            [] e.op = "ool"  -> IF Len(e.g) = 0 THEN e.res = OkChild(<<>>)
                                ELSE FlipAccepts(e.g, 1, Len(e.g), e.res)
            [] e.op = "umad" -> /\ e.res.k = "ok"
                                /\ UmadAcceptsIn(e.g, e.res.child, e.addN, e.addD, e.delN, e.delD,
                                                 e.ek, e.eN, e.eD, {e.new[k] : k \in 1..Len(e.new)})
            (* a LONG genome (up to 2^24 + 1 genes; scalars only): mutation succeeds, the  *)
            (* length is kept, rate 0 changes nothing and a flip rate >= 1 everything      *)
            [] e.op = "bigflip" -> /\ e.res.k = "ok" /\ e.res.len = e.len
                                   /\ (~e.ool /\ e.num = 0 => e.res.changed = 0)
                                   /\ (~e.ool /\ e.num >= e.den => e.res.changed = e.len)

TraceInit == l = 1
TraceNext == l <= Len(Log) /\ l' = l + 1 /\ (Xo \/ Xch \/ Mut)
TraceSpec == TraceInit /\ [][TraceNext]_l

TraceAccepted ==
  LET d == TLCGet("stats").diameter IN
  IF d - 1 = Len(Log) THEN TRUE
  ELSE /\ PrintT(<<"TRACE-REJECTED", d>>)
       /\ FALSE
=============================================================================
