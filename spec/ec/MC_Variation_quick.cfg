SPECIFICATION MCSpec
CONSTANTS
  MaxLen = 4
  BitLen = 2
INVARIANTS MisuseIsError ChildShape AllSegments AllMasks PairsFree ExchangeExact FlipShape FlipDegenerate OolDegenerate UmadShape UmadDegenerate UmadAcceptsExact Emit
CHECK_DEADLOCK FALSE
