SPECIFICATION Spec
CONSTANTS
  N = 3
  L = 3
  Sels = {"lexicase", "best"}
  Xo = "uniform"
  Mut = "none"
  Gens = 3
INVARIANTS SizeConstant ScoresConsistent GenomeLength SelectionTotal
PROPERTIES NoNewAlleles ComplementUnderRate1 ElitistTakeover
CHECK_DEADLOCK FALSE
