SPECIFICATION Spec
