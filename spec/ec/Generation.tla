------------------------------ MODULE Generation ------------------------------
(***************************************************************************)
(* One generation step (ec-core generation.rs: serial_next / par_next),    *)
(* property C09.  The population holds N individuals (ids).  A step calls  *)
(* the child maker once per slot, possibly concurrently on several         *)
(* workers; every call is shown the previous, unmodified population and    *)
(* draws from its worker's live random stream.  If every call succeeds the *)
(* population is replaced by exactly the N fresh children; if any call     *)
(* fails the step returns that error and the population is left as it was. *)
(*                                                                         *)
(* kind = "seq": the population is a sequence-like collection (Vec,         *)
(* VecDeque, LinkedList): N children give a population of N.  kind = "set": *)
(* a set-like collection (BTreeSet, HashSet), which keeps one individual   *)
(* per key: children with equal keys collapse, the population may shrink,  *)
(* and the NEXT step makes exactly as many children as the population then *)
(* has.                                                                    *)
(*                                                                         *)
(* mode = "serial": one call at a time, in order, none after a failure.    *)
(* mode = "par": calls overlap arbitrarily; after a failure, calls not yet  *)
(* started may or may not still run (latitude L6), and the error returned   *)
(* is that of any failed call.                                             *)
(***************************************************************************)
EXTENDS Naturals, Sequences, FiniteSets, TLC

CONSTANTS Workers,   \* set of worker ids
          Gens,      \* number of consecutive generation steps explored
          Kinds,     \* population kinds explored: subset of {"seq", "set"}
          KeySet     \* keys a child may have (what a set-like population identifies individuals by)

VARIABLES pop,      \* current population: sequence of individual ids
          old,      \* population when the current step began
          slot,     \* [1..N -> [st, w, child, seen, draw]], N = size of the population
          phase,    \* "idle" | "building" | "committed" | "aborted"
          result,   \* [ok |-> BOOLEAN, err |-> slot that failed or 0]
          nextId,   \* source of fresh individual ids
          rngpos,   \* [Workers -> Nat]: position of each worker's random stream
          mode,     \* "serial" | "par"
          kind,     \* "seq" | "set"
          key,      \* individual id -> its key (only looked at when kind = "set")
          gen       \* number of steps completed

vars == <<pop, old, slot, phase, result, nextId, rngpos, mode, kind, key, gen>>

Key(c) == key[c]

ToSet(s) == {s[i] : i \in 1..Len(s)}

Todo == [st |-> "todo", w |-> 0, child |-> 0, seen |-> <<>>, draw |-> <<0, 0>>]

St(i) == slot[i].st
N == Len(slot)          \* calls of the current step = size of the population when it began
Slots == 1..N
Some(st) == \E i \in Slots : St(i) = st
AllSt(st) == \A i \in Slots : St(i) = st

InitWith(p) ==
  /\ pop = p
  /\ old = pop
  /\ slot = [i \in 1..Len(p) |-> Todo]
  /\ phase = "idle"
  /\ result = [ok |-> TRUE, err |-> 0]
  /\ nextId = Len(p) + 1
  /\ rngpos = [w \in Workers |-> 0]
  /\ mode \in {"serial", "par"}
  /\ kind \in Kinds
  /\ key = [i \in ToSet(p) |-> i]            \* the initial members are distinct by key
  /\ gen = 0

Begin ==
  /\ phase \in {"idle", "committed", "aborted"} /\ gen < Gens
  /\ phase' = "building"
  /\ old' = pop
  /\ slot' = [i \in 1..Len(pop) |-> Todo]
  /\ key' = [c \in ToSet(pop) |-> key[c]]        \* earlier individuals are gone
  /\ UNCHANGED <<pop, result, nextId, rngpos, mode, kind, gen>>

(* worker w starts the call for slot i: it is shown the current population *)
Claim(w, i) ==
  /\ phase = "building" /\ St(i) = "todo"
  /\ (mode = "serial" =>
        /\ ~Some("running") /\ ~Some("failed")
        /\ \A j \in Slots : j < i => St(j) = "done")
  /\ slot' = [slot EXCEPT ![i] = [@ EXCEPT !.st = "running", !.w = w, !.seen = pop]]
  /\ UNCHANGED <<pop, old, phase, result, nextId, rngpos, mode, kind, key, gen>>

(* the call returns a fresh child c (an id never used before), having     *)
(* consumed its worker's next draw                                         *)
Finish(i, c, k) ==
  /\ phase = "building" /\ St(i) = "running"
  /\ key' = (c :> k) @@ key
  /\ c >= nextId \/ (c \notin ToSet(old) /\ \A j \in Slots : slot[j].child # c)
  /\ c \notin ToSet(old) /\ \A j \in Slots : slot[j].child # c
  /\ LET w == slot[i].w IN
     /\ slot' = [slot EXCEPT ![i] = [@ EXCEPT !.st = "done", !.child = c,
                                                !.draw = <<w, rngpos[w]>>]]
     /\ rngpos' = [rngpos EXCEPT ![w] = @ + 1]
  /\ nextId' = IF c >= nextId THEN c + 1 ELSE nextId
  /\ UNCHANGED <<pop, old, phase, result, mode, kind, gen>>

(* ... or fails: any call may (the environment decides) *)
Fail(i) ==
  /\ phase = "building" /\ St(i) = "running"
  /\ slot' = [slot EXCEPT ![i] = [@ EXCEPT !.st = "failed"]]
  /\ UNCHANGED <<pop, old, phase, result, nextId, rngpos, mode, kind, key, gen>>

(* all N calls succeeded: the population becomes exactly the N children *)
(* (the order of the children in the new population is not part of the     *)
(* property, L8: any arrangement p of exactly those children)               *)
Children == {slot[i].child : i \in Slots}
Keys(S) == {Key(c) : c \in S}
CommitAs(p) ==
  /\ phase = "building" /\ AllSt("done")
  /\ IF kind = "seq"
       THEN Len(p) = N /\ ToSet(p) = Children
       ELSE /\ ToSet(p) \subseteq Children                 \* one child per key, no key lost
            /\ Keys(ToSet(p)) = Keys(Children)
            /\ Len(p) = Cardinality(Keys(Children))
  /\ pop' = p
  /\ phase' = "committed" /\ result' = [ok |-> TRUE, err |-> 0] /\ gen' = gen + 1
  /\ UNCHANGED <<old, slot, nextId, rngpos, mode, kind, key>>

RECURSIVE OnePerKey(_, _)
OnePerKey(i, seen) ==       \* the children in slot order, first of each key kept
  IF i > N THEN <<>>
  ELSE IF Key(slot[i].child) \in seen THEN OnePerKey(i + 1, seen)
       ELSE <<slot[i].child>> \o OnePerKey(i + 1, seen \cup {Key(slot[i].child)})
Commit == IF kind = "seq" THEN CommitAs([i \in Slots |-> slot[i].child])
                          ELSE CommitAs(OnePerKey(1, {}))

(* some call failed and none is still running: the error is returned and   *)
(* the population is untouched; slots never started stay unstarted         *)
Abort ==
  /\ phase = "building" /\ Some("failed") /\ ~Some("running")
  /\ \E i \in Slots : St(i) = "failed" /\ result' = [ok |-> FALSE, err |-> i]
  /\ phase' = "aborted" /\ gen' = gen + 1
  /\ UNCHANGED <<pop, old, slot, nextId, rngpos, mode, kind, key>>

Next ==
  \/ Begin
  \/ \E w \in Workers, i \in Slots : Claim(w, i)
  \/ \E i \in Slots : Fail(i) \/ \E k \in (IF kind = "set" THEN KeySet ELSE {0}) : Finish(i, nextId, k)
  \/ Commit \/ Abort

-----------------------------------------------------------------------------

NoTornPopulation ==
  phase = "building" => (pop = old /\ \A i \in Slots : St(i) # "todo" => slot[i].seen = old)
SizePreserved == IF kind = "seq" THEN Len(pop) = Len(old) ELSE Len(pop) <= Len(old)
(* exactly as many calls as the population had when the step began *)
CallsMatchSize == phase # "idle" => DOMAIN slot = 1..Len(old)
AllFresh ==
  phase = "committed" =>
     /\ IF kind = "seq" THEN ToSet(pop) = Children /\ Cardinality(ToSet(pop)) = N   \* no child twice
                         ELSE ToSet(pop) \subseteq Children /\ Keys(ToSet(pop)) = Keys(Children)
                              /\ Cardinality(ToSet(pop)) = Len(pop)
                              /\ Cardinality(Keys(ToSet(pop))) = Len(pop)
     /\ ToSet(pop) \cap ToSet(old) = {}               \* no parent carried over
OwnRandomness ==
  \A i, j \in Slots : (i # j /\ St(i) = "done" /\ St(j) = "done") => slot[i].draw # slot[j].draw
FailureAtomic ==
  phase = "aborted" => (pop = old /\ ~result.ok /\ St(result.err) = "failed")
NoPartialCommit == phase = "committed" => (result.ok /\ ~Some("failed") /\ AllSt("done"))
ErrIffFailure ==
  phase \in {"committed", "aborted"} => (result.ok <=> ~Some("failed"))
SerialDiscipline ==
  mode = "serial" => /\ Cardinality({i \in Slots : St(i) = "running"}) <= 1
                     /\ \A i, j \in Slots : (i < j /\ St(j) # "todo") => St(i) = "done"
                     /\ Cardinality({i \in Slots : St(i) = "failed"}) <= 1
StepsTerminate == (phase = "building") ~> (phase \in {"committed", "aborted"})
=============================================================================
