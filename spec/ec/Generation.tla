------------------------------ MODULE Generation ------------------------------
(***************************************************************************)
(* One generation step (ec-core generation.rs: serial_next / par_next),    *)
(* property C09.  The population holds N individuals (ids).  A step calls  *)
(* the child maker once per slot, possibly concurrently on several         *)
(* workers; every call is shown the previous, unmodified population and    *)
(* draws from its worker's live random stream.  If every call succeeds the *)
(* population is replaced by exactly the N fresh children; if any call     *)
(* fails the step returns that error and the population is left as it was. *)
(*                                                                         *)
(* mode = "serial": one call at a time, in order, none after a failure.    *)
(* mode = "par": calls overlap arbitrarily; after a failure, calls not yet  *)
(* started may or may not still run (latitude L6), and the error returned   *)
(* is that of any failed call.                                             *)
(***************************************************************************)
EXTENDS Naturals, Sequences, FiniteSets

CONSTANTS Workers,   \* set of worker ids
          Gens       \* number of consecutive generation steps explored

VARIABLES pop,      \* current population: sequence of individual ids
          old,      \* population when the current step began
          slot,     \* [1..N -> [st, w, child, seen, draw]], N = size of the population
          phase,    \* "idle" | "building" | "committed" | "aborted"
          result,   \* [ok |-> BOOLEAN, err |-> slot that failed or 0]
          nextId,   \* source of fresh individual ids
          rngpos,   \* [Workers -> Nat]: position of each worker's random stream
          mode,     \* "serial" | "par"
          gen       \* number of steps completed

vars == <<pop, old, slot, phase, result, nextId, rngpos, mode, gen>>

ToSet(s) == {s[i] : i \in 1..Len(s)}

Todo == [st |-> "todo", w |-> 0, child |-> 0, seen |-> <<>>, draw |-> <<0, 0>>]

St(i) == slot[i].st
N == Len(pop)
Slots == 1..N
Some(st) == \E i \in Slots : St(i) = st
AllSt(st) == \A i \in Slots : St(i) = st

InitWith(p) ==
  /\ pop = p
  /\ old = pop
  /\ slot = [i \in Slots |-> Todo]
  /\ phase = "idle"
  /\ result = [ok |-> TRUE, err |-> 0]
  /\ nextId = Len(p) + 1
  /\ rngpos = [w \in Workers |-> 0]
  /\ mode \in {"serial", "par"}
  /\ gen = 0

Begin ==
  /\ phase \in {"idle", "committed", "aborted"} /\ gen < Gens
  /\ phase' = "building"
  /\ old' = pop
  /\ slot' = [i \in Slots |-> Todo]
  /\ UNCHANGED <<pop, result, nextId, rngpos, mode, gen>>

(* worker w starts the call for slot i: it is shown the current population *)
Claim(w, i) ==
  /\ phase = "building" /\ St(i) = "todo"
  /\ (mode = "serial" =>
        /\ ~Some("running") /\ ~Some("failed")
        /\ \A j \in Slots : j < i => St(j) = "done")
  /\ slot' = [slot EXCEPT ![i] = [@ EXCEPT !.st = "running", !.w = w, !.seen = pop]]
  /\ UNCHANGED <<pop, old, phase, result, nextId, rngpos, mode, gen>>

(* the call returns a fresh child c (an id never used before), having     *)
(* consumed its worker's next draw                                         *)
Finish(i, c) ==
  /\ phase = "building" /\ St(i) = "running"
  /\ c >= nextId \/ (c \notin ToSet(old) /\ \A j \in Slots : slot[j].child # c)
  /\ c \notin ToSet(old) /\ \A j \in Slots : slot[j].child # c
  /\ LET w == slot[i].w IN
     /\ slot' = [slot EXCEPT ![i] = [@ EXCEPT !.st = "done", !.child = c,
                                                !.draw = <<w, rngpos[w]>>]]
     /\ rngpos' = [rngpos EXCEPT ![w] = @ + 1]
  /\ nextId' = IF c >= nextId THEN c + 1 ELSE nextId
  /\ UNCHANGED <<pop, old, phase, result, mode, gen>>

(* ... or fails: any call may (the environment decides) *)
Fail(i) ==
  /\ phase = "building" /\ St(i) = "running"
  /\ slot' = [slot EXCEPT ![i] = [@ EXCEPT !.st = "failed"]]
  /\ UNCHANGED <<pop, old, phase, result, nextId, rngpos, mode, gen>>

(* all N calls succeeded: the population becomes exactly the N children *)
(* (the order of the children in the new population is not part of the     *)
(* property, L8: any arrangement p of exactly those children)               *)
CommitAs(p) ==
  /\ phase = "building" /\ AllSt("done")
  /\ Len(p) = N /\ ToSet(p) = {slot[i].child : i \in Slots}
  /\ pop' = p
  /\ phase' = "committed" /\ result' = [ok |-> TRUE, err |-> 0] /\ gen' = gen + 1
  /\ UNCHANGED <<old, slot, nextId, rngpos, mode>>

Commit == CommitAs([i \in Slots |-> slot[i].child])

(* some call failed and none is still running: the error is returned and   *)
(* the population is untouched; slots never started stay unstarted         *)
Abort ==
  /\ phase = "building" /\ Some("failed") /\ ~Some("running")
  /\ \E i \in Slots : St(i) = "failed" /\ result' = [ok |-> FALSE, err |-> i]
  /\ phase' = "aborted" /\ gen' = gen + 1
  /\ UNCHANGED <<pop, old, slot, nextId, rngpos, mode>>

Next ==
  \/ Begin
  \/ \E w \in Workers, i \in Slots : Claim(w, i)
  \/ \E i \in Slots : Finish(i, nextId) \/ Fail(i)
  \/ Commit \/ Abort

-----------------------------------------------------------------------------

NoTornPopulation ==
  phase = "building" => (pop = old /\ \A i \in Slots : St(i) # "todo" => slot[i].seen = old)
SizePreserved == Len(pop) = Len(old)
AllFresh ==
  phase = "committed" =>
     /\ ToSet(pop) = {slot[i].child : i \in Slots}
     /\ Cardinality(ToSet(pop)) = N                   \* no child twice
     /\ ToSet(pop) \cap ToSet(old) = {}               \* no parent carried over
OwnRandomness ==
  \A i, j \in Slots : (i # j /\ St(i) = "done" /\ St(j) = "done") => slot[i].draw # slot[j].draw
FailureAtomic ==
  phase = "aborted" => (pop = old /\ ~result.ok /\ St(result.err) = "failed")
NoPartialCommit == phase = "committed" => (result.ok /\ ~Some("failed") /\ AllSt("done"))
ErrIffFailure ==
  phase \in {"committed", "aborted"} => (result.ok <=> ~Some("failed"))
SerialDiscipline ==
  mode = "serial" => /\ Cardinality({i \in Slots : St(i) = "running"}) <= 1
                     /\ \A i, j \in Slots : (i < j /\ St(j) # "todo") => St(i) = "done"
                     /\ Cardinality({i \in Slots : St(i) = "failed"}) <= 1
StepsTerminate == (phase = "building") ~> (phase \in {"committed", "aborted"})
=============================================================================
