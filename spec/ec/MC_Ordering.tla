----------------------------- MODULE MC_Ordering -----------------------------
(* Order laws on the small domain, and one replay case per pair / triple.    *)
EXTENDS Ordering, TLC, Json, FiniteSets

CONSTANTS Vals, VecLen

VARIABLES case, phase
mcvars == <<case, phase>>

ValsDef == -2..2
Kinds == {"score", "error"}
Vecs == UNION {[1..n -> Vals] : n \in 0..VecLen}

Cases ==
       {[t |-> "pair", kind |-> k, a |-> a, b |-> b] : k \in Kinds, a \in Vals, b \in Vals}
  \cup {[t |-> "cross", a |-> a, b |-> b] : a \in Vals, b \in Vals}
  \cup {[t |-> "vecs", kind |-> k, r |-> r, s |-> s] : k \in Kinds, r \in Vecs, s \in Vecs}

MCInit == case \in Cases /\ phase = "pre"
MCNext == phase = "pre" /\ phase' = "post" /\ UNCHANGED case
MCSpec == MCInit /\ [][MCNext]_mcvars

Expected(c) ==
  CASE c.t = "pair"  -> Answers(Cmp(c.kind, c.a, c.b), c.a, c.b)
    [] c.t = "cross" -> CrossAnswers
    [] c.t = "vecs"  -> [cmp |-> ResultsCmp(c.kind, c.r, c.s), total_r |-> Sum(c.r), total_s |-> Sum(c.s)]

(* lawful total orders *)
Reflexive  == \A k \in Kinds, a \in Vals : Cmp(k, a, a) = "eq"
Antisym    == \A k \in Kinds, a \in Vals, b \in Vals : Cmp(k, a, b) = Flip(Cmp(k, b, a))
Transitive == \A k \in Kinds, a \in Vals, b \in Vals, c \in Vals :
                 (Cmp(k, a, b) \in {"lt", "eq"} /\ Cmp(k, b, c) \in {"lt", "eq"}) => Cmp(k, a, c) \in {"lt", "eq"}
Total      == \A k \in Kinds, a \in Vals, b \in Vals : Cmp(k, a, b) \in {"lt", "eq", "gt"}
EqIsEq     == \A k \in Kinds, a \in Vals, b \in Vals : (Cmp(k, a, b) = "eq") <=> (a = b)
Reversal   == \A a \in Vals, b \in Vals : ErrorCmp(a, b) = Flip(ScoreCmp(a, b))
Directions == \A a \in Vals, b \in Vals : a < b => (ScoreCmp(a, b) = "lt" /\ ErrorCmp(a, b) = "gt")
TotalsOnly == \A k \in Kinds, r \in Vecs, s \in Vecs, r2 \in Vecs :
                 Sum(r) = Sum(r2) => ResultsCmp(k, r, s) = ResultsCmp(k, r2, s)
EmptyTotal == Sum(<<>>) = 0
Laws == Reflexive /\ Antisym /\ Transitive /\ Total /\ EqIsEq /\ Reversal /\ Directions /\ EmptyTotal

ASSUME Laws
ASSUME TotalsOnly

Emit == (phase = "pre") => PrintT(<<"CASE", ToJson([case |-> case, exp |-> Expected(case)])>>)
=============================================================================
