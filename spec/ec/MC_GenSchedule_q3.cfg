SPECIFICATION SSpec
CONSTANTS
  N0 = 3
  Workers = {1,2,3}
  Modes = {"serial", "par"}
  Kinds = {"seq"}
  KeySet = {0}
  Gens = 1
INVARIANTS Emit SchedAtomic
PROPERTIES Refines
CHECK_DEADLOCK FALSE
