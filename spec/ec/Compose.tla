------------------------------- MODULE Compose -------------------------------
(***************************************************************************)
(* Operator combinators of ec-core (then / and / map / repeat, identity,   *)
(* constant, mutator / recombinator wrappers), property C14.               *)
(*                                                                         *)
(* Expressions (records, field `op` first):                                *)
(*   [op |-> "leaf", id]          a component operator: consumes ONE word  *)
(*                                of the shared random stream and returns  *)
(*                                a value that records its id, its input   *)
(*                                and the stream position it drew from     *)
(*   [op |-> "then", a, b]  [op |-> "and", a, b]                           *)
(*   [op |-> "map_t", a] (pair)  [op |-> "map_a", a] (array of 2)          *)
(*   [op |-> "map_v", a] (vector)   [op |-> "rep", n, a]                   *)
(*   [op |-> "id"]   [op |-> "const", v]                                   *)
(*   [op |-> "sel", id]           Select(selector): the selector consumes  *)
(*                                ONE word and returns a member of the     *)
(*                                population (list) it is given - the      *)
(*                                member at (stream position mod size)     *)
(*   [op |-> "ext"]               GenomeExtractor: individual -> its genome *)
(*   [op |-> "scorer", a]         GenomeScorer(a, scorer): applies a to the *)
(*                                population, scores the genome it made    *)
(*                                exactly once and pairs genome and score; *)
(*                                a's failure passes through unchanged and *)
(*                                the scorer is then not consulted         *)
(* Values:  [k |-> "i", v]  atom;  [k |-> "o", id, inp, at]  leaf output;  *)
(*          [k |-> "p", a, b]  pair;  [k |-> "l", xs]  list;                *)
(*          [k |-> "ind", g, r]  individual (genome, score).                *)
(*                                                                         *)
(* Eval(e, x, st) is big-step evaluation threading st = [pos, calls, log,  *)
(* scored]: stream position, number of leaf calls so far, the call log and *)
(* the sequence of genomes handed to the scorer.  The                      *)
(* leaf call number failAt (if any) fails; "the first failing part stops   *)
(* the pipeline (later parts are neither run nor allowed to consume        *)
(* randomness) and the error identifies which part or element failed".     *)
(***************************************************************************)
EXTENDS Naturals, Sequences

Atom(v) == [k |-> "i", v |-> v]
Out(id, x, at) == [k |-> "o", id |-> id, inp |-> x, at |-> at]
PairV(a, b) == [k |-> "p", a |-> a, b |-> b]
ListV(xs) == [k |-> "l", xs |-> xs]
IndV(g, r) == [k |-> "ind", g |-> g, r |-> r]

(* the scorer used throughout: a deterministic, order-sensitive digest of a value *)
RECURSIVE ScoreOf(_)
RECURSIVE ScoreSeq(_, _)
ScoreSeq(xs, i) == IF i > Len(xs) THEN 0 ELSE i * ScoreOf(xs[i]) + ScoreSeq(xs, i + 1)
ScoreOf(v) ==
  CASE v.k = "i" -> v.v + 1
    [] v.k = "o" -> 1 + v.id + v.at + ScoreOf(v.inp)
    [] v.k = "p" -> 2 + ScoreOf(v.a) + 2 * ScoreOf(v.b)
    [] v.k = "l" -> 3 + ScoreSeq(v.xs, 1)
    [] v.k = "ind" -> 5 + ScoreOf(v.g) + v.r

Ok(st, v) == [st |-> st, ok |-> TRUE, v |-> v, path |-> <<>>]
Err(st, p) == [st |-> st, ok |-> FALSE, v |-> Atom(0), path |-> p]
Under(step, r) == [r EXCEPT !.path = <<step>> \o @]     \* prefix an error path

RECURSIVE Eval(_, _, _, _)
RECURSIVE EvalEach(_, _, _, _, _, _)

(* apply e to xs[i..] in order, collecting results; stop at first failure,  *)
(* tagging the error with the element index (0-based) when `tag`            *)
EvalEach(e, xs, i, st, failAt, tag) ==
  IF i > Len(xs) THEN Ok(st, ListV(<<>>))
  ELSE LET r == Eval(e, xs[i], st, failAt) IN
       IF ~r.ok THEN (IF tag THEN Under([s |-> "elem", i |-> i - 1], r) ELSE r)
       ELSE LET rest == EvalEach(e, xs, i + 1, r.st, failAt, tag) IN
            IF ~rest.ok THEN rest
            ELSE Ok(rest.st, ListV(<<r.v>> \o rest.v.xs))

Eval(e, x, st, failAt) ==
  CASE e.op = "leaf" ->
         LET c == st.calls + 1
             st2 == [st EXCEPT !.pos = st.pos + 1, !.calls = c,
                     !.log = Append(st.log, [id |-> e.id, inp |-> x, at |-> st.pos])]
         IN IF c = failAt THEN Err(st2, <<[s |-> "leaf", i |-> e.id]>>)
            ELSE Ok(st2, Out(e.id, x, st.pos))
    [] e.op = "sel" ->
         LET c == st.calls + 1
             st2 == [st EXCEPT !.pos = st.pos + 1, !.calls = c,
                     !.log = Append(st.log, [id |-> e.id, inp |-> x, at |-> st.pos])]
         \* an EMPTY population: the selector is still the one to say so (its error, after it was
         \* consulted) - the Select wrapper adds no behaviour of its own
         IN IF c = failAt \/ Len(x.xs) = 0 THEN Err(st2, <<[s |-> "leaf", i |-> e.id]>>)
            ELSE Ok(st2, x.xs[(st.pos % Len(x.xs)) + 1])      \* a member, as is
    [] e.op = "ext" -> Ok(st, x.g)
    [] e.op = "scorer" ->
         LET r == Eval(e.a, x, st, failAt) IN
         IF ~r.ok THEN r                                       \* the maker's error, untouched
         ELSE Ok([r.st EXCEPT !.scored = Append(@, r.v)], IndV(r.v, ScoreOf(r.v)))
    [] e.op = "id" -> Ok(st, x)
    [] e.op = "const" -> Ok(st, e.v)
    [] e.op = "then" ->
         LET r1 == Eval(e.a, x, st, failAt) IN
         IF ~r1.ok THEN Under([s |-> "first", i |-> 0], r1)
         ELSE LET r2 == Eval(e.b, r1.v, r1.st, failAt) IN
              IF ~r2.ok THEN Under([s |-> "second", i |-> 0], r2) ELSE r2
    [] e.op = "and" ->
         LET r1 == Eval(e.a, x, st, failAt) IN
         IF ~r1.ok THEN Under([s |-> "first", i |-> 0], r1)
         ELSE LET r2 == Eval(e.b, x, r1.st, failAt) IN
              IF ~r2.ok THEN Under([s |-> "second", i |-> 0], r2)
              ELSE Ok(r2.st, PairV(r1.v, r2.v))
    [] e.op \in {"map_t", "map_a"} ->
         LET r == EvalEach(e.a, <<x.a, x.b>>, 1, st, failAt, TRUE) IN
         IF ~r.ok THEN r ELSE Ok(r.st, PairV(r.v.xs[1], r.v.xs[2]))
    [] e.op = "map_v" -> EvalEach(e.a, x.xs, 1, st, failAt, TRUE)
    [] e.op = "rep" -> EvalEach(e.a, [i \in 1..e.n |-> x], 1, st, failAt, FALSE)

St0 == [pos |-> 0, calls |-> 0, log |-> <<>>, scored |-> <<>>]
Run(e, x, failAt) == Eval(e, x, St0, failAt)

-----------------------------------------------------------------------------
(* shapes, to enumerate well-typed expressions *)
SA == [k |-> "a"]
SP(a, b) == [k |-> "p", a |-> a, b |-> b]
SL(n, e) == [k |-> "l", n |-> n, e |-> e]
SI(g) == [k |-> "ind", g |-> g]
Bad == [k |-> "bad"]

RECURSIVE OutShape(_, _)
OutShape(e, s) ==
  IF s.k = "bad" THEN Bad
  ELSE CASE e.op = "leaf" -> SA
         [] e.op = "id" -> s
         [] e.op = "const" -> SA
         [] e.op = "sel" -> IF s.k = "l" THEN s.e ELSE Bad
         [] e.op = "ext" -> IF s.k = "ind" THEN s.g ELSE Bad
         [] e.op = "scorer" ->
              IF s.k # "l" THEN Bad
              ELSE LET a == OutShape(e.a, s) IN IF a.k = "bad" THEN Bad ELSE SI(a)
         [] e.op = "then" -> OutShape(e.b, OutShape(e.a, s))
         [] e.op = "and" -> LET a == OutShape(e.a, s) b == OutShape(e.b, s)
                            IN IF a.k = "bad" \/ b.k = "bad" THEN Bad ELSE SP(a, b)
         [] e.op \in {"map_t", "map_a"} ->
              IF s.k # "p" THEN Bad
              ELSE LET a == OutShape(e.a, s.a) b == OutShape(e.a, s.b)
                   IN IF a.k = "bad" \/ b.k = "bad" THEN Bad ELSE SP(a, b)
         [] e.op = "map_v" ->
              IF s.k # "l" THEN Bad
              ELSE LET a == OutShape(e.a, s.e) IN IF a.k = "bad" THEN Bad ELSE SL(s.n, a)
         [] e.op = "rep" -> LET a == OutShape(e.a, s) IN IF a.k = "bad" THEN Bad ELSE SL(e.n, a)

(* number the leaves 1, 2, ... in depth-first order *)
RECURSIVE Number(_, _)
Number(e, next) ==
  CASE e.op \in {"leaf", "sel"} -> [e |-> [e EXCEPT !.id = next], next |-> next + 1]
    [] e.op \in {"id", "const", "ext"} -> [e |-> e, next |-> next]
    [] e.op \in {"then", "and"} ->
         LET a == Number(e.a, next) b == Number(e.b, a.next)
         IN [e |-> [e EXCEPT !.a = a.e, !.b = b.e], next |-> b.next]
    [] OTHER -> LET a == Number(e.a, next) IN [e |-> [e EXCEPT !.a = a.e], next |-> a.next]

(* follow an error path down to the leaf it addresses *)
RECURSIVE Locate(_, _)
Locate(e, path) ==
  IF path = <<>> THEN e
  ELSE IF e.op = "scorer" THEN Locate(e.a, path)       \* adds no step of its own
  ELSE LET h == Head(path) IN
       CASE h.s = "leaf"   -> (IF e.op = "rep" THEN Locate(e.a, path) ELSE e)
         [] h.s = "first"  -> (IF e.op = "rep" THEN Locate(e.a, path) ELSE Locate(e.a, Tail(path)))
         [] h.s = "second" -> (IF e.op = "rep" THEN Locate(e.a, path) ELSE Locate(e.b, Tail(path)))
         [] h.s = "elem"   -> (IF e.op = "rep" THEN Locate(e.a, path) ELSE Locate(e.a, Tail(path)))
=============================================================================
