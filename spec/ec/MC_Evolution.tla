---------------------------- MODULE MC_Evolution ----------------------------
(* Evolution.tla over every initial population of N genomes of length L, for *)
(* one configuration (selector mix, crossover, mutation) per .cfg.           *)
EXTENDS Evolution
=============================================================================
