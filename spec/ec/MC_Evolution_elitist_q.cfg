SPECIFICATION Spec
CONSTANTS
  N = 3
  L = 2
  Sels = {"best"}
  Xo = "none"
  Mut = "none"
  Gens = 2
INVARIANTS SizeConstant ScoresConsistent GenomeLength SelectionTotal
PROPERTIES NoNewAlleles ComplementUnderRate1 ElitistTakeover
CHECK_DEADLOCK FALSE
