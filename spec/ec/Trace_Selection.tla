--------------------------- MODULE Trace_Selection ---------------------------
(***************************************************************************)
(* Every logged real selection must be explainable by Selection.tla:       *)
(*  - the result is a member of the GIVEN population (the harness locates  *)
(*    the returned reference by address; a reference into anything else is *)
(*    logged as "foreign" and matches nothing) or the documented error;    *)
(*  - best / worst: maximal / minimal;                                     *)
(*  - tournament: the individuals that took part in comparisons (logged by *)
(*    the probe individuals) are k distinct members and the winner is      *)
(*    maximal among them;                                                  *)
(*  - lexicase: the logged per-case comparisons must follow the filtering  *)
(*    discipline (LexicaseAccepts).                                        *)
(***************************************************************************)
EXTENDS Selection, Weighted, Json, IOUtils, TLC

Log == ndJsonDeserialize(IOEnv.TRACE)
VARIABLE l

ToSet(s) == {s[n] : n \in 1..Len(s)}

Select == LET e == Log[l] c == e.case r == e.res IN
  /\ e.ev = "select"
  /\ CASE c.sel = "best"   -> r \in BestOutcomes(c.pop)
       [] c.sel = "worst"  -> r \in WorstOutcomes(c.pop)
       [] c.sel = "random" -> r \in RandomOutcomes(c.pop)
       [] c.sel = "tournament" ->
            IF c.k > Len(c.pop) THEN r = TournamentSize(c.k, Len(c.pop))
            ELSE IF c.k = 1 THEN r \in RandomOutcomes(c.pop)      \* a single draw compares nothing
            ELSE TournamentAccepts(c.pop, c.k, ToSet(e.touched), r)
       [] c.sel = "lexicase" -> LexicaseAccepts(c.pop, c.pol, c.c, e.cmps, r)

(* weighted / nested / type-erased combinations of the real selectors: the  *)
(* result is what some leaf of positive reach probability may return, an    *)
(* error of such a leaf (located by its path), or the zero-weight error     *)
(* exactly when the total weight is zero.                                   *)
LeafOutcomes(pop, lf) ==
  CASE lf.sel = "best"   -> BestOutcomes(pop)
    [] lf.sel = "worst"  -> WorstOutcomes(pop)
    [] lf.sel = "random" -> RandomOutcomes(pop)
    [] lf.sel = "tournament" -> TournamentOutcomes(pop, lf.k)
    [] lf.sel = "lexicase"   -> LexicaseOutcomes(pop, "score", lf.c)

Nested == LET e == Log[l] r == e.res IN
  /\ e.ev = "nested"
  /\ IF Weight(e.tree) = 0 THEN r = [k |-> "zero_weight", at |-> <<>>]
     ELSE \E p \in Paths(e.tree) :
            /\ ReachProb(e.tree, p).n > 0
            /\ LET outs == LeafOutcomes(e.pop, LeafAt(e.tree, p)) IN
               \/ (r.k = "member" /\ r \in outs)
               \/ (r.k = "leaf_error" /\ r.at = p /\ r.err \in outs)

(* the dynamic list (DynWeighted) of real selectors; weights are logged as  *)
(* 0 / positive, and whether their sum overflows the machine word            *)
Dyn == LET e == Log[l] r == e.res
           positive == {j \in 1..Len(e.leaves) : e.leaves[j].w > 0} IN
  /\ e.ev = "dyn"
  /\ IF positive = {} THEN r.k = "weight_error"
     ELSE IF e.overflow THEN r.k \in {"weight_error", "member", "leaf_error"}   \* never a panic
     ELSE \E j \in positive :
            LET outs == LeafOutcomes(e.pop, e.leaves[j]) IN
            \/ (r.k = "member" /\ r \in outs)
            \/ (r.k = "leaf_error" /\ r.err \in outs)

TraceInit == l = 1
TraceNext == l <= Len(Log) /\ l' = l + 1 /\ (Select \/ Nested \/ Dyn)
TraceSpec == TraceInit /\ [][TraceNext]_l
TraceAccepted ==
  LET d == TLCGet("stats").diameter IN
  IF d - 1 = Len(Log) THEN TRUE ELSE PrintT(<<"TRACE-REJECTED", d>>) /\ FALSE
=============================================================================
