----------------------------- MODULE MC_Choices -----------------------------
EXTENDS Choices, SequencesExt, TLC, Json
CONSTANTS MaxLen, MaxSize
VARIABLES case, phase, res
mcvars == <<case, phase, res>>

Colls == UNION {[1..n -> {1, 2}] : n \in 0..MaxLen}         \* with duplicates
Stream == [i \in 1..(2 * MaxSize) |-> 100 + i]
Cases == {[op |-> "choice", coll |-> c] : c \in Colls}
    \cup {[op |-> "collect", size |-> s, then |-> t] : s \in 0..MaxSize, t \in 0..MaxSize}

Outcomes(c) ==
  IF c.op = "choice"
    THEN (IF Build(c.coll).k = "ok" THEN {[b |-> Build(c.coll), s |-> o] : o \in SampleOutcomes(c.coll)}
                                    ELSE {[b |-> EmptySlice, s |-> Sample(0, 0)]})
    ELSE LET first == Collect(Stream, 0, c.size) second == Collect(Stream, first.drawn, c.then)
         IN {[first |-> first.res, second |-> second.res, drawn |-> second.drawn]}

MCInit == case \in Cases /\ phase = "pre" /\ res = [k |-> "none"]
MCNext == phase = "pre" /\ res' \in Outcomes(case) /\ phase' = "post" /\ UNCHANGED case
MCSpec == MCInit /\ [][MCNext]_mcvars
Post == phase = "post"

EmptyRejectedAtBuild == (Post /\ case.op = "choice") => (res.b = EmptySlice <=> Len(case.coll) = 0)
Membership == (Post /\ case.op = "choice" /\ res.b.k = "ok") =>
                 (res.s.idx \in 1..Len(case.coll) /\ res.s.val = case.coll[res.s.idx])
NumChoicesExact == (Post /\ case.op = "choice" /\ res.b.k = "ok") => res.b.n = Len(case.coll)
AllMembersReachable == (phase = "pre" /\ case.op = "choice" /\ Len(case.coll) > 0) =>
                 {o.s.idx : o \in Outcomes(case)} = 1..Len(case.coll)
ExactSize == (Post /\ case.op = "collect") =>
                 /\ Len(res.first) = case.size /\ Len(res.second) = case.then
                 /\ res.first \o res.second = SubSeq(Stream, 1, case.size + case.then)
                 /\ res.drawn = case.size + case.then

Emit == (phase = "pre") =>
  PrintT(<<"CASE", ToJson([case |-> case, allowed |-> SetToSeq(Outcomes(case))])>>)
=============================================================================
