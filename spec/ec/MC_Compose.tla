----------------------------- MODULE MC_Compose -----------------------------
(* Every well-typed composition up to depth 2 with at most MaxCalls leaf     *)
(* calls, every input shape, every failure position.                         *)
EXTENDS Compose, TLC, Json

CONSTANTS MaxCalls, RepN, Wide

VARIABLES case, phase
mcvars == <<case, phase>>

P == [op |-> "leaf", id |-> 0]
IdE == [op |-> "id"]
K == [op |-> "const", v |-> Atom(7)]
Bin(o, a, b) == [op |-> o, a |-> a, b |-> b]
Un(o, a) == [op |-> o, a |-> a]
Rep(n, a) == [op |-> "rep", n |-> n, a |-> a]

Sel == [op |-> "sel", id |-> 0]
Ext == [op |-> "ext"]
Sc(a) == [op |-> "scorer", a |-> a]

T0 == {P, IdE, K, Sel, Ext}
B0 == {P, IdE, K}
B1 == B0 \cup {Bin(o, a, b) : o \in {"then", "and"}, a \in B0, b \in B0}
         \cup {Rep(n, P) : n \in RepN}
         \cup {Un(o, a) : o \in {"map_t", "map_a", "map_v"}, a \in {P, IdE}}
T1 == T0 \cup {Bin(o, a, b) : o \in {"then", "and"}, a \in T0, b \in T0}
         \cup {Rep(n, a) : n \in RepN, a \in {P, Sel}}
         \cup {Un(o, a) : o \in {"map_t", "map_a", "map_v"}, a \in {P, IdE, Ext}}
         \cup {Sc(a) : a \in T0}
(* Wide: both sides of a binary combinator may be composite; otherwise one   *)
(* side is atomic, except over the plain operators B1 (the quick configuration) *)
T2 == T1 \cup (IF Wide THEN {Bin(o, a, b) : o \in {"then", "and"}, a \in T1, b \in T1}
                       ELSE {Bin(o, a, b) : o \in {"then", "and"}, a \in B1, b \in B1}
                            \cup {Bin(o, a, b) : o \in {"then", "and"}, a \in T1, b \in T0}
                            \cup {Bin(o, a, b) : o \in {"then", "and"}, a \in T0, b \in T1})
         \cup {Rep(n, a) : n \in RepN, a \in T1}
         \cup {Un(o, a) : o \in {"map_t", "map_a", "map_v"}, a \in T1}
         \cup {Sc(a) : a \in T1}
(* the shape of the repository's own pipelines, one level deeper:             *)
(* GenomeScorer(Select then GenomeExtractor then <variation>)                 *)
SelExt == Bin("then", Sel, Ext)
T3 == T2 \cup {Sc(Bin("then", SelExt, m)) : m \in T1}
         \cup {Sc(Bin("then", Bin("and", SelExt, SelExt), m)) : m \in {Un(o, P) : o \in {"map_t", "map_a"}} \cup {P, IdE}}

Inputs == { [x |-> Atom(3), s |-> SA],
            [x |-> PairV(Atom(1), Atom(2)), s |-> SP(SA, SA)],
            [x |-> ListV(<<>>), s |-> SL(0, SA)],
            [x |-> ListV(<<>>), s |-> SL(0, SI(SA))],      \* the empty population of individuals
            [x |-> ListV(<<Atom(1), Atom(2)>>), s |-> SL(2, SA)],
            [x |-> IndV(Atom(4), 9), s |-> SI(SA)],
            [x |-> ListV(<<IndV(Atom(1), 5), IndV(Atom(2), 6), IndV(Atom(1), 7)>>), s |-> SL(3, SI(SA))] }

Cases == { [e |-> Number(t, 1).e, x |-> i.x, failAt |-> f] :
             t \in T3, i \in Inputs, f \in 0..(MaxCalls + 1) }

WellTyped(c) == \E i \in Inputs : i.x = c.x /\ OutShape(c.e, i.s).k # "bad"

MCInit == case \in {c \in Cases : WellTyped(c) /\ Run(c.e, c.x, 0).st.calls <= MaxCalls} /\ phase = "pre"
MCNext == phase = "pre" /\ phase' = "post" /\ UNCHANGED case
MCSpec == MCInit /\ [][MCNext]_mcvars

R == Run(case.e, case.x, case.failAt)
Total == Run(case.e, case.x, 0).st.calls      \* calls when nothing fails

(* "always drawing from the shared random stream strictly left to right" *)
LeftToRight == \A n \in 1..Len(R.st.log) : R.st.log[n].at = n - 1
(* "the first failing part stops the pipeline" *)
Unfailing == Run(case.e, case.x, 0)          \* the run in which no component is made to fail
StopsAtFirstFailure ==
  Unfailing.ok =>
  /\ (case.failAt \in 1..Total => (~R.ok /\ Len(R.st.log) = case.failAt /\ R.st.pos = case.failAt))
  /\ (case.failAt \notin 1..Total => (R.ok /\ Len(R.st.log) = Total))
(* a run that fails by itself does so because a selector was handed an empty population: the  *)
(* selector WAS consulted (it is the last call in the log) and nothing ran after it            *)
EmptySelectionFails ==
  ~Unfailing.ok =>
     LET lg == Unfailing.st.log last == lg[Len(lg)] lf == Locate(case.e, Unfailing.path) IN
     /\ lf.op = "sel" /\ lf.id = last.id /\ last.inp.k = "l" /\ last.inp.xs = <<>>
     /\ Unfailing.st.pos = Len(lg)
(* "the error identifies which part or which element failed" *)
ErrorLocates ==
  ~R.ok => LET lf == Locate(case.e, R.path) IN
           /\ lf.op \in {"leaf", "sel"} /\ lf.id = R.st.log[Len(R.st.log)].id
           /\ R.path[Len(R.path)] = [s |-> "leaf", i |-> lf.id]
(* the run without failure is a prefix-extension of the failing run *)
(* the scorer sees exactly the genomes that were made, once each, and only  *)
(* after its maker succeeded; a failing run never scores more than the run   *)
(* without failure                                                           *)
ScorerFaithful ==
  LET full == Run(case.e, case.x, 0) IN
  /\ Len(R.st.scored) <= Len(full.st.scored)
  /\ \A n \in 1..Len(R.st.scored) : R.st.scored[n] = full.st.scored[n]
  /\ (case.e.op = "scorer" /\ R.ok) =>
        (R.v.k = "ind" /\ R.v.g = R.st.scored[Len(R.st.scored)] /\ R.v.r = ScoreOf(R.v.g))
  /\ (case.e.op = "scorer" /\ ~R.ok) =>
        R = [Run(case.e.a, case.x, case.failAt) EXCEPT !.st.scored = R.st.scored]
PrefixOfFullRun ==
  LET full == Run(case.e, case.x, 0) IN
  \A n \in 1..Len(R.st.log) : R.st.log[n] = full.st.log[n]

Emit == (phase = "pre") =>
  PrintT(<<"CASE", ToJson([case |-> case,
                           exp |-> [ok |-> R.ok, v |-> R.v, path |-> R.path, log |-> R.st.log, words |-> R.st.pos, scored |-> R.st.scored]])>>)
=============================================================================
