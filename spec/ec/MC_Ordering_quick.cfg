SPECIFICATION MCSpec
CONSTANTS
  Vals <- ValsDef
  VecLen = 2
INVARIANTS Emit
CHECK_DEADLOCK FALSE
