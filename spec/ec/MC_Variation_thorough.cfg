SPECIFICATION MCSpec
CONSTANTS
  MaxLen = 6
  BitLen = 3
INVARIANTS MisuseIsError ChildShape AllSegments AllMasks PairsFree ExchangeExact FlipShape FlipDegenerate OolDegenerate UmadShape UmadDegenerate UmadAcceptsExact Emit
CHECK_DEADLOCK FALSE
