------------------------------- MODULE Choices -------------------------------
(***************************************************************************)
(* Uniform member choice and collection generators (ec-core                *)
(* distributions), property C18.                                          *)
(*                                                                         *)
(* Building a choice distribution from a collection is rejected when the   *)
(* collection is empty - so sampling an empty one can never happen - and   *)
(* otherwise yields a distribution over exactly its members: it reports    *)
(* how many it was built from and a sample is some member (position i,     *)
(* value coll[i]), every position equally likely.  A collection generator  *)
(* of size n returns the next n elements of its element generator's        *)
(* stream, in stream order.                                                *)
(***************************************************************************)
EXTENDS Naturals, Sequences

EmptySlice == [k |-> "empty_slice"]
Dist(n)    == [k |-> "ok", n |-> n]

Build(coll) == IF Len(coll) = 0 THEN EmptySlice ELSE Dist(Len(coll))

Sample(i, v) == [idx |-> i, val |-> v]
SampleOutcomes(coll) == {Sample(i, coll[i]) : i \in 1..Len(coll)}

(* law: every position has probability 1 / Len(coll) *)
LawNum(coll) == [i \in 1..Len(coll) |-> 1]
LawDen(coll) == Len(coll)

(* constructors that take only a size (Bitstring::random, ::random_with_probability):  *)
(* the result has exactly that many elements, whatever they are                         *)
SizedOk(size, len) == len = size

(* the element generator is a stream; `drawn` elements have been consumed *)
Collect(stream, drawn, size) == [res |-> SubSeq(stream, drawn + 1, drawn + size), drawn |-> drawn + size]
=============================================================================
