------------------------------ MODULE Selection ------------------------------
(***************************************************************************)
(* Selection operators of ec-core (best, worst, random, tournament,        *)
(* lexicase), properties C06, C07, C08.                                    *)
(*                                                                         *)
(* A population is a sequence of individuals                               *)
(*     [score |-> Int, res |-> sequence of per-case results]               *)
(* `score` is what the individuals' own ordering compares (bigger is       *)
(* better); `res` is what lexicase looks at, under a polarity ("score":    *)
(* bigger is better, "error": smaller is better).                          *)
(*                                                                         *)
(* A selection returns Member(i) - the i-th element of the population it   *)
(* was given - or one of the documented errors.  All randomness is an      *)
(* explicit choice: the index, the k-subset, the case order, the           *)
(* tie-break among final survivors.                                        *)
(***************************************************************************)
EXTENDS Integers, Sequences, FiniteSets

Member(i)            == [k |-> "member", i |-> i]
EmptyPopulation      == [k |-> "empty_population"]
TournamentSize(k, n) == [k |-> "tournament_size", size |-> k, pop |-> n]
MissingCase(c, idx)  == [k |-> "missing_test_case", total |-> c, idx |-> idx]

Idx(pop) == 1..Len(pop)

(* the members of S that no member of S beats; written through the set of     *)
(* score VALUES (small) so that it is evaluated in linear time on populations *)
(* of thousands: i is maximal in S iff its score is the greatest score in S   *)
ScoreValues(pop, S) == {pop[i].score : i \in S}
Maximal(pop, S) == IF S = {} THEN {}
                   ELSE LET m == CHOOSE x \in ScoreValues(pop, S) : \A y \in ScoreValues(pop, S) : y <= x
                        IN {i \in S : pop[i].score = m}
Minimal(pop, S) == IF S = {} THEN {}
                   ELSE LET m == CHOOSE x \in ScoreValues(pop, S) : \A y \in ScoreValues(pop, S) : y >= x
                        IN {i \in S : pop[i].score = m}
(* the defining property (checked by TLC on every small population: MaximalIsUnbeaten) *)
Unbeaten(pop, S) == {i \in S : \A j \in S : pop[j].score <= pop[i].score}
Unbeating(pop, S) == {i \in S : \A j \in S : pop[j].score >= pop[i].score}

BestOutcomes(pop)   == IF Len(pop) = 0 THEN {EmptyPopulation} ELSE {Member(i) : i \in Maximal(pop, Idx(pop))}
WorstOutcomes(pop)  == IF Len(pop) = 0 THEN {EmptyPopulation} ELSE {Member(i) : i \in Minimal(pop, Idx(pop))}
RandomOutcomes(pop) == IF Len(pop) = 0 THEN {EmptyPopulation} ELSE {Member(i) : i \in Idx(pop)}

KSubsets(S, k) == {T \in SUBSET S : Cardinality(T) = k}

(* "A tournament of size k draws k distinct individuals ... and returns the *)
(*  best of them"; a tournament larger than the population is an error.     *)
TournamentOutcomes(pop, k) ==
  IF k > Len(pop) THEN {TournamentSize(k, Len(pop))}
  ELSE UNION {{Member(i) : i \in Maximal(pop, S)} : S \in KSubsets(Idx(pop), k)}

(* the same, given the subset that was actually drawn *)
TournamentAccepts(pop, k, S, r) ==
  IF k > Len(pop) THEN r = TournamentSize(k, Len(pop))
  ELSE /\ S \subseteq Idx(pop) /\ Cardinality(S) = k
       /\ r.k = "member" /\ r.i \in Maximal(pop, S)

-----------------------------------------------------------------------------
(* Lexicase.  Cases are numbered 0..c-1 as in the code; res[case+1].        *)
Better(pol, a, b) == IF pol = "score" THEN a > b ELSE a < b
Has(pop, i, case) == case + 1 <= Len(pop[i].res)
ResOf(pop, i, case) == pop[i].res[case + 1]

(* candidates that survive case `case`: those with the best result on it    *)
Filter(pop, pol, cands, case) ==
  {i \in cands : \A j \in cands : ~Better(pol, ResOf(pop, j, case), ResOf(pop, i, case))}

(* Run the filter along a case order `ord` (a sequence of case numbers).    *)
(* Result: [cands, err] - filtering stops as soon as one candidate is left; *)
(* a case some remaining candidate has no result for (while >= 2 remain) is *)
(* the MissingTestCase error.                                               *)
RECURSIVE LexRun(_, _, _, _, _)
LexRun(pop, pol, c, cands, ord) ==
  IF ord = <<>> \/ Cardinality(cands) <= 1 THEN [cands |-> cands, err |-> FALSE, idx |-> 0]
  ELSE LET case == Head(ord) IN
       IF \E i \in cands : ~Has(pop, i, case) THEN [cands |-> cands, err |-> TRUE, idx |-> case]
       ELSE LexRun(pop, pol, c, Filter(pop, pol, cands, case), Tail(ord))

Perms(S) == {f \in [1..Cardinality(S) -> S] : \A a, b \in 1..Cardinality(S) : a # b => f[a] # f[b]}
CaseOrders(c) == Perms(0..(c - 1))

LexOutcomesFor(pop, pol, c, ord) ==
  LET r == LexRun(pop, pol, c, Idx(pop), ord) IN
  IF r.err THEN {MissingCase(c, r.idx)} ELSE {Member(i) : i \in r.cands}

LexicaseOutcomes(pop, pol, c) ==
  IF Len(pop) = 0 THEN {EmptyPopulation}
  ELSE UNION {LexOutcomesFor(pop, pol, c, ord) : ord \in CaseOrders(c)}

(* "the winner is never Pareto-dominated on the considered cases"           *)
Dominates(pop, pol, c, j, i) ==
  /\ \A case \in 0..(c - 1) : ~Better(pol, ResOf(pop, i, case), ResOf(pop, j, case))
  /\ \E case \in 0..(c - 1) : Better(pol, ResOf(pop, j, case), ResOf(pop, i, case))

(***************************************************************************)
(* Acceptance of an OBSERVED lexicase selection (trace validation).  The   *)
(* harness logs, per comparison the real code made, the two individuals    *)
(* and the case: cmps = << <<i, j, case>>, ... >>.  From it the visited     *)
(* case order is read off; the observation is accepted iff the visited     *)
(* cases are distinct and < c, the individuals compared at each case are   *)
(* exactly the survivors of the cases before, filtering went on while more *)
(* than one candidate and unvisited cases remained, and the result is a    *)
(* member of the final candidates (or the MissingTestCase error for a case *)
(* some remaining candidate lacks).                                        *)
(***************************************************************************)
RECURSIVE Dedup(_)
Dedup(s) == IF Len(s) <= 1 THEN s
            ELSE IF s[1] = s[2] THEN Dedup(Tail(s)) ELSE <<s[1]>> \o Dedup(Tail(s))
CaseSeq(cmps) == Dedup([n \in 1..Len(cmps) |-> cmps[n][3]])
Touched(cmps, case) == UNION {{cmps[n][1], cmps[n][2]} : n \in {m \in 1..Len(cmps) : cmps[m][3] = case}}
Distinct(s) == \A a, b \in 1..Len(s) : a # b => s[a] # s[b]

RECURSIVE LexFollow(_, _, _, _, _)
(* follow the visited cases; returns [ok, cands] *)
LexFollow(pop, pol, cands, visited, cmps) ==
  IF visited = <<>> THEN [ok |-> TRUE, cands |-> cands]
  ELSE LET case == Head(visited) IN
       IF Cardinality(cands) <= 1 \/ Touched(cmps, case) # cands
            \/ \E i \in cands : ~Has(pop, i, case)
         THEN [ok |-> FALSE, cands |-> cands]
         ELSE LexFollow(pop, pol, Filter(pop, pol, cands, case), Tail(visited), cmps)

LexicaseAccepts(pop, pol, c, cmps, r) ==
  IF Len(pop) = 0 THEN r = EmptyPopulation
  ELSE LET visited == CaseSeq(cmps) IN
       /\ Distinct(visited) /\ \A n \in 1..Len(visited) : visited[n] \in 0..(c - 1)
       /\ IF r.k = "missing_test_case"
            THEN \* the case that lacks a result may have been compared partially before the
                 \* candidate without a result was reached
                 LET done == IF visited # <<>> /\ visited[Len(visited)] = r.idx
                               THEN SubSeq(visited, 1, Len(visited) - 1) ELSE visited
                     f == LexFollow(pop, pol, Idx(pop), done, cmps)
                 IN /\ f.ok /\ Cardinality(f.cands) >= 2 /\ r.total = c
                    /\ r.idx \in 0..(c - 1) /\ \A n \in 1..Len(done) : done[n] # r.idx
                    /\ \E i \in f.cands : ~Has(pop, i, r.idx)
                    /\ Touched(cmps, r.idx) \subseteq f.cands
            ELSE LET f == LexFollow(pop, pol, Idx(pop), visited, cmps) IN
                 /\ f.ok
                 /\ (Cardinality(f.cands) >= 2 => Len(visited) = c)   \* no early stop
                 /\ r.k = "member" /\ r.i \in f.cands

-----------------------------------------------------------------------------
(* Laws (C07, C08) as integer counts over equally likely choices.           *)

(* tournament: number of k-subsets whose (unique, scores distinct) best is i *)
TournamentCount(pop, k, i) == Cardinality({S \in KSubsets(Idx(pop), k) : i \in Maximal(pop, S)})
Choose(n, k) == Cardinality(KSubsets(1..n, k))
RankFromTop(pop, i) == 1 + Cardinality({j \in Idx(pop) : pop[j].score > pop[i].score})
RankFromBottom(pop, i) == 1 + Cardinality({j \in Idx(pop) : pop[j].score < pop[i].score})

(* lexicase: weight of individual i = sum over case orders of               *)
(* [i in Final(order)] * L / |Final(order)|, out of c! * L, with L a common *)
(* multiple of all possible survivor counts.                                *)
RECURSIVE Fact(_)
Fact(n) == IF n <= 1 THEN 1 ELSE n * Fact(n - 1)
Lcm(n) == CASE n <= 1 -> 1 [] n = 2 -> 2 [] n = 3 -> 6 [] n = 4 -> 12 [] n = 5 -> 60 [] OTHER -> 60 * n
=============================================================================
