SPECIFICATION MCSpec
CONSTANTS
  MaxPop = 4
  LexPop = 3
  LexCases = 3
INVARIANTS ResultSound NeverStuck Pressure TournamentExtremes TournamentLaw LexSurvives LexNeverDominated LexDegenerate LexAcceptsExact Emit
CHECK_DEADLOCK FALSE
