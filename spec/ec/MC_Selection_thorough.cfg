SPECIFICATION MCSpec
CONSTANTS
  MaxPop = 4
  LexPop = 3
  PermCases = {3, 4}
  LexCases = 3
INVARIANTS ResultSound NeverStuck MaximalIsUnbeaten Pressure TournamentExtremes TournamentLaw LexSurvives LexNeverDominated LexDegenerate LexAcceptsExact Emit
CHECK_DEADLOCK FALSE
