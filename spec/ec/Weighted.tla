------------------------------ MODULE Weighted ------------------------------
(***************************************************************************)
(* Weighted combinations of selectors (ec-core weighted/*, dyn_weighted),  *)
(* property C13.  A statically typed combination is a binary tree          *)
(*     [t |-> "leaf", w |-> weight, m |-> member id, f |-> member fails]   *)
(*     [t |-> "pair", a |-> tree, b |-> tree]                              *)
(* whose weight is the sum of its leaves; the dynamic form is a list of    *)
(* (member, weight).  A selection walks from the root: at a pair with      *)
(* weights (A, B) it goes left with probability A/(A+B); a total weight of *)
(* zero is the ZeroWeight error.  Probabilities are carried as fractions   *)
(* [n, d].                                                                 *)
(***************************************************************************)
EXTENDS Integers, Sequences, FiniteSets

LeafF(w, m, f) == [t |-> "leaf", w |-> w, m |-> m, f |-> f]
Leaf(w, m) == LeafF(w, m, FALSE)
Pair(a, b) == [t |-> "pair", a |-> a, b |-> b]

RECURSIVE Weight(_)
Weight(t) == IF t.t = "leaf" THEN t.w ELSE Weight(t.a) + Weight(t.b)

RECURSIVE Leaves(_)
Leaves(t) == IF t.t = "leaf" THEN <<t>> ELSE Leaves(t.a) \o Leaves(t.b)

(* Paths to leaves: sequences of "A"/"B".  ReachProb(t, p) = probability,   *)
(* as a fraction, that a selection from t follows path p to its leaf.       *)
Frac(n, d) == [n |-> n, d |-> d]
RECURSIVE Paths(_)
Paths(t) == IF t.t = "leaf" THEN {<<>>}
            ELSE {<<"A">> \o p : p \in Paths(t.a)} \cup {<<"B">> \o p : p \in Paths(t.b)}
RECURSIVE LeafAt(_, _)
LeafAt(t, p) == IF p = <<>> THEN t ELSE LeafAt(IF Head(p) = "A" THEN t.a ELSE t.b, Tail(p))
RECURSIVE ReachProb(_, _)
ReachProb(t, p) ==
  IF p = <<>> THEN Frac(1, 1)
  ELSE LET A == Weight(t.a)  B == Weight(t.b)
           side == IF Head(p) = "A" THEN t.a ELSE t.b
           rest == ReachProb(side, Tail(p))
       IN Frac((IF Head(p) = "A" THEN A ELSE B) * rest.n, (A + B) * rest.d)

ZeroWeight == [k |-> "zero_weight"]
Chosen(p, m) == [k |-> "chosen", path |-> p, m |-> m]
MemberError(p, m) == [k |-> "member_error", path |-> p, m |-> m]

(* outcomes of one selection: which leaf is delegated to (exactly one), or  *)
(* the zero-weight error.  A leaf of weight zero is never delegated to.  If *)
(* the member delegated to fails, its error is the result: the selection is *)
(* NOT re-routed to another member ("delegates to exactly one member").     *)
SelectOutcomes(t) ==
  IF Weight(t) = 0 THEN {ZeroWeight}
  ELSE {IF LeafAt(t, p).f THEN MemberError(p, LeafAt(t, p).m) ELSE Chosen(p, LeafAt(t, p).m) :
          p \in {q \in Paths(t) : ReachProb(t, q).n > 0}}

(* dynamic list: ws = sequence of weights; member j with probability w_j / sum *)
RECURSIVE SumSeq(_)
SumSeq(s) == IF s = <<>> THEN 0 ELSE Head(s) + SumSeq(Tail(s))
DynOutcomes(ws) ==
  IF SumSeq(ws) = 0 THEN {ZeroWeight}
  ELSE {[k |-> "chosen_dyn", j |-> j] : j \in {i \in 1..Len(ws) : ws[i] > 0}}

-----------------------------------------------------------------------------
(* Construction of a statically typed chain: Weighted(w1).with(w2).with(w3) *)
(* ...; each step adds the new weight to the accumulated one and is         *)
(* rejected when the sum exceeds WMax; once rejected, every later step      *)
(* reports that same error.                                                 *)
CONSTANT WMax

Built(total)         == [k |-> "ok", total |-> total]
SumOverflow(a, b)    == [k |-> "weight_sum_overflow", a |-> a, b |-> b]

RECURSIVE BuildChain(_, _)
BuildChain(acc, ws) ==
  IF ws = <<>> THEN acc
  ELSE IF acc.k # "ok" THEN acc                       \* sticky
  ELSE IF acc.total + Head(ws) > WMax THEN SumOverflow(acc.total, Head(ws))
  ELSE BuildChain(Built(acc.total + Head(ws)), Tail(ws))

Build(ws) == BuildChain(Built(Head(ws)), Tail(ws))
=============================================================================
