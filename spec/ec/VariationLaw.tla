---------------------------- MODULE VariationLaw ----------------------------
(***************************************************************************)
(* The probability laws behind property C12, derived by COUNTING equally   *)
(* likely draws.  A coin of rate a/D is a draw u \in 0..D-1 compared with  *)
(* a (u < a); all coins of one operation are independent draws.  TLC       *)
(* enumerates every draw vector of the small instance, so the laws below   *)
(* are exact rationals count/total, and the closed-form consequences the   *)
(* property states are checked on them:                                    *)
(*  - bit-flip: every gene flips with the given rate, independently;       *)
(*    1/length scaling gives exactly one expected flip;                    *)
(*  - UMAD: a gene is kept with 1-del, a new gene follows a position with  *)
(*    add*(1-del) ("new genes being subject to deletion too"); the         *)
(*    expected size is preserved when del = add/(1+add);                   *)
(*  - uniform crossover: each position from either parent with 1/2;        *)
(*  - random bitstrings: each bit set with the requested probability;      *)
(*  - random Plushy genes: close marker with the configured probability,   *)
(*    otherwise an instruction from the supplied (uniform) distribution;   *)
(*    the default 1/(n+1) makes all n+1 outcomes equally likely.           *)
(***************************************************************************)
EXTENDS Naturals, Sequences, FiniteSets, FiniteSetsExt

RECURSIVE Pow(_, _)
Pow(b, e) == IF e = 0 THEN 1 ELSE b * Pow(b, e - 1)

(* n independent coins of rate a/D: the law of the outcome vector (1 = the  *)
(* coin came up) *)
Draws(n, D) == [1..n -> 0..(D - 1)]
MaskOf(d, a) == [i \in DOMAIN d |-> IF d[i] < a THEN 1 ELSE 0]
Masks(n) == [1..n -> {0, 1}]
MaskCount(n, a, D, m) == Cardinality({d \in Draws(n, D) : MaskOf(d, a) = m})
MaskLaw(n, a, D) == [m \in Masks(n) |-> MaskCount(n, a, D, m)]

(* marginal and pairwise-joint counts of such a law *)
Marginal(n, a, D, i) == Cardinality({d \in Draws(n, D) : d[i] < a})
Joint(n, a, D, i, j) == Cardinality({d \in Draws(n, D) : d[i] < a /\ d[j] < a})
(* total number of ones over all draw vectors (= expected ones * D^n), summed  *)
(* position by position                                                      *)
RECURSIVE OnesUpTo(_, _, _, _)
OnesUpTo(n, a, D, k) == IF k = 0 THEN 0 ELSE Marginal(n, a, D, k) + OnesUpTo(n, a, D, k - 1)
ExpectedOnes(n, a, D) == OnesUpTo(n, a, D, n)

(* UMAD at one parent position: three coins (add, delete, delete-the-new-   *)
(* gene).  Outcome <<keep, ins>>.                                           *)
UmadPos(addA, delA, D) ==
  LET D3 == (0..(D - 1)) \X (0..(D - 1)) \X (0..(D - 1))
      out(t) == << IF t[2] < delA THEN 0 ELSE 1,
                   IF t[1] < addA /\ ~(t[3] < delA) THEN 1 ELSE 0 >>
  IN [o \in {<<0, 0>>, <<0, 1>>, <<1, 0>>, <<1, 1>>} |-> Cardinality({t \in D3 : out(t) = o})]

KeepMarginal(addA, delA, D) == UmadPos(addA, delA, D)[<<1, 0>>] + UmadPos(addA, delA, D)[<<1, 1>>]
InsMarginal(addA, delA, D)  == UmadPos(addA, delA, D)[<<0, 1>>] + UmadPos(addA, delA, D)[<<1, 1>>]
(* expected child length per parent position, times D^3 *)
ExpLenPerPos(addA, delA, D) == KeepMarginal(addA, delA, D) + InsMarginal(addA, delA, D)

(* random Plushy gene: close coin c/D, then one of n instructions uniformly: *)
(* counts over (coin, index) pairs; outcome 0 = close, j = instruction j     *)
GeneLaw(n, c, D) ==
  [o \in 0..n |-> IF o = 0 THEN c * n ELSE (D - c)]      \* out of D * n
=============================================================================
