---------------------------- MODULE MC_Variation ----------------------------
(***************************************************************************)
(* Exhaustive check of the clauses of C10 / C11 on Variation.tla over all  *)
(* small instances, and emission of (a) replay cases for the exchange      *)
(* primitives and the error paths, (b) the set of children two-point       *)
(* crossover must be able to produce for each length (coverage obligation  *)
(* "every segment can occur").                                             *)
(***************************************************************************)
EXTENDS Variation, TLC, Json

CONSTANTS MaxLen,     \* parents / genomes of length 0..MaxLen
          BitLen      \* bit genomes for the exchange primitives: length 0..BitLen

VARIABLES case, phase, res
mcvars == <<case, phase, res>>

P1(n) == [i \in 1..n |-> i]            \* tagged parents: differ at every position
P2(n) == [i \in 1..n |-> 100 + i]
Bits(n) == UNION {[1..k -> {0, 1}] : k \in 0..n}
NewGenes == {1000, 1001}
Rates == {<<0, 1>>, <<1, 2>>, <<1, 1>>}
FlipRates == {<<0, 1>>, <<1, 4>>, <<1, 1>>, <<3, 2>>}
EmptyKinds == {<<"none", 0, 1>>, <<"rate", 0, 1>>, <<"rate", 1, 2>>, <<"rate", 1, 1>>}

Cases ==
       {[op |-> "two_point", p1 |-> P1(n), p2 |-> P2(m)] : n \in 0..MaxLen, m \in 0..MaxLen}
  \cup {[op |-> "uniform", p1 |-> P1(n), p2 |-> P2(m)] : n \in 0..MaxLen, m \in 0..MaxLen}
  \cup {[op |-> "xgene", a |-> a, b |-> b, i |-> i] : a \in Bits(BitLen), b \in Bits(BitLen), i \in 0..BitLen + 1}
  \cup {[op |-> "xsegment", a |-> a, b |-> b, lo |-> lo, hi |-> hi] :
           a \in Bits(BitLen), b \in Bits(BitLen), lo \in 0..BitLen + 1, hi \in 0..BitLen + 1}
  \cup {[op |-> "flip", g |-> g, num |-> r[1], den |-> r[2]] : g \in Bits(MaxLen), r \in FlipRates}
  \cup {[op |-> "ool", g |-> g] : g \in Bits(MaxLen)}
  \cup {[op |-> "umad", g |-> P1(n), addN |-> a[1], addD |-> a[2], delN |-> d[1], delD |-> d[2],
         ek |-> e[1], eN |-> e[2], eD |-> e[3]] :
           n \in 0..(IF MaxLen > 3 THEN 3 ELSE MaxLen), a \in Rates, d \in Rates, e \in EmptyKinds}

Outcomes(c) ==
  CASE c.op = "two_point" -> TwoPointOutcomes(c.p1, c.p2)
    [] c.op = "uniform"   -> UniformOutcomes(c.p1, c.p2)
    [] c.op = "xgene"     -> {XGene(c.a, c.b, c.i)}
    [] c.op = "xsegment"  -> {XSegment(c.a, c.b, c.lo, c.hi)}
    [] c.op = "flip"      -> {OkChild(x) : x \in FlipOutcomes(c.g, c.num, c.den)}
    [] c.op = "ool"       -> {OkChild(x) : x \in OneOverLengthOutcomes(c.g)}
    [] c.op = "umad"      -> {OkChild(x) : x \in UmadOutcomes(c.g, c.addN, c.addD, c.delN, c.delD,
                                                             c.ek, c.eN, c.eD, NewGenes)}

MCInit == case \in Cases /\ phase = "pre" /\ res = [k |-> "none"]
MCNext == phase = "pre" /\ res' \in Outcomes(case) /\ phase' = "post" /\ UNCHANGED case
MCSpec == MCInit /\ [][MCNext]_mcvars

Post == phase = "post"
Xo == case.op \in {"two_point", "uniform"}

-----------------------------------------------------------------------------
(* C10 *)
MisuseIsError ==
  Post => /\ (Xo => (res.k = "difflen" <=> Len(case.p1) # Len(case.p2)))
          /\ ((Xo /\ res.k = "difflen") => (res.l1 = Len(case.p1) /\ res.l2 = Len(case.p2)))
          /\ (case.op = "xgene" => (res.k = "err" <=> ~(case.i < Len(case.a) /\ case.i < Len(case.b))))
          /\ (case.op = "xsegment" =>
                (res.k = "err" <=> ~(case.lo <= case.hi /\ case.hi <= Len(case.a) /\ case.hi <= Len(case.b))))
          /\ (res.k = "err" => (res.a = case.a /\ res.b = case.b))

ChildShape ==
  (Post /\ Xo /\ res.k = "ok") =>
     /\ SameLength(case.p1, res.child)
     /\ PositionWise(case.p1, case.p2, res.child)
     /\ (case.op = "two_point" => Contiguous(FromP2(case.p2, res.child)))

(* every segment (resp. every mask) occurs - evaluated once per case *)
AllSegments ==
  (phase = "pre" /\ case.op = "two_point" /\ Len(case.p1) = Len(case.p2)) =>
     LET n == Len(case.p1)
         got == {FromP2(case.p2, o.child) : o \in Outcomes(case)}
     IN got = {{}} \cup {a..b : a \in 1..n, b \in 1..n}
AllMasks ==
  (phase = "pre" /\ case.op = "uniform" /\ Len(case.p1) = Len(case.p2)) =>
     {FromP2(case.p2, o.child) : o \in Outcomes(case)} = SUBSET (1..Len(case.p1))

(* "uniform crossover decides every position independently": in particular *)
(* ANY two positions can be decided in all four ways (the conformance run  *)
(* demands this of every pair of positions 1..128 apart in long genomes,   *)
(* where a decision source that is re-used periodically would show)        *)
PairsFree ==
  (phase = "pre" /\ case.op = "uniform" /\ Len(case.p1) = Len(case.p2)) =>
     \A i, j \in 1..Len(case.p1) : i # j =>
        {<<i \in FromP2(case.p2, o.child), j \in FromP2(case.p2, o.child)>> : o \in Outcomes(case)}
          = BOOLEAN \X BOOLEAN

ExchangeExact ==
  (Post /\ case.op \in {"xgene", "xsegment"} /\ res.k = "ok") =>
     LET lo == IF case.op = "xgene" THEN case.i ELSE case.lo
         hi == IF case.op = "xgene" THEN case.i + 1 ELSE case.hi
     IN /\ Len(res.a) = Len(case.a) /\ Len(res.b) = Len(case.b)
        /\ \A p \in 1..Len(case.a) : res.a[p] = IF lo < p /\ p <= hi THEN case.b[p] ELSE case.a[p]
        /\ \A p \in 1..Len(case.b) : res.b[p] = IF lo < p /\ p <= hi THEN case.a[p] ELSE case.b[p]

-----------------------------------------------------------------------------
(* C11 *)
FlipShape ==
  (Post /\ case.op \in {"flip", "ool"}) =>
     /\ Len(res.child) = Len(case.g)
     /\ \A i \in 1..Len(case.g) : res.child[i] \in {case.g[i], Neg(case.g[i])}
FlipDegenerate ==
  (Post /\ case.op = "flip") =>
     /\ (case.num = 0 => res.child = case.g)
     /\ (case.num >= case.den => \A i \in 1..Len(case.g) : res.child[i] = Neg(case.g[i]))
OolDegenerate ==
  (Post /\ case.op = "ool") =>
     /\ (Len(case.g) = 0 => res.child = <<>>)
     /\ (Len(case.g) = 1 => res.child = <<Neg(case.g[1])>>)

IsParentGene(x) == x < 1000
RECURSIVE Sel(_, _)
Sel(s, parent) == IF s = <<>> THEN <<>>
                  ELSE (IF IsParentGene(Head(s)) = parent THEN <<Head(s)>> ELSE <<>>) \o Sel(Tail(s), parent)
(* no two generated genes are adjacent unless a parent position between them was deleted: *)
(* "at most one newly generated gene inserted after each parent position"                 *)
InsertsBounded(g, c) ==
  \* count generated genes between consecutive surviving parent genes: at most the number of
  \* parent positions spanned
  \A i \in 1..Len(c), j \in 1..Len(c) :
     (i <= j /\ \A m \in i..j : ~IsParentGene(c[m])) =>
        LET before == IF \E m \in 1..(i - 1) : IsParentGene(c[m])
                        THEN c[CHOOSE m \in 1..(i - 1) : IsParentGene(c[m]) /\ \A q \in (m + 1)..(i - 1) : ~IsParentGene(c[q])]
                        ELSE 0
            after  == IF \E m \in (j + 1)..Len(c) : IsParentGene(c[m])
                        THEN c[CHOOSE m \in (j + 1)..Len(c) : IsParentGene(c[m]) /\ \A q \in (j + 1)..(m - 1) : ~IsParentGene(c[q])]
                        ELSE Len(g) + 1
        IN (j - i + 1) <= (after - before) \* positions before..after-1 can each contribute one (before=0: none)

UmadShape ==
  (Post /\ case.op = "umad") =>
     LET c == res.child  g == case.g IN
     /\ IsSubseq(Sel(c, TRUE), g)                      \* survivors in original order
     /\ \A i \in 1..Len(c) : (~IsParentGene(c[i]) => c[i] \in NewGenes)
     /\ (Len(g) > 0 => InsertsBounded(g, c))
     /\ (Len(g) = 0 => Len(c) <= 1)
     /\ ((Len(g) = 0 /\ case.ek = "none") => c = <<>>)
UmadDegenerate ==
  (Post /\ case.op = "umad" /\ Len(case.g) > 0) =>
     LET c == res.child  g == case.g IN
     /\ ((case.addN = 0 /\ case.delN = 0) => c = g)
     /\ (case.delN >= case.delD => c = <<>>)
     /\ ((case.addN >= case.addD /\ case.delN = 0) =>
           (Len(c) = 2 * Len(g) /\ \A i \in 1..Len(g) : (c[2 * i - 1] = g[i] /\ ~IsParentGene(c[2 * i]))))
(* the membership test used for trace validation accepts exactly the outcomes *)
Candidates(n) == UNION {[1..k -> (1..n) \cup NewGenes] : k \in 0..(2 * n + 1)}
UmadAcceptsExact ==
  (phase = "pre" /\ case.op = "umad" /\ Len(case.g) <= 2) =>
     \A c \in Candidates(Len(case.g)) :
        UmadAccepts(case.g, c, case.addN, case.addD, case.delN, case.delD, case.ek, case.eN, case.eD, 1000)
          <=> (c \in UmadOutcomes(case.g, case.addN, case.addD, case.delN, case.delD,
                                  case.ek, case.eN, case.eD, NewGenes))

-----------------------------------------------------------------------------
SetToSeq(S) == LET RECURSIVE G(_)
                   G(T) == IF T = {} THEN <<>> ELSE LET x == CHOOSE y \in T : TRUE IN <<x>> \o G(T \ {x})
               IN G(S)

Deterministic(c) == c.op \in {"xgene", "xsegment"} \/ (Xo /\ Len(c.p1) # Len(c.p2))

Emit ==
  (phase = "pre") =>
     /\ (Deterministic(case) => PrintT(<<"CASE", ToJson([case |-> case, allowed |-> SetToSeq(Outcomes(case))])>>))
     /\ ((case.op = "two_point" /\ Len(case.p1) = Len(case.p2)) =>
           PrintT(<<"SEGS", ToJson([n |-> Len(case.p1),
                                    children |-> SetToSeq({o.child : o \in Outcomes(case)})])>>))
=============================================================================
