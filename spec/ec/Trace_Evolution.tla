--------------------------- MODULE Trace_Evolution ---------------------------
(***************************************************************************)
(* Trace validation of REAL evolutionary runs assembled exactly like the   *)
(* repository's count_ones example (real DynWeighted mix of Best /         *)
(* Lexicase / Tournament / Random, real Select.apply_twice, then_map       *)
(* (GenomeExtractor), Recombine(TwoPointXo | UniformXo), Mutate             *)
(* (WithOneOverLength | WithRate), GenomeScorer, Generation::serial_next / *)
(* par_next).  Harness-supplied pass-through operators between the stages  *)
(* log what flows through the pipeline; one `child` event per application  *)
(* of the child maker:                                                     *)
(*   parents   - which members of the population the two selections        *)
(*               returned (located by address)                             *)
(*   extracted - the two genomes handed on by GenomeExtractor              *)
(*   xo, mut   - the genome after crossover / after mutation               *)
(*   scored    - the genome the scorer was shown, and its result           *)
(* and one `return` event per step with the population afterwards.         *)
(***************************************************************************)
EXTENDS Evolution, Json, IOUtils

Log == ndJsonDeserialize(IOEnv.TRACE)
VARIABLES l, cfg
tvars == <<evars, l, cfg>>

TraceInit == l = 1 /\ pop = <<>> /\ made = <<>> /\ gen = 0 /\ cfg = [l |-> 0, sels |-> {}, xo |-> "none", mut |-> "none"]

ToSet(s) == {s[i] : i \in 1..Len(s)}

Reset == LET e == Log[l] IN
  /\ e.ev = "reset"
  /\ pop' = [i \in 1..Len(e.pop) |-> Ind(e.pop[i])]
  /\ made' = <<>> /\ gen' = 0
  /\ cfg' = [l |-> e.l, sels |-> ToSet(e.sels), xo |-> e.xo, mut |-> e.mut]

Child == LET e == Log[l] a == e.parents[1] b == e.parents[2] IN
  /\ e.ev = "child"
  /\ a \in ParentsC(pop, cfg) /\ b \in ParentsC(pop, cfg)      \* selected from the UNMODIFIED population
  /\ e.extracted = <<pop[a].g, pop[b].g>>                    \* then_map(GenomeExtractor): in order
  /\ e.xo \in XoChildrenC(pop[a].g, pop[b].g, cfg)           \* Recombine
  /\ e.mut \in MutChildrenC(e.xo, cfg)                      \* Mutate
  /\ e.scored.g = e.mut                                     \* the scorer sees the genome that was made
  /\ e.scored.res = Ind(e.mut).res /\ e.scored.total = Ind(e.mut).score
  /\ Len(made) < Len(pop)
  /\ made' = Append(made, Ind(e.mut))
  /\ UNCHANGED <<pop, gen, cfg>>

Return == LET e == Log[l]
              after == [i \in 1..Len(e.pop_after) |-> [g |-> e.pop_after[i].g, res |-> e.pop_after[i].res,
                                                       score |-> e.pop_after[i].total]] IN
  /\ e.ev = "return" /\ e.ok
  /\ Len(made) = Len(pop)                 \* as many children as the population had
  /\ SameMultiset(made, after)           \* exactly those children, each with its own genome and result
  /\ pop' = after /\ made' = <<>> /\ gen' = gen + 1
  /\ UNCHANGED cfg

TraceNext == l <= Len(Log) /\ l' = l + 1 /\ (Reset \/ Child \/ Return)
TraceSpec == TraceInit /\ [][TraceNext]_tvars

ScoresConsistentT == \A i \in 1..Len(pop) : pop[i] = Ind(pop[i].g)

TraceAccepted ==
  LET d == TLCGet("stats").diameter IN
  IF d - 1 = Len(Log) THEN TRUE ELSE PrintT(<<"TRACE-REJECTED", d>>) /\ FALSE
=============================================================================
