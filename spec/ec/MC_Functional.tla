---------------------------- MODULE MC_Functional ----------------------------
(* The specification itself is tiny: TLC checks that a second, different    *)
(* observation of a key is impossible.                                      *)
EXTENDS Functional
CONSTANTS Keys, Vals
Next == \E k \in Keys, v \in Vals : Observe(k, v)
Spec == Init /\ [][Next]_memo
NeverTwoValues == [][\A k \in DOMAIN memo : memo'[k] = memo[k]]_memo
=============================================================================
