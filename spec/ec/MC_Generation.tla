---------------------------- MODULE MC_Generation ----------------------------
EXTENDS Generation
CONSTANT N0
Init == InitWith([i \in 1..N0 |-> i])
Spec == Init /\ [][Next]_vars /\ WF_vars(Next)
=============================================================================
