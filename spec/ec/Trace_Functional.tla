--------------------------- MODULE Trace_Functional ---------------------------
(* Every logged observation (key, value) of a real operator must extend the  *)
(* function observed so far.  "reset" starts a new group of observations.    *)
EXTENDS Functional, Json, IOUtils

Log == ndJsonDeserialize(IOEnv.TRACE)
VARIABLE l

TraceInit == l = 1 /\ Init
Reset == Log[l].ev = "reset" /\ memo' = <<>>
Obs == Log[l].ev = "obs" /\ Observe(Log[l].key, Log[l].val)
TraceNext == l <= Len(Log) /\ l' = l + 1 /\ (Reset \/ Obs)
TraceSpec == TraceInit /\ [][TraceNext]_<<memo, l>>
TraceAccepted ==
  LET d == TLCGet("stats").diameter IN
  IF d - 1 = Len(Log) THEN TRUE ELSE PrintT(<<"TRACE-REJECTED", d>>) /\ FALSE
=============================================================================
