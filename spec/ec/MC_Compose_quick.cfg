SPECIFICATION MCSpec
CONSTANTS
  MaxCalls = 4
  RepN = {0, 2}
INVARIANTS LeftToRight StopsAtFirstFailure ErrorLocates PrefixOfFullRun Emit
CHECK_DEADLOCK FALSE
