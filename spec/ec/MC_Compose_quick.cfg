SPECIFICATION MCSpec
CONSTANTS
  Wide = FALSE
  MaxCalls = 4
  RepN = {0, 2}
INVARIANTS LeftToRight StopsAtFirstFailure EmptySelectionFails ErrorLocates PrefixOfFullRun ScorerFaithful Emit
CHECK_DEADLOCK FALSE
