SPECIFICATION Spec
CONSTANTS
  N = 2
  L = 3
  Sels = {"tournament2", "lexicase"}
  Xo = "two_point"
  Mut = "rate0"
  Gens = 2
INVARIANTS SizeConstant ScoresConsistent GenomeLength SelectionTotal
PROPERTIES NoNewAlleles ComplementUnderRate1 ElitistTakeover
CHECK_DEADLOCK FALSE
