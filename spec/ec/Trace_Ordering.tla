---------------------------- MODULE Trace_Ordering ----------------------------
(* Construction clause of C15: an individual created by scoring a genome     *)
(* carries exactly the genome that was made and the result the scorer        *)
(* returned for that genome; the scorer is consulted exactly once, on it.    *)
EXTENDS Naturals, Sequences, Json, IOUtils, TLC

Log == ndJsonDeserialize(IOEnv.TRACE)
VARIABLE l

Built == LET e == Log[l] IN
  /\ e.ev = "built"
  /\ Len(e.made) = 1 /\ Len(e.scored) = 1 /\ Len(e.scores) = 1
  /\ e.scored[1] = e.made[1]
  /\ e.ind_genome = e.made[1]
  /\ e.ind_result = e.scores[1]

TraceInit == l = 1
TraceNext == l <= Len(Log) /\ l' = l + 1 /\ Built
TraceSpec == TraceInit /\ [][TraceNext]_l
TraceAccepted ==
  LET d == TLCGet("stats").diameter IN
  IF d - 1 = Len(Log) THEN TRUE ELSE PrintT(<<"TRACE-REJECTED", d>>) /\ FALSE
=============================================================================
