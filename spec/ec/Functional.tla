------------------------------ MODULE Functional ------------------------------
(***************************************************************************)
(* The contract every other specification of this directory assumes        *)
(* (properties C16, C17): an operator VALUE HAS NO STATE OF ITS OWN.  An    *)
(* application is a function                                               *)
(*      (operator configuration, arguments, generator state)               *)
(*           |->  (result, words consumed, generator state afterwards)     *)
(* so that nothing else - thread-local or global randomness, hash-map      *)
(* order, time, earlier calls on the same operator value, the pointer or   *)
(* type-erased wrapper it is called through - influences the outcome.      *)
(*                                                                         *)
(* `memo` is the function observed so far.  Observe(k, v) is enabled iff   *)
(* the key is new or was observed with exactly this value: a trace with    *)
(* two observations of one key and different values has no behaviour.      *)
(* The key never contains the wrapper (C17) nor the position in the call   *)
(* history (C16).                                                          *)
(***************************************************************************)
EXTENDS Naturals, Sequences, TLC

VARIABLE memo

Init == memo = <<>>      \* the empty function

Observe(k, v) ==
  /\ (k \in DOMAIN memo => memo[k] = v)
  /\ memo' = IF k \in DOMAIN memo THEN memo ELSE memo @@ (k :> v)

Functional == \A k \in DOMAIN memo : memo[k] = memo[k]    \* memo is a function by construction
=============================================================================
