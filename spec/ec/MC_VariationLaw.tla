--------------------------- MODULE MC_VariationLaw ---------------------------
EXTENDS VariationLaw, SequencesExt, TLC, Json

VARIABLE x
Init == x = 0
Next == x' = x
Spec == Init /\ [][Next]_x

D4 == 4
Rates4 == 0..4
(* the configured rate is the rate applied, independently per gene *)
ASSUME \A n \in 1..3, a \in Rates4 : \A i \in 1..n : Marginal(n, a, D4, i) * D4 = a * Pow(D4, n)
ASSUME \A a \in Rates4 : Joint(3, a, D4, 1, 3) * D4 * D4 = a * a * Pow(D4, 3)
ASSUME \A n \in 1..3, a \in Rates4 : \A m \in Masks(n) :
          MaskCount(n, a, D4, m) = Pow(a, Cardinality({i \in 1..n : m[i] = 1}))
                                   * Pow(D4 - a, Cardinality({i \in 1..n : m[i] = 0}))
(* 1/length: exactly one expected flip (D = n) *)
ASSUME \A n \in 1..4 : ExpectedOnes(n, 1, n) = Pow(n, n)
(* uniform crossover = rate 1/2 *)
ASSUME \A m \in Masks(3) : MaskCount(3, 1, 2, m) = 1

D12 == 12
UmadRates == {<<6, 4>>, <<4, 3>>, <<12, 6>>, <<3, 9>>, <<9, 3>>, <<0, 6>>, <<6, 0>>, <<12, 0>>, <<6, 12>>}
(* keep = 1 - del; insertion = add * (1 - del) *)
ASSUME \A r \in UmadRates : KeepMarginal(r[1], r[2], D12) = (D12 - r[2]) * D12 * D12
ASSUME \A r \in UmadRates : InsMarginal(r[1], r[2], D12) = r[1] * (D12 - r[2]) * D12
(* expected size preserved when del = add / (1 + add) *)
ASSUME \A r \in {<<6, 4>>, <<4, 3>>, <<12, 6>>} : ExpLenPerPos(r[1], r[2], D12) = Pow(D12, 3)
(* and not otherwise (for the other listed pairs) *)
ASSUME \A r \in {<<3, 9>>, <<9, 3>>, <<6, 0>>, <<6, 12>>} : ExpLenPerPos(r[1], r[2], D12) # Pow(D12, 3)
(* default close probability 1/(n+1): all n+1 outcomes equally likely *)
ASSUME \A n \in 1..8 : \A o \in 0..n : GeneLaw(n, 1, n + 1)[o] = n

FnToSeqOfCells(f) == SetToSeq({[key |-> k, num |-> f[k]] : k \in DOMAIN f})

MaskLawRow(op, n, a, D) == [op |-> op, n |-> n, a |-> a, D |-> D, den |-> Pow(D, n), cells |-> FnToSeqOfCells(MaskLaw(n, a, D))]
UmadRow(r) == [op |-> "umad", addA |-> r[1], delA |-> r[2], D |-> D12, den |-> Pow(D12, 3),
               cells |-> FnToSeqOfCells(UmadPos(r[1], r[2], D12))]
GeneRow(n, c, D) == [op |-> "gene", n |-> n, c |-> c, D |-> D, den |-> D * n,
                     cells |-> [o \in 1..(n + 1) |-> [key |-> o - 1, num |-> GeneLaw(n, c, D)[o - 1]]]]

ASSUME \A a \in Rates4 : PrintT(<<"LAW", ToJson(MaskLawRow("coins", 3, a, D4))>>)
ASSUME PrintT(<<"LAW", ToJson(MaskLawRow("coins", 3, 1, 2))>>)
(* ... and on the shortest genomes (1, 2 and 4 genes: a whole genome may be "most of the genome" there, *)
(* and positions are decided independently all the same)                                               *)
ASSUME \A n \in {1, 2, 4} : PrintT(<<"LAW", ToJson(MaskLawRow("coins", n, 1, 2))>>)
ASSUME \A n \in 2..4 : PrintT(<<"LAW", ToJson(MaskLawRow("ool", n, 1, n))>>)
(* any two genes of a long genome are decided independently (positions 1, 64 and 128 apart) *)
ASSUME \A a \in {1, 2, 3} : PrintT(<<"LAW", ToJson(MaskLawRow("pair", 2, a, D4))>>)
(* EVERY gene of a long genome is decided with the configured rate (one coin per position; *)
(* the conformance run tallies each of 200 positions, both implementations, separately)   *)
ASSUME \A a \in {1, 2, 3} : PrintT(<<"LAW", ToJson(MaskLawRow("marginal", 1, a, D4))>>)
(* an empty parent receives one new gene with the configured empty-genome rate: one coin *)
ASSUME \A a \in Rates4 : PrintT(<<"LAW", ToJson(MaskLawRow("umad_empty", 1, a, D4))>>)
(* 1/length on a long genome: the per-gene rate is 1/n also when n exceeds 16 bits; one coin of rate 1/n *)
ASSUME PrintT(<<"LAW", ToJson([op |-> "ool_long", n |-> 131072, a |-> 1, D |-> 131072, den |-> 131072,
                               cells |-> <<[key |-> <<1>>, num |-> 1], [key |-> <<0>>, num |-> 131071]>>])>>)
ASSUME \A r \in UmadRates : PrintT(<<"LAW", ToJson(UmadRow(r))>>)
ASSUME \A c \in {0, 1, 2, 4} : PrintT(<<"LAW", ToJson(GeneRow(3, c, 4))>>)
ASSUME \A n \in {1, 2, 3, 4, 8} : PrintT(<<"LAW", ToJson(GeneRow(n, 1, n + 1))>>)
=============================================================================
