SPECIFICATION MCSpec
CONSTANTS
  Vals <- ValsDef
  VecLen = 3
INVARIANTS Emit
CHECK_DEADLOCK FALSE
