SPECIFICATION Spec
CONSTANTS
  N0 = 3
  Workers = {1, 2}
  Kinds = {"seq"}
  KeySet = {1, 2}
  Gens = 2
INVARIANTS NoTornPopulation SizePreserved CallsMatchSize AllFresh OwnRandomness FailureAtomic NoPartialCommit ErrIffFailure SerialDiscipline
PROPERTIES StepsTerminate
CHECK_DEADLOCK FALSE
