---------------------------- MODULE Trace_Choices ----------------------------
(* Random real uses of the choice distributions (every conversion flavour)   *)
(* and of the collection generators, checked against Choices.tla.            *)
EXTENDS Choices, Json, IOUtils, TLC

Log == ndJsonDeserialize(IOEnv.TRACE)
VARIABLE l

Choice == LET e == Log[l] IN
  /\ e.ev = "choice"
  /\ e.b = Build(e.coll)
  /\ (e.b.k = "empty_slice" => e.samples = <<>>)
  /\ \A n \in 1..Len(e.samples) : e.samples[n] \in SampleOutcomes(e.coll)

Stream(n) == [i \in 1..n |-> 100 + i]
CollectEv == LET e == Log[l]
                 a == Collect(Stream(e.size + e.then), 0, e.size)
                 b == Collect(Stream(e.size + e.then), a.drawn, e.then) IN
  /\ e.ev = "collect"
  /\ e.res.first = a.res /\ e.res.second = b.res /\ e.res.drawn = b.drawn

(* size sweep: every size 0..600 and some large ones, every sized constructor; the     *)
(* stream-fed collectors additionally report how many elements they drew               *)
SizedEv == LET e == Log[l] IN
  /\ e.ev = "sized"
  /\ SizedOk(e.size, e.len)
  /\ (e.drawn >= 0 => e.drawn = e.size)       \* one draw of the element generator per element

(* the elements of a generated collection are separate draws of the element generator: over   *)
(* many random bitstrings any two positions take all four value pairs (the driver reports the  *)
(* smallest number of pairs seen for any two positions 1, 32, 64 or 128 apart)                  *)
BitsFreeEv == LET e == Log[l] IN
  /\ e.ev = "bits_free" /\ e.lens_ok /\ e.fewest_pairs = 4

(* collections of 2^32 and more members (sizes beyond TLC's integers: the driver compares the *)
(* reported number of members with the length and logs "len" when they are equal): built,     *)
(* never rejected, and the number of members is the true one                                   *)
HugeEv == LET e == Log[l] IN
  /\ e.ev = "huge"
  /\ e.b = [k |-> "ok", n |-> "len"]

TraceInit == l = 1
TraceNext == l <= Len(Log) /\ l' = l + 1 /\ (Choice \/ CollectEv \/ SizedEv \/ HugeEv \/ BitsFreeEv)
TraceSpec == TraceInit /\ [][TraceNext]_l
TraceAccepted ==
  LET d == TLCGet("stats").diameter IN
  IF d - 1 = Len(Log) THEN TRUE ELSE PrintT(<<"TRACE-REJECTED", d>>) /\ FALSE
=============================================================================
