SPECIFICATION Spec
CONSTANTS
  N = 2
  L = 2
  Sels = {"random"}
  Xo = "none"
  Mut = "rate1"
  Gens = 2
INVARIANTS SizeConstant ScoresConsistent GenomeLength SelectionTotal
PROPERTIES NoNewAlleles ComplementUnderRate1 ElitistTakeover
CHECK_DEADLOCK FALSE
