SPECIFICATION MCSpec
CONSTANTS
  MaxLen = 6
  MaxSize = 8
INVARIANTS EmptyRejectedAtBuild Membership NumChoicesExact AllMembersReachable ExactSize Emit
CHECK_DEADLOCK FALSE
