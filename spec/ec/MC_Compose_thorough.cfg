SPECIFICATION MCSpec
CONSTANTS
  Wide = TRUE
  MaxCalls = 6
  RepN = {0, 1, 2, 3}
INVARIANTS LeftToRight StopsAtFirstFailure EmptySelectionFails ErrorLocates PrefixOfFullRun ScorerFaithful Emit
CHECK_DEADLOCK FALSE
