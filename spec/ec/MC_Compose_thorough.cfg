SPECIFICATION MCSpec
CONSTANTS
  MaxCalls = 6
  RepN = {0, 1, 2, 3}
INVARIANTS LeftToRight StopsAtFirstFailure ErrorLocates PrefixOfFullRun Emit
CHECK_DEADLOCK FALSE
