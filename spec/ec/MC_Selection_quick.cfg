SPECIFICATION MCSpec
CONSTANTS
  MaxPop = 3
  LexPop = 3
  PermCases = {3, 4}
  LexCases = 2
INVARIANTS ResultSound NeverStuck MaximalIsUnbeaten Pressure TournamentExtremes TournamentLaw LexSurvives LexNeverDominated LexDegenerate LexAcceptsExact Emit
CHECK_DEADLOCK FALSE
