SPECIFICATION Spec
CONSTANTS
  N = 2
  L = 2
  Sels = {"best", "lexicase", "tournament2", "random"}
  Xo = "two_point"
  Mut = "one_over_length"
  Gens = 2
INVARIANTS SizeConstant ScoresConsistent GenomeLength SelectionTotal
PROPERTIES NoNewAlleles ComplementUnderRate1 ElitistTakeover
CHECK_DEADLOCK FALSE
