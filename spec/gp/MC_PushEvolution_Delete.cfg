SPECIFICATION Spec
CONSTANTS
  IntMax = 536870911
  ExpMax = 268435456
  FMax = 1048576
  Config <- CfgDelete
  N = 2
  GLen = 2
  Gens = 1
INVARIANTS SizeConstant ScoresConsistent SelectionTotal ParentsUndominated
PROPERTIES SpecialistsSurvive LengthsUnderPureRates
CHECK_DEADLOCK FALSE
