SPECIFICATION MCSpec
CONSTANTS
  IntMax = 536870911
  ExpMax = 268435456
  FMax = 1048576
  GLen = 4
  Ms = {1, 3, 6}
  Limit = 16
  Penalty = 1000
  Cases <- MCCases
INVARIANTS ErrorsNonNegative PenaltyMeansNoAnswer ZeroTotalMeansSolved LeadingCloseInert TrailingCloseInert
           FlatWithoutOpeners ProgramNoLonger WellTabledAlways Emit
CHECK_DEADLOCK FALSE
