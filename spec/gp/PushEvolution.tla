---------------------------- MODULE PushEvolution ----------------------------
(***************************************************************************)
(* The evolutionary loop of the `push` examples (examples/median):         *)
(*                                                                         *)
(*   Select(Lexicase(#cases)).then(GenomeExtractor).then(Mutate(Umad))     *)
(*       .wrap::<GenomeScorer>(scorer)            -- the child maker       *)
(*   Generation::new(child maker, population).serial_next() / par_next()   *)
(*                                                                         *)
(* composed from the modules that specify the parts: Selection (lexicase   *)
(* on errors), Variation (UMAD), PushScore (the scorer: translation, built *)
(* state, interpreter run, error or penalty) and the generation step of    *)
(* C09 (as many children as members, all made from the UNMODIFIED previous *)
(* population, then replace).                                              *)
(*                                                                         *)
(* An individual is [genes, results]; its total is the sum of results.     *)
(***************************************************************************)
EXTENDS PushScore

SEL == INSTANCE Selection
VAR == INSTANCE Variation

(* the population as Selection.tla sees it: lexicase looks at `res` (errors: *)
(* smaller is better); the individuals' own ordering is by total error       *)
SelPop(p) == [k \in 1..Len(p) |-> [score |-> 0 - SumSeq(p[k].results), res |-> p[k].results]]

(* members lexicase may return for a population with nc cases each *)
LexParents(p, nc) ==
  {o.i : o \in {x \in SEL!LexicaseOutcomes(SelPop(p), "error", nc) : x.k = "member"}}
LexFails(p, nc) == \E o \in SEL!LexicaseOutcomes(SelPop(p), "error", nc) : o.k # "member"

(* a configuration: [cases, m, limit, penalty, new (the gene generator's    *)
(* alphabet), add, del (rates as <<numerator, denominator>>)]                *)
ErrorSets(genes, cfg) ==
  [k \in 1..Len(cfg.cases) |->
     {r.e : r \in CaseOutcomes(Translate(genes), cfg.m, cfg.limit, cfg.cases[k].inputs,
                               cfg.cases[k].expected, cfg.penalty)}]
(* is `results` what the scorer may return for `genes`? *)
ScoredAs(genes, results, cfg) ==
  /\ Len(results) = Len(cfg.cases)
  /\ \A k \in 1..Len(results) : results[k] \in ErrorSets(genes, cfg)[k]

(* Umad::new(add, del, generator): an empty genome gets one new gene at the addition rate *)
UmadChild(g, c, cfg) ==
  VAR!UmadAcceptsIn(g, c, cfg.add[1], cfg.add[2], cfg.del[1], cfg.del[2], "rate", cfg.add[1], cfg.add[2], cfg.new)

SameMultiset(mk, p) ==
  /\ Len(p) = Len(mk)
  /\ \A x \in {mk[i] : i \in 1..Len(mk)} \cup {p[i] : i \in 1..Len(p)} :
        Cardinality({i \in 1..Len(mk) : mk[i] = x}) = Cardinality({i \in 1..Len(p) : p[i] = x})

-----------------------------------------------------------------------------
CONSTANTS Config,    \* the configuration explored by the model checker
          N, GLen, Gens

VARIABLES pop, made, gen
evars == <<pop, made, gen>>

Ind(genes, results) == [genes |-> genes, results |-> results]

Genomes == UNION {[1..n -> Config.new] : n \in 0..GLen}
(* every way the scorer may score a genome *)
ScoredInds(genes) ==
  LET es == ErrorSets(genes, Config)
      nc == Len(Config.cases)
  IN {Ind(genes, rs) : rs \in {f \in [1..nc -> UNION {es[k] : k \in 1..nc}] : \A k \in 1..nc : f[k] \in es[k]}}

Init == /\ pop \in [1..N -> UNION {ScoredInds(g) : g \in Genomes}]
        /\ made = <<>> /\ gen = 0

UmadChildren(g) ==
  VAR!UmadOutcomes(g, Config.add[1], Config.add[2], Config.del[1], Config.del[2], "rate", Config.add[1], Config.add[2], Config.new)

MakeChild ==
  /\ gen < Gens /\ Len(made) < N
  /\ \E a \in LexParents(pop, Len(Config.cases)) :
       \E c \in UmadChildren(pop[a].genes) :
         \E ind \in ScoredInds(c) : made' = Append(made, ind)
  /\ UNCHANGED <<pop, gen>>

Commit ==
  /\ N > 0 /\ Len(made) = N
  /\ pop' = made /\ made' = <<>> /\ gen' = gen + 1

Next == MakeChild \/ Commit
Spec == Init /\ [][Next]_evars

-----------------------------------------------------------------------------
SizeConstant == Len(pop) = N /\ Len(made) <= N
ScoresConsistent == \A i \in 1..Len(pop) : ScoredAs(pop[i].genes, pop[i].results, Config)
SelectionTotal == N > 0 => (~LexFails(pop, Len(Config.cases)) /\ LexParents(pop, Len(Config.cases)) # {})

(* C08 at the level of the loop: a parent is never Pareto-dominated *)
ParentsUndominated ==
  \A a \in LexParents(pop, Len(Config.cases)) :
    \A j \in 1..Len(pop) : ~SEL!Dominates(SelPop(pop), "error", Len(Config.cases), j, a)

(* lexicase keeps specialists: without variation every member of the next   *)
(* population is a copy of a member that was the best of the previous        *)
(* population on at least one case (when there are cases)                    *)
BestOn(p, k) == CHOOSE b \in {p[i].results[k] : i \in 1..Len(p)} : \A i \in 1..Len(p) : b <= p[i].results[k]
NoVariation == Config.add[1] = 0 /\ Config.del[1] = 0
SpecialistsSurvive ==
  [][((NoVariation /\ pop' # pop /\ Len(Config.cases) > 0) =>
        \A c \in 1..Len(pop') :
          \E a \in 1..Len(pop) : /\ pop'[c].genes = pop[a].genes
                                 /\ \E k \in 1..Len(Config.cases) : pop[a].results[k] = BestOn(pop, k))]_evars
(* deletion only: no child is longer than its parent; addition only: none shorter *)
LengthsUnderPureRates ==
  [][(pop' # pop =>
       /\ (Config.add[1] = 0 => \A c \in 1..Len(pop') : \E a \in 1..Len(pop) : Len(pop'[c].genes) <= Len(pop[a].genes))
       /\ (Config.del[1] = 0 => \A c \in 1..Len(pop') : \E a \in 1..Len(pop) : Len(pop'[c].genes) >= Len(pop[a].genes)))]_evars
=============================================================================
