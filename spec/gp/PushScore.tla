------------------------------ MODULE PushScore ------------------------------
(***************************************************************************)
(* Scoring a Plushy genome the way every example of the `push` crate does  *)
(* it (examples/median, smallest, number_io, *_regression):                *)
(*                                                                         *)
(*   program = Vec::<PushProgram>::from(genome)          -- Plushy.tla     *)
(*   for each training case (inputs, expected), in case order:             *)
(*     state = PushState::builder().with_max_stack_size(m)                 *)
(*               .with_program(program)?.with_*_input(..)                  *)
(*               .with_instruction_step_limit(limit).build()  -- Builder   *)
(*     final = state.run_to_completion()                  -- PushVM        *)
(*     error = |top of final int stack - expected|, or the penalty when    *)
(*             the state cannot be built, the run is aborted (fatal) or    *)
(*             no integer is left                                          *)
(*   results = the errors in case order; total = their sum  -- Ordering    *)
(*                                                                         *)
(* This module holds the operators; PushGP.tla is the evaluation of one     *)
(* genome as a state machine, PushEvolution.tla the evolutionary loop.     *)
(*                                                                         *)
(* Not one of the listed properties by itself: it is the composition the   *)
(* listed properties C01 / C03 / C05 / C15 / C19 exist for, written once   *)
(* as one function of the genome so that the real pipeline can be compared *)
(* with it end to end.  Everything is built from the operators of the      *)
(* modules that specify the parts: Plushy!Parse, PushInstr!StepOutcomes.   *)
(***************************************************************************)
EXTENDS PushInstr, TLC

PL == INSTANCE Plushy WITH genome <- <<>>, pos <- 1, open <- <<>>, done <- TRUE

(* a gene is Plushy's: [c |-> TRUE] or [o |-> blocks opened, t |-> the instruction] *)
Opens(ins) == IF ins.f = "exec" /\ ins.o \in DOMAIN PL!OpensTable THEN PL!OpensTable[ins.o] ELSE 0
Gene(ins) == [o |-> Opens(ins), t |-> ins]
WellTabled(gs) == \A k \in 1..Len(gs) : IF PL!IsClose(gs[k]) THEN TRUE ELSE gs[k].o = Opens(gs[k].t)

(* Plushy's program (items [i |-> gene] / [b |-> program]) as exec-stack items *)
RECURSIVE ToExec(_)
ToExec(p) ==
  IF p = <<>> THEN <<>>
  ELSE LET h == Head(p) IN
       << IF "b" \in DOMAIN h THEN [f |-> "block", v |-> ToExec(h.b)] ELSE h.i.t >> \o ToExec(Tail(p))

Translate(genes) == ToExec(PL!Parse(genes))

Uniform(m) == [exec |-> m, int |-> m, flt |-> m, bool |-> m]
Fresh(program) == [exec |-> program, int |-> <<>>, flt |-> <<>>, bool |-> <<>>, out |-> <<>>]

(* what one training case contributes: [e |-> error, out |-> what was printed] *)
Penalised(penalty) == [e |-> penalty, out |-> <<>>, pen |-> TRUE]
CaseOutcomes(program, m, limit, inputs, expected, penalty) ==
  IF Len(program) > m THEN {Penalised(penalty)}              \* with_program fails: nothing runs
  ELSE { IF f.status = "fatal" THEN Penalised(penalty)
         ELSE IF f.st.int = <<>> THEN [e |-> penalty, out |-> f.st.out, pen |-> TRUE]
         ELSE [e |-> Abs(f.st.int[1] - expected), out |-> f.st.out, pen |-> FALSE]
         : f \in RunFrom(Fresh(program), 0, Uniform(m), inputs, limit) }

RECURSIVE SumSeq(_)
SumSeq(s) == IF s = <<>> THEN 0 ELSE Head(s) + SumSeq(Tail(s))

=============================================================================
