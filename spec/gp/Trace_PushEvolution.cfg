SPECIFICATION TraceSpec
CONSTANTS
  IntMax = 536870911
  ExpMax = 268435456
  FMax = 1048576
  Config = 0
  N = 0
  GLen = 0
  Gens = 0
POSTCONDITION TraceAccepted
CHECK_DEADLOCK FALSE
