----------------------------- MODULE MC_PushGP ------------------------------
(***************************************************************************)
(* Every genome of at most GLen genes over an alphabet with close markers, *)
(* literals, arithmetic, an input and the three kinds of block openers,    *)
(* scored on two training cases under every stack limit in Ms.  Emits, per *)
(* genome and limit, the replay case "the real pipeline gives one of these *)
(* outcomes for each case".                                                *)
(***************************************************************************)
EXTENDS PushGP, Json

CONSTANTS GLen, Ms

I(f, o)     == [f |-> f, o |-> o]
IV(f, o, v) == [f |-> f, o |-> o, v |-> v]

InstrAlpha ==
  { IV("int", "push", 1), I("int", "add"), I("int", "dup"), I("input", "x"), I("int", "print"),
    IV("bool", "push", FALSE), I("exec", "when"), I("exec", "if_else"), I("exec", "dup_block") }
GeneAlpha == {CloseG} \cup {Gene(i) : i \in InstrAlpha}
Genomes == UNION {[1..n -> GeneAlpha] : n \in 0..GLen}

MCCases == << [inputs |-> [x |-> IV("int", "push", 2)],  expected |-> 3],
              [inputs |-> [x |-> IV("int", "push", -1)], expected |-> 0] >>

MCInit == genes \in Genomes /\ m \in Ms /\ results = <<>>
MCSpec == MCInit /\ [][EvalCase]_gvars

AllowedSets == [k \in 1..Len(Cases) |->
                  LET c == Cases[k] IN
                  CaseOutcomes(Translate(genes), m, Limit, c.inputs, c.expected, Penalty)]

Emit == results = <<>> =>
          PrintT(<<"CASE", ToJson([genes |-> genes, m |-> m, limit |-> Limit, penalty |-> Penalty,
                                   cases |-> Cases, program |-> Translate(genes),
                                   allowed |-> AllowedSets])>>)
WellTabledAlways == WellTabled(genes)
=============================================================================
