------------------------------- MODULE PushGP -------------------------------
(***************************************************************************)
(* The evaluation of one genome (PushScore) as a state machine: one        *)
(* training case per step, in case order.                                  *)
(***************************************************************************)
EXTENDS PushScore

-----------------------------------------------------------------------------
(* The evaluation of one genome as a state machine: one case per step, in   *)
(* case order; the individual is complete when every case has been run.     *)
CONSTANTS Cases,     \* sequence of [inputs |-> record, expected |-> Int]
          Limit, Penalty

VARIABLES genes,     \* the genome being scored
          m,         \* the size limit given to every stack
          results    \* outcomes of the cases run so far

gvars == <<genes, m, results>>

EvalCase ==
  /\ Len(results) < Len(Cases)
  /\ LET c == Cases[Len(results) + 1] IN
     \E r \in CaseOutcomes(Translate(genes), m, Limit, c.inputs, c.expected, Penalty) :
        results' = Append(results, r)
  /\ UNCHANGED <<genes, m>>

Complete == Len(results) = Len(Cases)
Errors == [k \in 1..Len(results) |-> results[k].e]
Total == SumSeq(Errors)

(* what a user of the pipeline relies on *)
ErrorsNonNegative == \A k \in 1..Len(results) : results[k].e >= 0
(* a penalty is given exactly when there is no answer - never for a wrong answer *)
PenaltyMeansNoAnswer ==
  \A k \in 1..Len(results) : results[k].pen => results[k].e = Penalty
(* a perfect total means every case was answered exactly *)
ZeroTotalMeansSolved == (Complete /\ Total = 0 /\ Penalty > 0) => \A k \in 1..Len(results) : ~results[k].pen /\ results[k].e = 0
(* the translation facts that make genomes robust under variation: close    *)
(* markers in front of the genome and one after its end change nothing, and *)
(* a genome without block openers is its instructions in order              *)
CloseG == [c |-> TRUE]
LeadingCloseInert  == Translate(<<CloseG>> \o genes) = Translate(genes)
TrailingCloseInert == Translate(genes \o <<CloseG>>) = Translate(genes)
FlatWithoutOpeners ==
  (\A k \in 1..Len(genes) : IF PL!IsClose(genes[k]) THEN TRUE ELSE genes[k].o = 0)
     => Translate(genes) = [k \in 1..Len(PL!Instrs(genes)) |-> PL!Instrs(genes)[k].t]
(* every top-level item of the program is an instruction of the genome or  *)
(* one of the blocks an instruction opens                                   *)
ProgramNoLonger ==
  Len(Translate(genes)) <= SumSeq([k \in 1..Len(PL!Instrs(genes)) |-> 1 + PL!Instrs(genes)[k].o])
=============================================================================
