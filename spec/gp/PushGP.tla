------------------------------- MODULE PushGP -------------------------------
(***************************************************************************)
(* Scoring a Plushy genome the way every example of the `push` crate does  *)
(* it (examples/median, smallest, number_io, *_regression):                *)
(*                                                                         *)
(*   program = Vec::<PushProgram>::from(genome)          -- Plushy.tla     *)
(*   for each training case (inputs, expected), in case order:             *)
(*     state = PushState::builder().with_max_stack_size(m)                 *)
(*               .with_program(program)?.with_*_input(..)                  *)
(*               .with_instruction_step_limit(limit).build()  -- Builder   *)
(*     final = state.run_to_completion()                  -- PushVM        *)
(*     error = |top of final int stack - expected|, or the penalty when    *)
(*             the state cannot be built, the run is aborted (fatal) or    *)
(*             no integer is left                                          *)
(*   results = the errors in case order; total = their sum  -- Ordering    *)
(*                                                                         *)
(* Not one of the listed properties by itself: it is the composition the   *)
(* listed properties C01 / C03 / C05 / C15 / C19 exist for, written once   *)
(* as one function of the genome so that the real pipeline can be compared *)
(* with it end to end.  Everything is built from the operators of the      *)
(* modules that specify the parts: Plushy!Parse, PushInstr!StepOutcomes.   *)
(***************************************************************************)
EXTENDS PushInstr, TLC

PL == INSTANCE Plushy WITH genome <- <<>>, pos <- 1, open <- <<>>, done <- TRUE

(* a gene is Plushy's: [c |-> TRUE] or [o |-> blocks opened, t |-> the instruction] *)
Opens(ins) == IF ins.f = "exec" /\ ins.o \in DOMAIN PL!OpensTable THEN PL!OpensTable[ins.o] ELSE 0
Gene(ins) == [o |-> Opens(ins), t |-> ins]
WellTabled(gs) == \A k \in 1..Len(gs) : IF PL!IsClose(gs[k]) THEN TRUE ELSE gs[k].o = Opens(gs[k].t)

(* Plushy's program (items [i |-> gene] / [b |-> program]) as exec-stack items *)
RECURSIVE ToExec(_)
ToExec(p) ==
  IF p = <<>> THEN <<>>
  ELSE LET h == Head(p) IN
       << IF "b" \in DOMAIN h THEN [f |-> "block", v |-> ToExec(h.b)] ELSE h.i.t >> \o ToExec(Tail(p))

Translate(genes) == ToExec(PL!Parse(genes))

Uniform(m) == [exec |-> m, int |-> m, flt |-> m, bool |-> m]
Fresh(program) == [exec |-> program, int |-> <<>>, flt |-> <<>>, bool |-> <<>>, out |-> <<>>]

(* what one training case contributes: [e |-> error, out |-> what was printed] *)
Penalised(penalty) == [e |-> penalty, out |-> <<>>, pen |-> TRUE]
CaseOutcomes(program, m, limit, inputs, expected, penalty) ==
  IF Len(program) > m THEN {Penalised(penalty)}              \* with_program fails: nothing runs
  ELSE { IF f.status = "fatal" THEN Penalised(penalty)
         ELSE IF f.st.int = <<>> THEN [e |-> penalty, out |-> f.st.out, pen |-> TRUE]
         ELSE [e |-> Abs(f.st.int[1] - expected), out |-> f.st.out, pen |-> FALSE]
         : f \in RunFrom(Fresh(program), 0, Uniform(m), inputs, limit) }

RECURSIVE SumSeq(_)
SumSeq(s) == IF s = <<>> THEN 0 ELSE Head(s) + SumSeq(Tail(s))

-----------------------------------------------------------------------------
(* The evaluation of one genome as a state machine: one case per step, in   *)
(* case order; the individual is complete when every case has been run.     *)
CONSTANTS Cases,     \* sequence of [inputs |-> record, expected |-> Int]
          Limit, Penalty

VARIABLES genes,     \* the genome being scored
          m,         \* the size limit given to every stack
          results    \* outcomes of the cases run so far

gvars == <<genes, m, results>>

EvalCase ==
  /\ Len(results) < Len(Cases)
  /\ LET c == Cases[Len(results) + 1] IN
     \E r \in CaseOutcomes(Translate(genes), m, Limit, c.inputs, c.expected, Penalty) :
        results' = Append(results, r)
  /\ UNCHANGED <<genes, m>>

Complete == Len(results) = Len(Cases)
Errors == [k \in 1..Len(results) |-> results[k].e]
Total == SumSeq(Errors)

(* what a user of the pipeline relies on *)
ErrorsNonNegative == \A k \in 1..Len(results) : results[k].e >= 0
(* a penalty is given exactly when there is no answer - never for a wrong answer *)
PenaltyMeansNoAnswer ==
  \A k \in 1..Len(results) : results[k].pen => results[k].e = Penalty
(* a perfect total means every case was answered exactly *)
ZeroTotalMeansSolved == (Complete /\ Total = 0 /\ Penalty > 0) => \A k \in 1..Len(results) : ~results[k].pen /\ results[k].e = 0
(* the translation facts that make genomes robust under variation: close    *)
(* markers in front of the genome and one after its end change nothing, and *)
(* a genome without block openers is its instructions in order              *)
CloseG == [c |-> TRUE]
LeadingCloseInert  == Translate(<<CloseG>> \o genes) = Translate(genes)
TrailingCloseInert == Translate(genes \o <<CloseG>>) = Translate(genes)
FlatWithoutOpeners ==
  (\A k \in 1..Len(genes) : IF PL!IsClose(genes[k]) THEN TRUE ELSE genes[k].o = 0)
     => Translate(genes) = [k \in 1..Len(PL!Instrs(genes)) |-> PL!Instrs(genes)[k].t]
(* every top-level item of the program is an instruction of the genome or  *)
(* one of the blocks an instruction opens                                   *)
ProgramNoLonger ==
  Len(Translate(genes)) <= SumSeq([k \in 1..Len(PL!Instrs(genes)) |-> 1 + PL!Instrs(genes)[k].o])
=============================================================================
