------------------------- MODULE Trace_PushEvolution -------------------------
(***************************************************************************)
(* Trace validation of real GP runs assembled like examples/median against *)
(* PushEvolution.  Everything that decides anything is the repository's:   *)
(* Lexicase, Select, GenomeExtractor, Umad over a GeneGenerator, Mutate,   *)
(* GenomeScorer around a scorer that runs the Push interpreter on every    *)
(* training case, Generation::serial_next / par_next.  Pass-through taps   *)
(* between the stages log what flows by:                                   *)
(*   reset  - the configuration and the scored initial population          *)
(*   child  - one application of the child maker: the parent (which member *)
(*            of the population, by address), the extracted genome, the    *)
(*            mutated genome, the program it translates to and the errors  *)
(*            the scorer returned (cut: a number left the windows while    *)
(*            scoring - the errors are then taken as logged)               *)
(*   return - the result of the step and the population afterwards         *)
(*   cutrun - an error left the small number window: the run ends here     *)
(***************************************************************************)
EXTENDS PushEvolution, Json, IOUtils

Log == ndJsonDeserialize(IOEnv.TRACE)
VARIABLES l, cur
tvars == <<evars, l, cur>>

ToSet(s) == {s[i] : i \in 1..Len(s)}
NC == Len(cur.cases)

TraceInit == l = 1 /\ pop = <<>> /\ made = <<>> /\ gen = 0
             /\ cur = [cases |-> <<>>, m |-> 0, limit |-> 0, penalty |-> 0, new |-> {}, add |-> <<0, 1>>, del |-> <<0, 1>>]

Reset == LET e == Log[l] IN
  /\ e.ev = "reset"
  /\ WellTabled(e.alphabet)
  /\ \A i \in 1..Len(e.pop) : WellTabled(e.pop[i].genes)
  /\ pop' = [i \in 1..Len(e.pop) |-> Ind(e.pop[i].genes, e.pop[i].results)]
  /\ made' = <<>> /\ gen' = 0
  /\ cur' = [cases |-> e.cases, m |-> e.m, limit |-> e.limit, penalty |-> e.penalty,
             new |-> ToSet(e.alphabet), add |-> e.add, del |-> e.del]

Child == LET e == Log[l] IN
  /\ e.ev = "child"
  /\ e.parent \in LexParents(pop, NC)                 \* selected from the UNMODIFIED population
  /\ e.extracted = pop[e.parent].genes                \* GenomeExtractor
  /\ UmadChild(e.extracted, e.mutated, cur)           \* Mutate(Umad): deletions and insertions only
  /\ Len(e.results) = NC
  /\ (e.cut \/ (/\ e.program = Translate(e.mutated)   \* the scorer saw the genome that was made ...
                /\ ScoredAs(e.mutated, e.results, cur)))   \* ... and its errors are PushScore's
  /\ e.total = SumSeq(e.results)
  /\ Len(made) < Len(pop)
  /\ made' = Append(made, Ind(e.mutated, e.results))
  /\ UNCHANGED <<pop, gen, cur>>

Return == LET e == Log[l]
              after == [i \in 1..Len(e.pop_after) |-> Ind(e.pop_after[i].genes, e.pop_after[i].results)] IN
  /\ e.ev = "return" /\ e.ok
  /\ Len(made) = Len(pop)                 \* as many children as the population had
  /\ SameMultiset(made, after)           \* exactly those children, each with its own genome and errors
  /\ \A i \in 1..Len(e.pop_after) : e.pop_after[i].total = SumSeq(e.pop_after[i].results)
  /\ pop' = after /\ made' = <<>> /\ gen' = gen + 1
  /\ UNCHANGED cur

(* a step in which an error left the small number window is not logged; the run ends *)
Cut == Log[l].ev = "cutrun" /\ UNCHANGED <<evars, cur>>

TraceNext == l <= Len(Log) /\ l' = l + 1 /\ (Reset \/ Child \/ Return \/ Cut)
TraceSpec == TraceInit /\ [][TraceNext]_tvars

TraceAccepted ==
  LET d == TLCGet("stats").diameter IN
  IF d - 1 = Len(Log) THEN TRUE ELSE PrintT(<<"TRACE-REJECTED", d>>) /\ FALSE
=============================================================================
