---------------------------- MODULE Trace_PushGP ----------------------------
(***************************************************************************)
(* Trace validation of the real scoring pipeline against PushGP.  The      *)
(* harness scores random genomes over the crate's whole instruction list   *)
(* exactly as the examples do (Vec::<PushProgram>::from(genome), builder,  *)
(* run_to_completion, |answer - expected| or the penalty, collected into   *)
(* TestResults<Error<i128>>) and logs                                      *)
(*   reset   - genes (with the number of blocks each REALLY opens), the    *)
(*             program the real translation built, stack limit, step limit,*)
(*             penalty and the training cases                              *)
(*   case    - the error and printed output of case k (in case order)      *)
(*   scored  - the individual: its results and total                       *)
(* A run in which a number leaves the phi/psi windows ends after `reset`   *)
(* with a `cutrun` event.                                                  *)
(***************************************************************************)
EXTENDS PushGP, Json, IOUtils

Log == ndJsonDeserialize(IOEnv.TRACE)

VARIABLES l, cur
tvars == <<gvars, l, cur>>

TraceInit == l = 1 /\ genes = <<>> /\ m = 0 /\ results = <<>> /\ cur = [none |-> 0]

TraceReset ==
  /\ Log[l].ev = "reset"
  /\ WellTabled(Log[l].genes)                       \* the table of block openers
  /\ Log[l].program = Translate(Log[l].genes)       \* Plushy!Parse, as exec items
  /\ genes' = Log[l].genes /\ m' = Log[l].m /\ results' = <<>>
  /\ cur' = Log[l]

TraceCase ==
  /\ Log[l].ev = "case"
  /\ Log[l].k = Len(results) + 1 /\ Log[l].k <= Len(cur.cases)
  /\ LET c == cur.cases[Log[l].k] IN
     \E r \in CaseOutcomes(Translate(genes), m, cur.limit, c.inputs, c.expected, cur.penalty) :
        /\ r.e = Log[l].e /\ r.out = Log[l].out
        /\ results' = Append(results, r)
  /\ UNCHANGED <<genes, m, cur>>

TraceScored ==
  /\ Log[l].ev = "scored"
  /\ Len(results) = Len(cur.cases)
  /\ Log[l].results = [k \in 1..Len(results) |-> results[k].e]
  /\ Log[l].total = SumSeq(Log[l].results)
  /\ UNCHANGED <<gvars, cur>>

TraceCut ==
  /\ Log[l].ev = "cutrun"
  /\ UNCHANGED <<gvars, cur>>

TraceNext == /\ l <= Len(Log)
             /\ l' = l + 1
             /\ (TraceReset \/ TraceCase \/ TraceScored \/ TraceCut)

TraceSpec == TraceInit /\ [][TraceNext]_tvars

ObservedSane == ErrorsNonNegative

TraceAccepted ==
  LET d == TLCGet("stats").diameter IN
  IF d - 1 = Len(Log) THEN TRUE
  ELSE /\ PrintT(<<"TRACE-REJECTED", d>>)
       /\ FALSE
=============================================================================
