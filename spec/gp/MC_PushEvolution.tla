-------------------------- MODULE MC_PushEvolution --------------------------
(***************************************************************************)
(* The GP loop on a tiny universe: genomes of at most GLen genes over a    *)
(* four-gene alphabet (a literal, the input, addition, a close marker),    *)
(* two training cases, populations of N.                                   *)
(***************************************************************************)
EXTENDS PushEvolution

I(f, o)     == [f |-> f, o |-> o]
IV(f, o, v) == [f |-> f, o |-> o, v |-> v]

Alphabet == {[c |-> TRUE], Gene(IV("int", "push", 1)), Gene(I("input", "x")), Gene(I("int", "add")), Gene(I("exec", "when"))}

TheCases == << [inputs |-> [x |-> IV("int", "push", 2)],  expected |-> 3],
               [inputs |-> [x |-> IV("int", "push", -1)], expected |-> 1] >>

Base == [cases |-> TheCases, m |-> 3, limit |-> 8, penalty |-> 100, new |-> Alphabet]
CfgCopy   == Base @@ [add |-> <<0, 1>>, del |-> <<0, 1>>]
CfgDelete == Base @@ [add |-> <<0, 1>>, del |-> <<1, 2>>]
CfgAdd    == Base @@ [add |-> <<1, 2>>, del |-> <<0, 1>>]
CfgBoth   == Base @@ [add |-> <<1, 10>>, del |-> <<1, 10>>]
=============================================================================
