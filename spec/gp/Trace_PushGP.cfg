SPECIFICATION TraceSpec
CONSTANTS
  IntMax = 536870911
  ExpMax = 268435456
  FMax = 1048576
  Cases = 0
  Limit = 0
  Penalty = 0
INVARIANTS ObservedSane
POSTCONDITION TraceAccepted
CHECK_DEADLOCK FALSE
