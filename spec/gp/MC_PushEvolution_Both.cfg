SPECIFICATION Spec
CONSTANTS
  IntMax = 536870911
  ExpMax = 268435456
  FMax = 1048576
  Config <- CfgBoth
  N = 2
  GLen = 1
  Gens = 1
INVARIANTS SizeConstant ScoresConsistent SelectionTotal ParentsUndominated
PROPERTIES SpecialistsSurvive LengthsUnderPureRates
CHECK_DEADLOCK FALSE
