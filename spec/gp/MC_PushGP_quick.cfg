SPECIFICATION MCSpec
CONSTANTS
  IntMax = 536870911
  ExpMax = 268435456
  FMax = 1048576
  GLen = 3
  Ms = {2, 4}
  Limit = 12
  Penalty = 1000
  Cases <- MCCases
INVARIANTS ErrorsNonNegative PenaltyMeansNoAnswer ZeroTotalMeansSolved LeadingCloseInert TrailingCloseInert
           FlatWithoutOpeners ProgramNoLonger WellTabledAlways Emit
CHECK_DEADLOCK FALSE
