----------------------------- MODULE Trace_Cases -----------------------------
(* Random histories on ONE real push::evaluation::Cases<i64, i64> object:     *)
(* every event is an action of Cases.tla and carries the collection after it  *)
(* (read through iter()) and what the call returned.                          *)
EXTENDS Cases, Json, IOUtils, TLC

Log == ndJsonDeserialize(IOEnv.TRACE)
VARIABLE l

TraceInit == l = 1 /\ cases = <<>> /\ op = Op("new", <<>>, 0) /\ ret = None

Reset == Log[l].ev = "reset" /\ cases' = <<>> /\ op' = Op("new", <<>>, 0) /\ ret' = None

Step == LET e == Log[l] IN
  /\ e.ev = "op"
  /\ CASE e.name = "from_inputs" -> FromInputs(e.xs)
       [] e.name = "from_pairs"  -> FromPairs(e.xs)
       [] e.name = "add_case"    -> AddCase(e.xs[1], e.xs[2])
       [] e.name = "outputs_mut" -> MapOutputs(e.n)
       [] e.name = "inputs_mut"  -> MapInputs(e.n)
       [] e.name = "iter_mut"    -> MapCases(e.n)
       [] e.name = "len"         -> Len_
       [] e.name = "is_empty"    -> IsEmpty
       [] e.name = "inputs"      -> Inputs
       [] e.name = "outputs"     -> Outputs
       [] e.name = "iter"        -> Pairs
  /\ cases' = e.after /\ ret' = e.ret

TraceNext == l <= Len(Log) /\ l' = l + 1 /\ (Reset \/ Step)
TraceSpec == TraceInit /\ [][TraceNext]_<<cvars, l>>
TraceAccepted ==
  LET d == TLCGet("stats").diameter IN
  IF d - 1 = Len(Log) THEN TRUE ELSE PrintT(<<"TRACE-REJECTED", d>>) /\ FALSE
=============================================================================
