SPECIFICATION TraceSpec
CONSTANTS
  Vals = {}
  MaxLen = 0
INVARIANTS ViewsAgree
POSTCONDITION TraceAccepted
CHECK_DEADLOCK FALSE
