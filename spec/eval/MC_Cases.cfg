SPECIFICATION Spec
CONSTANTS
  Vals <- MCVals
  MaxLen = 2
CONSTRAINT Bounded
INVARIANTS ViewsAgree
PROPERTIES ObserversInert AppendsAtEnd TargetApplied OutputsOnly InputsOnly
CHECK_DEADLOCK FALSE
