-------------------------------- MODULE Cases --------------------------------
(***************************************************************************)
(* push::evaluation::Cases - the ordered collection of (input, output)     *)
(* training cases a Push program is evaluated on.  Not one of the listed   *)
(* properties; specified because every example scorer is built on it.      *)
(*                                                                         *)
(* The collection is a sequence of cases in insertion order.  It can be    *)
(* built empty, from a sequence of inputs and a target function (output =  *)
(* target(input), inputs kept in order), or from pairs; cases are appended *)
(* at the end; inputs and outputs can be read, consumed or modified in     *)
(* place - each view in case order and without touching the other          *)
(* component.                                                              *)
(***************************************************************************)
EXTENDS Integers, Sequences

CONSTANTS Vals,      \* values inputs / outputs / deltas range over (model checking)
          MaxLen     \* bound on the collection size (model checking)

VARIABLES cases,     \* sequence of [i |-> input, o |-> output]
          op, ret    \* last operation and what it returned (observation)

cvars == <<cases, op, ret>>

Case(i, o) == [i |-> i, o |-> o]
(* the target function used throughout (any function would do) *)
Target(i) == 2 * i + 1

Ins(cs)  == [k \in 1..Len(cs) |-> cs[k].i]
Outs(cs) == [k \in 1..Len(cs) |-> cs[k].o]

Op(name, xs, n) == [name |-> name, xs |-> xs, n |-> n]
None == <<>>

Init == cases = <<>> /\ op = Op("new", <<>>, 0) /\ ret = None

Do(o, cs, r) == cases' = cs /\ op' = o /\ ret' = r

FromInputs(ins)  == Do(Op("from_inputs", ins, 0), [k \in 1..Len(ins) |-> Case(ins[k], Target(ins[k]))], None)
FromPairs(ps)    == Do(Op("from_pairs", ps, 0), ps, None)                       \* collect / FromIterator
AddCase(i, o)    == Do(Op("add_case", <<i, o>>, 0), Append(cases, Case(i, o)), None)   \* add_case, with_case
MapOutputs(d)    == Do(Op("outputs_mut", <<>>, d), [k \in 1..Len(cases) |-> Case(cases[k].i, cases[k].o + d)], None)
MapInputs(d)     == Do(Op("inputs_mut", <<>>, d), [k \in 1..Len(cases) |-> Case(cases[k].i + d, cases[k].o)], None)
MapCases(d)      == Do(Op("iter_mut", <<>>, d), [k \in 1..Len(cases) |-> Case(cases[k].i + d, cases[k].o - d)], None)
(* observers leave the collection as it is *)
Len_    == Do(Op("len", <<>>, 0), cases, <<Len(cases)>>)
IsEmpty == Do(Op("is_empty", <<>>, 0), cases, <<IF Len(cases) = 0 THEN 1 ELSE 0>>)
Inputs  == Do(Op("inputs", <<>>, 0), cases, Ins(cases))           \* inputs(), into_inputs() of a copy
Outputs == Do(Op("outputs", <<>>, 0), cases, Outs(cases))
Pairs   == Do(Op("iter", <<>>, 0), cases, cases)                   \* iter(), into_iter(), &cases

Next ==
  \/ \E n \in 0..MaxLen : \E ins \in [1..n -> Vals] : FromInputs(ins)
  \/ \E n \in 0..2 : \E ps \in [1..n -> {Case(i, o) : i \in Vals, o \in Vals}] : FromPairs(ps)
  \/ (Len(cases) < MaxLen /\ \E i \in Vals, o \in Vals : AddCase(i, o))
  \/ \E d \in Vals : MapOutputs(d) \/ MapInputs(d) \/ MapCases(d)
  \/ Len_ \/ IsEmpty \/ Inputs \/ Outputs \/ Pairs

Spec == Init /\ [][Next]_cvars

-----------------------------------------------------------------------------
(* what a user relies on *)
ObserversInert == [][op'.name \in {"len", "is_empty", "inputs", "outputs", "iter"} => cases' = cases]_cvars
AppendsAtEnd   == [][op'.name = "add_case" =>
                       (Len(cases') = Len(cases) + 1 /\ SubSeq(cases', 1, Len(cases)) = cases
                        /\ cases'[Len(cases')] = Case(op'.xs[1], op'.xs[2]))]_cvars
TargetApplied  == [][op'.name = "from_inputs" =>
                       (Ins(cases') = op'.xs /\ \A k \in 1..Len(cases') : cases'[k].o = Target(cases'[k].i))]_cvars
OutputsOnly    == [][op'.name = "outputs_mut" => (Ins(cases') = Ins(cases) /\ Len(cases') = Len(cases))]_cvars
InputsOnly     == [][op'.name = "inputs_mut" => (Outs(cases') = Outs(cases) /\ Len(cases') = Len(cases))]_cvars
ViewsAgree     == (op.name = "inputs" => ret = Ins(cases)) /\ (op.name = "outputs" => ret = Outs(cases))
                  /\ (op.name = "iter" => ret = cases) /\ (op.name = "len" => ret = <<Len(cases)>>)
                  /\ (op.name = "is_empty" => (ret = <<1>> <=> cases = <<>>))
=============================================================================
