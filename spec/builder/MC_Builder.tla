----------------------------- MODULE MC_Builder -----------------------------
EXTENDS Builder, TLC, Json

CONSTANTS MaxCalls, SizeChoices, ValueLists, Progs

VL == {<<7>>, <<8, 9>>}
VL0 == {<<>>}
PG0 == {<<>>}
PG == {<<1, 2>>}

Calls ==
       {MaxAll(m) : m \in SizeChoices}
  \cup {MaxOf(s, m) : s \in ValueStacks, m \in SizeChoices}
  \cup {Values(s, xs) : s \in ValueStacks, xs \in ValueLists}
  \cup {Program(p) : p \in Progs} \cup {NoProgram, StepLimit(5), Build}
  \cup {Input(s, nm, 4) : s \in ValueStacks, nm \in {"x"}}

Next == \E c \in Calls : Len(hist) < MaxCalls /\ Apply(c)
Spec == Init /\ [][Next]_vars

Kinds == {c.k : c \in Calls}
(* a representative call of each kind, for the legality table *)
Rep(k, s) == CASE k = "max_all" -> MaxAll(2) [] k = "max_of" -> MaxOf(s, 2) [] k = "values" -> Values(s, <<>>)
               [] k = "program" -> Program(<<>>) [] k = "no_program" -> NoProgram
               [] k = "step_limit" -> StepLimit(5) [] k = "input" -> Input(s, "x", 4) [] k = "build" -> Build

TypeState == [ts |-> ts, exec |-> tsExec, steps |-> tsSteps]

EmitCases ==
  (status \in {"built", "overflow"}) =>
     PrintT(<<"CASE", ToJson([hist |-> hist, status |-> status, vals |-> vals, max |-> max, exec |-> exec,
                              execMax |-> execMax, limit |-> limit, inputs |-> inputs])>>)

(* the legality table of the type-state machine: one line per (reachable type-state, call kind), with a *)
(* shortest call sequence reaching that type-state (explored under VIEW TypeView, so each type-state is *)
(* visited breadth first,                                                                                *)
(* ... once per LAST call kind: every transition of the type-state machine ends some prefix, so a  *)
(* transition that loses a marker (e.g. "values loaded") is followed by the calls it must refuse)   *)
LastKind == IF hist = <<>> THEN "none" ELSE hist[Len(hist)].k
TypeView == <<ts, tsExec, tsSteps, status, LastKind>>
EmitTypes ==
  (status = "building") =>
     \A k \in Kinds : \A s \in (IF k \in {"max_of", "values", "input"} THEN ValueStacks ELSE {""}) :
        PrintT(<<"TYPESTATE", ToJson([state |-> TypeState, prefix |-> hist, call |-> Rep(k, s),
                                      legal |-> Legal(Rep(k, s))])>>)
=============================================================================
