SPECIFICATION Spec
CONSTANTS
  ValueStacks = {"a"}
  Unbounded = 1000000
  HasSteps = FALSE
  HasInputs = FALSE
  MaxCalls = 6
  SizeChoices = {1, 3}
  ValueLists <- VL
  Progs <- PG
INVARIANTS ContentsAsSupplied MaxIsLastSet WithinMax ProgramOrder BuildNeedsEverything NoResizeAfterData InputsByName EmitCases
CHECK_DEADLOCK FALSE
