SPECIFICATION Spec
CONSTANTS
  ValueStacks = {"a", "b"}
  Unbounded = 1000000
  MaxCalls = 8
  SizeChoices = {2}
  ValueLists <- VL0
  Progs <- PG0
VIEW TypeView
INVARIANTS EmitTypes
CHECK_DEADLOCK FALSE
