SPECIFICATION Spec
CONSTANTS
  ValueStacks = {"a"}
  Unbounded = 1000000
  HasSteps = FALSE
  HasInputs = FALSE
  MaxCalls = 8
  SizeChoices = {2}
  ValueLists <- VL0
  Progs <- PG0
VIEW TypeView
INVARIANTS EmitTypes
CHECK_DEADLOCK FALSE
