SPECIFICATION Spec
CONSTANTS
  ValueStacks = {"a", "b"}
  Unbounded = 1000000
  HasSteps = TRUE
  HasInputs = TRUE
  MaxCalls = 5
  SizeChoices = {1, 3}
  ValueLists <- VL
  Progs <- PG
INVARIANTS ContentsAsSupplied MaxIsLastSet WithinMax ProgramOrder BuildNeedsEverything NoResizeAfterData InputsByName EmitCases
CHECK_DEADLOCK FALSE
