SPECIFICATION TraceSpec
CONSTANTS
  Values = {0}
  Caps = {0}
  BulkLen = 0
  DiscMax = 0
POSTCONDITION TraceAccepted
CHECK_DEADLOCK FALSE
