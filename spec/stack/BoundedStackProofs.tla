------------------------- MODULE BoundedStackProofs -------------------------
(***************************************************************************)
(* Machine-checked (TLAPS) proofs of per-step clauses of property C04 on   *)
(* BoundedStack.tla for ALL value sets, capacities, contents and           *)
(* operation arguments - no small-scope bound (TLC checks the same clauses *)
(* exhaustively only up to depth 3-5).  `v`, `m` and the operation's       *)
(* arguments are arbitrary; only the operation NAME is one of the stack's. *)
(* Run: tlapm BoundedStackProofs.tla                                        *)
(***************************************************************************)
EXTENDS BoundedStack, TLAPS

AllNames == {"push", "pop", "pop2", "pop3", "top", "top2", "top3", "size", "is_empty",
             "is_full", "max_size", "discard", "push_many", "try_extend", "set_max"}

(* "every operation either succeeds completely or reports underflow or     *)
(*  overflow and leaves the contents exactly as they were"                  *)
THEOREM AllOrNothingAlways ==
  ASSUME NEW v, NEW m, NEW o, o.name \in AllNames, NEW r \in Outcomes(v, m, o)
  PROVE  r.ret.k # "ok" => (r.vals = v /\ r.max = m)
<1> USE DEF Out, Ok, OkN, Underflow, Overflow, Res
<1>1. CASE o.name = "push" BY <1>1 DEF Outcomes
<1>2. CASE o.name \in {"pop", "pop2", "pop3"} BY <1>2 DEF Outcomes
<1>3. CASE o.name \in {"top", "top2", "top3"} BY <1>3 DEF Outcomes
<1>4. CASE o.name = "discard" BY <1>4 DEF Outcomes
<1>5. CASE o.name \in {"push_many", "try_extend"} BY <1>5 DEF Outcomes
<1>6. CASE o.name = "set_max" BY <1>6 DEF Outcomes
<1>7. CASE o.name = "size" BY <1>7 DEF Outcomes
<1>8. CASE o.name = "is_empty" BY <1>8 DEF Outcomes
<1>9. CASE o.name = "is_full" BY <1>9 DEF Outcomes
<1>10. CASE o.name = "max_size" BY <1>10 DEF Outcomes
<1> QED BY <1>1, <1>2, <1>3, <1>4, <1>5, <1>6, <1>7, <1>8, <1>9, <1>10 DEF AllNames

(* errors have the documented kinds only: removals / reads underflow, insertions overflow *)
THEOREM ErrorKindsAlways ==
  ASSUME NEW v, NEW m, NEW o, o.name \in AllNames, NEW r \in Outcomes(v, m, o)
  PROVE  /\ r.ret.k \in {"ok", "underflow", "overflow"}
         /\ (r.ret.k = "underflow" => o.name \in Removing \cup {"top", "top2", "top3"})
         /\ (r.ret.k = "overflow" => o.name \in Inserting)
<1> USE DEF Out, Ok, OkN, Underflow, Overflow, Res, Removing, Inserting
<1>1. CASE o.name = "push" BY <1>1 DEF Outcomes
<1>2. CASE o.name \in {"pop", "pop2", "pop3"} BY <1>2 DEF Outcomes
<1>3. CASE o.name \in {"top", "top2", "top3"} BY <1>3 DEF Outcomes
<1>4. CASE o.name = "discard" BY <1>4 DEF Outcomes
<1>5. CASE o.name \in {"push_many", "try_extend"} BY <1>5 DEF Outcomes
<1>6. CASE o.name = "set_max" BY <1>6 DEF Outcomes
<1>7. CASE o.name = "size" BY <1>7 DEF Outcomes
<1>8. CASE o.name = "is_empty" BY <1>8 DEF Outcomes
<1>9. CASE o.name = "is_full" BY <1>9 DEF Outcomes
<1>10. CASE o.name = "max_size" BY <1>10 DEF Outcomes
<1> QED BY <1>1, <1>2, <1>3, <1>4, <1>5, <1>6, <1>7, <1>8, <1>9, <1>10 DEF AllNames

(* only set_max changes the maximum; reads and set_max never touch the contents *)
THEOREM InertAlways ==
  ASSUME NEW v, NEW m, NEW o, o.name \in AllNames, NEW r \in Outcomes(v, m, o)
  PROVE  /\ (r.max # m => (o.name = "set_max" /\ r.max = o.n))
         /\ (o.name \in Reading \cup {"set_max"} => r.vals = v)
<1> USE DEF Out, Ok, OkN, Underflow, Overflow, Res, Reading
<1>1. CASE o.name = "push" BY <1>1 DEF Outcomes
<1>2. CASE o.name \in {"pop", "pop2", "pop3"} BY <1>2 DEF Outcomes
<1>3. CASE o.name \in {"top", "top2", "top3"} BY <1>3 DEF Outcomes
<1>4. CASE o.name = "discard" BY <1>4 DEF Outcomes
<1>5. CASE o.name \in {"push_many", "try_extend"} BY <1>5 DEF Outcomes
<1>6. CASE o.name = "set_max" BY <1>6 DEF Outcomes
<1>7. CASE o.name = "size" BY <1>7 DEF Outcomes
<1>8. CASE o.name = "is_empty" BY <1>8 DEF Outcomes
<1>9. CASE o.name = "is_full" BY <1>9 DEF Outcomes
<1>10. CASE o.name = "max_size" BY <1>10 DEF Outcomes
<1> QED BY <1>1, <1>2, <1>3, <1>4, <1>5, <1>6, <1>7, <1>8, <1>9, <1>10 DEF AllNames

(* "no successful insertion ever leaves the stack larger than its current   *)
(*  maximum size, even if that maximum was changed after elements were added" *)
THEOREM CapacityAlways ==
  ASSUME NEW Vs, NEW v \in Seq(Vs), NEW m \in Nat, NEW o, o.name \in Inserting,
         o.s \in Seq(Vs), NEW r \in Outcomes(v, m, o),
         r.ret.k = "ok", Len(r.vals) > Len(v)
  PROVE  Len(r.vals) <= r.max
<1> USE DEF Out, Ok, OkN, Underflow, Overflow, Res, Inserting
<1>1. CASE o.name = "push"
  <2>1. Len(<<o.v>> \o v) = Len(v) + 1 OBVIOUS
  <2> QED BY <1>1, <2>1 DEF Outcomes
<1>2. CASE o.name \in {"push_many", "try_extend"}
  <2>1. Len(o.s \o v) = Len(o.s) + Len(v) OBVIOUS
  <2>2. Len(o.s) \in Nat /\ Len(v) \in Nat OBVIOUS
  <2> QED BY <1>2, <2>1, <2>2 DEF Outcomes
<1> QED BY <1>1, <1>2
=============================================================================
