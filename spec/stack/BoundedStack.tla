---------------------------- MODULE BoundedStack ----------------------------
(***************************************************************************)
(* The bounded, typed stack of the Push VM (push::push_vm::stack::Stack)   *)
(* as an abstract last-in-first-out sequence with a changeable maximum     *)
(* size.  Written from property C04 and the doc comments of the stack, not *)
(* from its code: every operation either succeeds completely or reports    *)
(* Underflow(requested, present) / Overflow and leaves the contents as     *)
(* they were; no successful insertion leaves the stack above its current   *)
(* maximum.                                                                *)
(*                                                                         *)
(* `vals` is written TOP FIRST: vals[1] is the top of the stack.           *)
(***************************************************************************)
EXTENDS Naturals, Sequences, FiniteSets

CONSTANTS Values,   \* the element values operations may supply
          Caps,     \* the maximum sizes set_max_stack_size may choose
          BulkLen,  \* largest number of elements one bulk insertion supplies
          DiscMax   \* largest count handed to discard

VARIABLES vals,   \* contents, top first
          max,    \* current maximum size
          op,     \* the operation performed last  (observation variable)
          ret     \* what it returned               (observation variable)

vars == <<vals, max, op, ret>>

-----------------------------------------------------------------------------
(* Results.  All results have the same record shape so that they print as  *)
(* uniform JSON: k = kind, v = element values returned (top first),        *)
(* n = scalar answer of a query, req/have = the underflow payload.         *)
Res(k, v, n, req, have) == [k |-> k, v |-> v, n |-> n, req |-> req, have |-> have]
Ok(v)            == Res("ok", v, 0, 0, 0)
OkN(n)           == Res("ok", <<>>, n, 0, 0)
Underflow(r, h)  == Res("underflow", <<>>, 0, r, h)
Overflow         == Res("overflow", <<>>, 0, 0, 0)

(* Operations, again one record shape: name, v = one value, s = a sequence *)
(* of values (bulk insertion, first element becomes the new top),          *)
(* n = a count / a capacity.                                               *)
Op(name, v, s, n) == [name |-> name, v |-> v, s |-> s, n |-> n]
NoOp == Op("init", 0, <<>>, 0)

SeqsUpTo(S, n) == UNION {[1..k -> S] : k \in 0..n}

Ops ==
       {Op("push", v, <<>>, 0) : v \in Values}
  \cup {Op(nm, 0, <<>>, 0) : nm \in {"pop", "pop2", "pop3", "top", "top2", "top3",
                                     "size", "is_empty", "is_full", "max_size"}}
  \cup {Op("discard", 0, <<>>, n) : n \in 0..DiscMax}
  \cup {Op(nm, 0, s, 0) : nm \in {"push_many", "try_extend"}, s \in SeqsUpTo(Values, BulkLen)}
  \cup {Op("set_max", 0, <<>>, m) : m \in Caps}

Bool(b) == IF b THEN 1 ELSE 0

Out(r, v, m) == [ret |-> r, vals |-> v, max |-> m]

Take(s, k) == SubSeq(s, 1, k)
Drop(s, k) == SubSeq(s, k + 1, Len(s))

(* How many elements an operation reads or removes.                        *)
Arity(o) == CASE o.name \in {"pop", "top"}   -> 1
              [] o.name \in {"pop2", "top2"} -> 2
              [] o.name \in {"pop3", "top3"} -> 3
              [] OTHER -> 0

(***************************************************************************)
(* Outcomes(v, m, o): the SET of outcomes property C04 allows when         *)
(* operation o is applied to a stack with contents v and maximum m.  It is *)
(* a singleton except at the two points where the property is silent       *)
(* (DESIGN 3.6, L4): `is_full` on a stack that holds more than its lowered *)
(* maximum, and a bulk insertion of ZERO elements into such a stack.       *)
(***************************************************************************)
Outcomes(v, m, o) ==
  LET n == Len(v) IN
  CASE o.name = "push" ->
         IF n >= m THEN {Out(Overflow, v, m)}
                   ELSE {Out(Ok(<<>>), <<o.v>> \o v, m)}
    [] o.name \in {"pop", "pop2", "pop3"} ->
         LET k == Arity(o) IN
         IF n >= k THEN {Out(Ok(Take(v, k)), Drop(v, k), m)}
                   ELSE {Out(Underflow(k, n), v, m)}
    [] o.name \in {"top", "top2", "top3"} ->
         LET k == Arity(o) IN
         IF n >= k THEN {Out(Ok(Take(v, k)), v, m)}
                   ELSE {Out(Underflow(k, n), v, m)}
    [] o.name = "discard" ->
         IF n >= o.n THEN {Out(Ok(<<>>), Drop(v, o.n), m)}
                     ELSE {Out(Underflow(o.n, n), v, m)}
    [] o.name \in {"push_many", "try_extend"} ->
         IF Len(o.s) = 0
           THEN IF n > m THEN {Out(Ok(<<>>), v, m), Out(Overflow, v, m)}
                         ELSE {Out(Ok(<<>>), v, m)}
           ELSE IF n + Len(o.s) > m THEN {Out(Overflow, v, m)}
                                    ELSE {Out(Ok(<<>>), o.s \o v, m)}
    [] o.name = "set_max"  -> {Out(Ok(<<>>), v, o.n)}
    [] o.name = "size"     -> {Out(OkN(n), v, m)}
    [] o.name = "is_empty" -> {Out(OkN(Bool(n = 0)), v, m)}
    [] o.name = "is_full"  ->
         IF n > m THEN {Out(OkN(0), v, m), Out(OkN(1), v, m)}
                  ELSE {Out(OkN(Bool(n = m)), v, m)}
    [] o.name = "max_size" -> {Out(OkN(m), v, m)}

Step(o) == \E r \in Outcomes(vals, max, o) :
              /\ vals' = r.vals
              /\ max'  = r.max
              /\ ret'  = r.ret
              /\ op'   = o

Init == /\ vals = <<>>
        /\ max \in Caps
        /\ op = NoOp
        /\ ret = Ok(<<>>)

Next == \E o \in Ops : Step(o)

Spec == Init /\ [][Next]_vars

-----------------------------------------------------------------------------
(* The clauses of property C04, stated on their own (not via Outcomes).    *)

Inserting == {"push", "push_many", "try_extend"}
Removing  == {"pop", "pop2", "pop3", "discard"}
Reading   == {"top", "top2", "top3", "size", "is_empty", "is_full", "max_size"}

\* "Every operation either succeeds completely or reports underflow or
\*  overflow and leaves the contents exactly as they were."
AllOrNothing == [][ret'.k # "ok" => (vals' = vals /\ max' = max)]_vars

\* Only removals report underflow, only insertions report overflow.
ErrorKinds == [][ /\ ret'.k \in {"ok", "underflow", "overflow"}
                  /\ (ret'.k = "underflow" => op'.name \in Removing \cup {"top", "top2", "top3"})
                  /\ (ret'.k = "overflow"  => op'.name \in Inserting) ]_vars

\* "reading or removing one, two or three elements returns the most
\*  recently pushed values top first"
ReadsTopFirst ==
  [][ (op'.name \in {"pop","pop2","pop3","top","top2","top3"} /\ ret'.k = "ok") =>
        LET k == Len(ret'.v) IN
          /\ k = Arity(op')
          /\ \A i \in 1..k : ret'.v[i] = vals[i]
          /\ vals' = IF op'.name \in Removing THEN Drop(vals, k) ELSE vals ]_vars

\* "underflow (with the requested and present counts)"
PayloadExact ==
  [][ ret'.k = "underflow" =>
        /\ ret'.have = Len(vals)
        /\ ret'.req = (IF op'.name = "discard" THEN op'.n ELSE Arity(op'))
        /\ ret'.have < ret'.req ]_vars

\* An operation that has enough elements never reports underflow.
NoSpuriousUnderflow ==
  [][ (op'.name \in Removing \cup {"top","top2","top3"}
       /\ Len(vals) >= (IF op'.name = "discard" THEN op'.n ELSE Arity(op')))
      => ret'.k = "ok" ]_vars

\* "discarding removes exactly the requested count"
DiscardExact ==
  [][ (op'.name = "discard" /\ ret'.k = "ok") =>
        (Len(vals') = Len(vals) - op'.n /\ vals' = Drop(vals, op'.n)) ]_vars

\* "bulk insertion makes the first supplied value the new top", a single push
\*  makes its value the new top, and everything below is untouched.
InsertOnTop ==
  [][ (op'.name \in Inserting /\ ret'.k = "ok") =>
        LET s == IF op'.name = "push" THEN <<op'.v>> ELSE op'.s IN
          vals' = s \o vals ]_vars

\* "no successful insertion ever leaves the stack larger than its current
\*  maximum size, even if that maximum was changed after elements were added"
\* (insertions of at least one element; the empty bulk insertion is L4).
CapacityRespected ==
  [][ (op'.name \in Inserting /\ ret'.k = "ok" /\ Len(vals') > Len(vals))
        => Len(vals') <= max' ]_vars

\* An insertion that fits is not refused.
NoSpuriousOverflow ==
  [][ (op'.name \in Inserting /\
       Len(vals) + (IF op'.name = "push" THEN 1 ELSE Len(op'.s)) <= max)
      => ret'.k = "ok" ]_vars

\* Queries and set_max never touch the contents; only set_max changes max.
ReadsInert == [][op'.name \in Reading \cup {"set_max"} => vals' = vals]_vars
MaxOnlyBySetMax == [][max' # max => (op'.name = "set_max" /\ max' = op'.n)]_vars

\* LIFO as a two-step fact: a value just pushed is what the next pop returns,
\* and that pop restores the contents (op/ret remember the push).
PushThenPop ==
  [][ (op.name = "push" /\ ret.k = "ok" /\ op'.name = "pop") =>
        (ret'.k = "ok" /\ ret'.v = <<op.v>>) ]_vars
BulkThenPops ==
  [][ (op.name \in {"push_many","try_extend"} /\ ret.k = "ok" /\ Len(op.s) = 3
       /\ op'.name = "pop3") => (ret'.k = "ok" /\ ret'.v = op.s) ]_vars

TypeOK == /\ vals \in Seq(Values)
          /\ max \in Caps
          /\ ret.k \in {"ok", "underflow", "overflow"}
=============================================================================
