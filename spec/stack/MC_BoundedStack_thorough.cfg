SPECIFICATION MCSpec
CONSTANTS
  Values = {1, 2, 3}
  Caps = {0, 1, 2, 3, 4, 5}
  BulkLen = 3
  DiscMax = 6
  Depth = 5
CONSTRAINT Bounded
INVARIANTS TypeOK Emit
PROPERTIES AllOrNothing ErrorKinds ReadsTopFirst PayloadExact NoSpuriousUnderflow DiscardExact InsertOnTop CapacityRespected NoSpuriousOverflow ReadsInert MaxOnlyBySetMax PushThenPop BulkThenPops
CHECK_DEADLOCK FALSE
