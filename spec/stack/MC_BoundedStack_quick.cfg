SPECIFICATION MCSpec
CONSTANTS
  Values = {1, 2, 3}
  Caps = {0, 1, 2, 3}
  BulkLen = 2
  DiscMax = 4
  Depth = 3
CONSTRAINT Bounded
INVARIANTS TypeOK Emit
PROPERTIES AllOrNothing ErrorKinds ReadsTopFirst PayloadExact NoSpuriousUnderflow DiscardExact InsertOnTop CapacityRespected NoSpuriousOverflow ReadsInert MaxOnlyBySetMax PushThenPop BulkThenPops
CHECK_DEADLOCK FALSE
