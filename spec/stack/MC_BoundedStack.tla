-------------------------- MODULE MC_BoundedStack --------------------------
(* Exhaustive model: every stack content up to Depth over Values, every     *)
(* capacity, is an initial state; one step applies every operation.  The    *)
(* `Emit` invariant prints one replay case per (state, operation) with the  *)
(* set of outcomes the specification allows.                                *)
EXTENDS BoundedStack, TLC, Json

CONSTANT Depth

MCInit == /\ vals \in SeqsUpTo(Values, Depth)
          /\ max \in Caps
          /\ op = NoOp
          /\ ret = Ok(<<>>)

MCSpec == MCInit /\ [][Next]_vars

Bounded == Len(vals) <= Depth

SetToSeq(S) == LET RECURSIVE F(_) 
                   F(T) == IF T = {} THEN <<>> ELSE LET x == CHOOSE y \in T : TRUE IN <<x>> \o F(T \ {x})
               IN F(S)

Case(o) == [vals |-> vals, max |-> max, op |-> o,
            allowed |-> SetToSeq(Outcomes(vals, max, o))]

Emit == (op.name = "init") =>
          \A o \in Ops : PrintT(<<"CASE", ToJson(Case(o))>>)
=============================================================================
