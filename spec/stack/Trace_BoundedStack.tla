------------------------- MODULE Trace_BoundedStack -------------------------
(* Trace validation: a recorded history of the real Stack<u8> must be a     *)
(* behaviour of BoundedStack.  Each "op" event carries the operation, the   *)
(* projected result and the contents/maximum after the call; the step must  *)
(* be a Step(op) of the specification ending in exactly that state.         *)
(* "reset" starts a fresh object.  A recorded panic matches no action.      *)
EXTENDS BoundedStack, Json, IOUtils, TLC

Rec == ndJsonDeserialize(IOEnv.TRACE)

VARIABLE l

TraceInit == /\ l = 1
             /\ vals = <<>> /\ max = 0 /\ op = NoOp /\ ret = Ok(<<>>)

TraceReset == /\ Rec[l].ev = "reset"
              /\ vals' = <<>> /\ max' = Rec[l].max /\ op' = NoOp /\ ret' = Ok(<<>>)

TraceOp == /\ Rec[l].ev = "op"
           /\ Step(Rec[l].op)
           /\ ret'  = Rec[l].ret
           /\ vals' = Rec[l].vals
           /\ max'  = Rec[l].max

TraceNext == /\ l <= Len(Rec)
             /\ l' = l + 1
             /\ (TraceReset \/ TraceOp)

TraceSpec == TraceInit /\ [][TraceNext]_<<vars, l>>

TraceAccepted ==
  LET d == TLCGet("stats").diameter IN
  IF d - 1 = Len(Rec) THEN TRUE
  ELSE /\ PrintT(<<"TRACE-REJECTED", d>>)
       /\ FALSE
=============================================================================
